#!/bin/sh
# Build the framework from files on disk only (offline).
set -e
cd "$(dirname "$0")"
export CARGO_NET_OFFLINE=true
cp /repo/Cargo.lock harness/Cargo.lock
python3 tools/gen_tables.py
BINS=$(python3 - <<'PY'
import json
en=open('checks/enabled.txt').read().split()
bins=set()
for p in en:
    c=json.load(open(f'checks/{p}.json'))
    for r in c.get('runs',[]): bins.add(r['bin'])
print(' '.join('--bin '+b for b in sorted(bins)))
PY
)
(cd harness && cargo build --release --offline $BINS 2>&1 | tail -3)
MODS=$(python3 - <<'PY'
import json,os
en=open('checks/enabled.txt').read().split()
mods=[]
for p in en:
    c=json.load(open(f'checks/{p}.json'))
    mods+=c.get('props_modules',[])
print(' '.join(sorted(set(mods))))
PY
)
(cd lean && lake build driver $MODS 2>&1 | tail -3)
echo setup done
