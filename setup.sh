#!/bin/sh
# Build the framework from files on disk only (offline).
set -e
cd "$(dirname "$0")"
export CARGO_NET_OFFLINE=true
cp /repo/Cargo.lock harness/Cargo.lock
python3 tools/gen_tables.py
(cd harness && cargo build --release --offline 2>&1 | tail -3)
(cd lean && lake build GrinVerif driver 2>&1 | tail -3)
echo setup done
