/-! Feasibility probe: byte-level codec round trip in the `++ rest` style -/
abbrev Bytes := List Nat   -- each < 256 (WF carried separately); Nat keeps omega usable

inductive SerErr | eof | corrupted | tooLarge
deriving DecidableEq, Repr

def readU8 : Bytes → Except SerErr (Nat × Bytes)
  | [] => .error .eof
  | b :: r => .ok (b, r)

def writeU64 (n : Nat) : Bytes :=
  [n / 2^56 % 256, n / 2^48 % 256, n / 2^40 % 256, n / 2^32 % 256,
   n / 2^24 % 256, n / 2^16 % 256, n / 2^8 % 256, n % 256]

def readU64 : Bytes → Except SerErr (Nat × Bytes)
  | b0::b1::b2::b3::b4::b5::b6::b7::r =>
      .ok (b0*2^56 + b1*2^48 + b2*2^40 + b3*2^32 + b4*2^24 + b5*2^16 + b6*2^8 + b7, r)
  | _ => .error .eof

theorem readU64_writeU64 (n : Nat) (h : n < 2^64) (rest : Bytes) :
    readU64 (writeU64 n ++ rest) = .ok (n, rest) := by
  simp only [writeU64, List.cons_append, List.nil_append, readU64]
  congr 2
  omega

/-- KernelFeatures, v2 wire format -/
inductive KF
  | plain (fee : Nat)
  | coinbase
  | heightLocked (fee lock : Nat)
deriving DecidableEq, Repr

def KF.WF : KF → Prop
  | .plain f => f < 2^64
  | .coinbase => True
  | .heightLocked f l => f < 2^64 ∧ l < 2^64

def encKF2 : KF → Bytes
  | .plain f => 0 :: writeU64 f
  | .coinbase => [1]
  | .heightLocked f l => 2 :: (writeU64 f ++ writeU64 l)

def decKF2 (bs : Bytes) : Except SerErr (KF × Bytes) := do
  let (t, r) ← readU8 bs
  match t with
  | 0 => let (f, r) ← readU64 r; pure (.plain f, r)
  | 1 => pure (.coinbase, r)
  | 2 => let (f, r) ← readU64 r; let (l, r) ← readU64 r; pure (.heightLocked f l, r)
  | _ => .error .corrupted

theorem decKF2_encKF2 (k : KF) (h : k.WF) (rest : Bytes) :
    decKF2 (encKF2 k ++ rest) = .ok (k, rest) := by
  cases k with
  | plain f =>
    simp only [encKF2, decKF2, List.cons_append, readU8]
    simp [readU64_writeU64 f h, bind, Except.bind, pure, Except.pure]
  | coinbase => simp [encKF2, decKF2, readU8, bind, Except.bind, pure, Except.pure]
  | heightLocked f l =>
    obtain ⟨hf, hl⟩ := h
    simp only [encKF2, decKF2, List.cons_append, List.append_assoc, readU8]
    simp [readU64_writeU64 f hf, readU64_writeU64 l hl, bind, Except.bind, pure, Except.pure]

theorem decKF2_unknown_tag (t : Nat) (ht : 3 ≤ t) (r : Bytes) :
    decKF2 (t :: r) = .error .corrupted := by
  match t, ht with
  | t+3, _ => simp [decKF2, readU8, bind, Except.bind]
