#!/usr/bin/env python3
"""Regenerate lean/GrinVerif/Model/SerImpls.lean from the output of `harness/target/release/ser impls`
(stdin). The coverage classification below is maintained BY HAND: a new impl has no entry and the
script stops."""
import sys
C = lambda n: ('codec', n); I = lambda n: ('inside', n); Wr = lambda n: ('wrapper', n)
O = lambda n: ('op', n); X = lambda w: ('excluded', w)
cover = {
 'ListEntry<T>': C('NrdEntry'), 'ListEntryVariant': I('NrdEntry'),
 'ListWrapper<T>': C('NrdList'), 'ListWrapperVariant': I('NrdList'),
 'BoolFlag': X('private to chain/src/store.rs and never constructed; modelled (decBoolFlag), theorems only'),
 'BitmapBlock': I('BitmapSegment'), 'BitmapBlockSerialization': I('BitmapSegment'),
 'BitmapChunk': X('read() returns an empty chunk without reading anything; only elmt_size() is compared'),
 'BitmapSegment': C('BitmapSegment'), 'CommitPos': C('CommitPos'), 'Tip': C('Tip'),
 'Block': C('Block'), 'BlockHeader': C('BlockHeader'), 'HeaderEntry': C('HeaderEntry'),
 'HeaderVersion': I('BlockHeader'), 'UntrustedBlock': Wr('Block'), 'UntrustedBlockHeader': Wr('BlockHeader'),
 'BlockSums': C('BlockSums'), 'CompactBlock': C('CompactBlock'), 'CompactBlockBody': I('CompactBlock'),
 'UntrustedCompactBlock': Wr('CompactBlock'), 'Hash': C('Hash'), 'ShortId': C('ShortId'),
 'MerkleProof': C('MerkleProof'), 'Segment<T>': C('KernelSegment'), 'SegmentIdentifier': C('SegmentIdentifier'),
 'SegmentProof': C('SegmentProof'), 'CommitWrapper': C('CommitWrapper'), 'FeeFields': I('KernelFeatures'),
 'Input': C('Input'), 'Inputs': I('TransactionBody'), 'KernelFeatures': C('KernelFeatures'),
 'NRDRelativeHeight': C('NRDRelativeHeight'), 'Output': C('Output'), 'OutputFeatures': C('OutputFeatures'),
 'OutputIdentifier': C('OutputIdentifier'), 'Transaction': C('Transaction'), 'TransactionBody': C('TransactionBody'),
 'TxKernel': C('TxKernel'), 'Difficulty': I('ProofOfWork'), 'Proof': C('Proof'), 'ProofOfWork': C('ProofOfWork'),
 '$int': C('I32'), "&'aA": X('forwarding impl: writes what A writes'), '(A,B)': C('TupleU64U32'),
 '(A,B,C)': C('TupleU64U32U16'), '(A,B,C,D)': C('TupleU64U32U16U8'), 'BlindingFactor': C('BlindingFactor'),
 'Commitment': C('Commitment'), 'Identifier': C('Identifier'), 'ProtocolVersion': C('ProtocolVersion'),
 'PublicKey': X('33 bytes, then curve membership (crypto): decPublicKey takes the curve test as a parameter; not driven'),
 'RangeProof': C('RangeProof'), 'Signature': C('Signature'), 'Vec<T>': C('SpentIndex'),
 'BanReason': C('BanReason'), 'GetPeerAddrs': C('GetPeerAddrs'), 'Hand': C('Hand'), 'Headers': C('Headers'),
 'Locator': C('Locator'), 'MsgHeader': C('MsgHeaderA'), 'MsgHeaderWrapper': O('hdr'),
 'OutputBitmapSegmentResponse': C('OutputBitmapSegmentResponse'), 'OutputSegmentResponse': C('OutputSegmentResponse'),
 'PeerAddrs': C('PeerAddrs'), 'PeerError': C('PeerError'), 'Ping': C('Ping'), 'Pong': C('Pong'),
 'SegmentRequest': C('SegmentRequest'), 'SegmentResponse<T>': C('KernelSegmentResponse'), 'Shake': C('Shake'),
 'TxHashSetArchive': C('TxHashSetArchive'), 'TxHashSetRequest': C('TxHashSetRequest'), 'PeerData': C('PeerData'),
 'PeerAddr': C('PeerAddr'), 'SizeEntry': C('SizeEntry'),
}
rows = []
for line in sys.stdin:
    t = line.split()
    if len(t) >= 6 and t[0] == 'ser' and t[1] == 'impl':
        kind, f, ty, fp = t[2], t[3], t[4], t[5]
        if ty not in cover:
            sys.exit('no coverage entry for ' + ty + ' (' + f + ')')
        rows.append((kind, f, ty, fp, cover[ty]))
out = []
out.append('''/-! # Inventory of the `Readable` / `Writeable` impls of the source tree and what covers each
(see `notes/decser_scratch/gen_impls.py`; fingerprints = FNV-1a 64 of the impl block without white
space, recomputed from the current source by the `impls` run of the `ser` harness on every check).
`cover` is maintained by hand: which codec of the driver compares this impl byte for byte (`codec`),
which codec reads it as one of its fields (`inside`), which plain codec a read-time validation wrapper
sits on (`wrapper`, the wrapper itself is a C11 model), which other driver op (`op`), or why it is
left out (`excluded`). Obligations about the table: `Props/C10Impls.lean`. -/
namespace GV.SerImpls

inductive Cover
  | codec (n : String)
  | inside (n : String)
  | wrapper (n : String)
  | op (n : String)
  | excluded (why : String)
deriving DecidableEq, Repr

structure Impl where
  /-- "R" = Readable, "W" = Writeable -/
  kind : String
  file : String
  /-- the type after `for`, white space removed -/
  ty : String
  fp : Nat
  cover : Cover
deriving DecidableEq, Repr

def table : List Impl := [''')
body = []
for (kind, f, ty, fp, (ck, cn)) in rows:
    body.append('  { kind := "%s", file := "%s", ty := "%s", fp := %s, cover := .%s "%s" }' % (kind, f, ty, fp, ck, cn))
out.append(',\n'.join(body) + ']')
names = sorted(set(cn for (_, _, _, _, (ck, cn)) in rows if ck in ('codec', 'inside', 'wrapper')))
out.append('''
/-- every codec name the table refers to (the driver answers the count line with `ok` only if its
dispatch knows each of them) -/
def codecNames : List String := [''' + ', '.join('"%s"' % n for n in names) + ''']

/-- the other driver ops the table refers to -/
def opNames : List String := ["hdr"]

def lookup (kind file ty : String) : Option Impl :=
  table.find? fun i => i.kind == kind && i.file == file && i.ty == ty

def Cover.ref? : Cover → Option String
  | .codec n => some n
  | .inside n => some n
  | .wrapper n => some n
  | _ => none

def count (kind : String) : Nat := (table.filter fun i => i.kind == kind).length

/-- the model's answer to one `ser impl <kind> <file> <type> <fingerprint>` line -/
def answer (kind file ty : String) (fp : Nat) : String :=
  match lookup kind file ty with
  | none => "unlisted"
  | some i => if i.fp = fp then "listed" else s!"changed:{i.fp}"

end GV.SerImpls
''')
sys.stdout.write('\n'.join(out))
