#!/bin/bash
cd /verif/lean
cp /verif/notes/nrd_scratch/NrdIndex.lean.orig GrinVerif/Model/NrdIndex.lean
python3 - "$2" "$3" <<'PY'
import sys
p='/verif/lean/GrinVerif/Model/NrdIndex.lean'
s=open(p).read()
old,new=sys.argv[1],sys.argv[2]
assert s.count(old)>=1, "pattern not found"
s=s.replace(old,new,1)
open(p,'w').write(s)
PY
echo "== mutation $1"
if lake build driver 2>&1 | grep -q "Build completed successfully"; then
for t in ops forks chain; do
  timeout 300 .lake/build/bin/driver < /verif/notes/nrd_scratch/$t.txt > /verif/notes/nrd_scratch/mut.out
  echo "$t: $(tail -1 /verif/notes/nrd_scratch/mut.out)"; head -1 /verif/notes/nrd_scratch/mut.out | cut -c1-200
done
else echo "BUILD FAILED"; fi
cp /verif/notes/nrd_scratch/NrdIndex.lean.orig GrinVerif/Model/NrdIndex.lean
