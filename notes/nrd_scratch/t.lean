import GrinVerif.Lemmas.NrdRun
open GV GV.Nrd
variable {ε : Type} [DecidableEq ε]
theorem pop_error_iff (kv : KV ε) (e : ε) (err : Err) :
    (popPos kv e).res = .error err ↔
      ∃ hd tl, kv.getList e = some (.multi hd tl) ∧
        ((err = .headNotHead ∧ ∀ c n, kv.getEntry e hd ≠ some (.head c n)) ∨
         (∃ c n, kv.getEntry e hd = some (.head c n) ∧
            ((err = .nextMissing ∧ kv.getEntry e n = none) ∨
             (err = .nextUnexpected ∧ ∃ c' n', kv.getEntry e n = some (.head c' n'))))) := by
  unfold popPos
  cases hl : kv.getList e with
  | none => simp
  | some w =>
    cases w with
    | single cur => simp
    | multi hd tl =>
      cases hh : kv.getEntry e hd with
      | none => simp [hh, eq_comm]
      | some en =>
        cases en with
        | tail _ _ => simp [hh, eq_comm]
        | middle _ _ _ => simp [hh, eq_comm]
        | head c n =>
          cases hq : kv.getEntry e n with
          | none =>
            simp [hh, hq, eq_comm]
            constructor
            · intro h; exact ⟨c, n, ⟨rfl, rfl⟩, Or.inl ⟨h, hq.symm⟩⟩
            · rintro ⟨c1, n1, ⟨rfl, rfl⟩, h | h⟩
              · exact h.1
              · obtain ⟨_, c', n', h2⟩ := h; rw [hq] at h2; cases h2
          | some en2 =>
            cases en2 with
            | tail _ _ => simp [hh, hq, eq_comm]
            | middle _ _ _ => simp [hh, hq, eq_comm]
            | head c2 n2 =>
              simp [hh, hq, eq_comm]
              constructor
              · intro h; exact ⟨c, n, ⟨rfl, rfl⟩, Or.inr ⟨h, c2, n2, hq⟩⟩
              · rintro ⟨c1, n1, ⟨rfl, rfl⟩, h | h⟩
                · have := h.2; rw [hq] at this; cases this
                · exact h.1

theorem popBack_error_iff (kv : KV ε) (e : ε) (err : Err) :
    (popPosBack kv e).res = .error err ↔
      ∃ tl, (∃ hd, kv.getList e = some (.multi hd tl)) ∧
        ((err = .tailNotTail ∧ ∀ c v, kv.getEntry e tl ≠ some (.tail c v)) ∨
         (∃ c v, kv.getEntry e tl = some (.tail c v) ∧
            ((err = .prevMissing ∧ kv.getEntry e v = none) ∨
             (err = .prevUnexpected ∧ ∃ c' v', kv.getEntry e v = some (.tail c' v'))))) := by
  unfold popPosBack
  cases hl : kv.getList e with
  | none => simp
  | some w =>
    cases w with
    | single cur => simp
    | multi hd tl =>
      cases hh : kv.getEntry e tl with
      | none => simp [hh, eq_comm]
      | some en =>
        cases en with
        | head _ _ => simp [hh, eq_comm]
        | middle _ _ _ => simp [hh, eq_comm]
        | tail c n =>
          cases hq : kv.getEntry e n with
          | none =>
            simp [hh, hq, eq_comm]
            constructor
            · intro h; exact ⟨c, n, ⟨rfl, rfl⟩, Or.inl ⟨h, hq.symm⟩⟩
            · rintro ⟨c1, n1, ⟨rfl, rfl⟩, h | h⟩
              · exact h.1
              · obtain ⟨_, c', n', h2⟩ := h; rw [hq] at h2; cases h2
          | some en2 =>
            cases en2 with
            | head _ _ => simp [hh, hq, eq_comm]
            | middle _ _ _ => simp [hh, hq, eq_comm]
            | tail c2 n2 =>
              simp [hh, hq, eq_comm]
              constructor
              · intro h; exact ⟨c, n, ⟨rfl, rfl⟩, Or.inr ⟨h, c2, n2, hq⟩⟩
              · rintro ⟨c1, n1, ⟨rfl, rfl⟩, h | h⟩
                · have := h.2; rw [hq] at this; cases this
                · exact h.1
