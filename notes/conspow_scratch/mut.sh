#!/bin/bash
# usage: mut.sh <file> <python-replace-old> <python-replace-new> <lines-file>
f=$1; old=$2; new=$3; lines=$4
cp $f /verif/notes/conspow_scratch/backup.lean
python3 - "$f" "$old" "$new" <<'PY'
import sys
p,old,new=sys.argv[1:4]
s=open(p).read()
assert old in s, "pattern not found"
open(p,'w').write(s.replace(old,new,1))
PY
lake build driver 2>&1 | grep -E "error|Built driver" | head -3
./.lake/build/bin/driver < $lines | tail -1
./.lake/build/bin/driver < $lines | grep -E "^(FAIL|DIFF)" | head -2 | cut -c1-260
cp /verif/notes/conspow_scratch/backup.lean $f
