/// kernel features of kind 0 (plain), 1 (height locked), 2 (no recent duplicate) with the given
/// fee shift and fee
fn fee_features(w: &mut World, kind: u8, shift: u64, fee: u64) -> KernelFeatures {
	let ff = FeeFields::new(shift, fee).unwrap();
	match kind % 3 {
		0 => {
			*w.st.fee_kinds.entry("plain".to_string()).or_insert(0) += 1;
			KernelFeatures::Plain { fee: ff }
		}
		1 => {
			*w.st.fee_kinds.entry("height-locked".to_string()).or_insert(0) += 1;
			KernelFeatures::HeightLocked { fee: ff, lock_height: w.rng.range(0, 5) }
		}
		_ => {
			*w.st.fee_kinds.entry("nrd".to_string()).or_insert(0) += 1;
			KernelFeatures::NoRecentDuplicate {
				fee: ff,
				relative_height: NRDRelativeHeight::try_from(w.rng.range(1, 100) as u16).unwrap(),
			}
		}
	}
}

/// A fresh valid transaction (one input, one output) whose kernels carry the given
/// (kind, fee shift, fee); built once per name and kept in the pool.  `spend`: the fee operand whose
/// output is spent (a chained pair); `out_value`: value of the output (so that it can be spent).
fn fee_operand(w: &mut World, name: &'static str, ks: &[(u8, u64, u64)], spend: Option<&'static str>, out_value: Option<u64>) -> usize {
	if let Some((i, _, _)) = w.fee_ops.get(name) {
		return *i;
	}
	let total: u128 = ks.iter().map(|k| k.2 as u128).sum();
	assert!(total < (u64::MAX as u128) - (1u128 << 41), "fee operand {}: total does not leave room for the output", name);
	let total = total as u64;
	let (inv, inkey, parents) = match spend {
		Some(pn) => {
			let (pi, v, k) = w.fee_ops[pn].clone();
			assert!(v > total, "fee operand {}: the spent output does not cover the fee", name);
			(v, k, vec![pi])
		}
		None => {
			let outv = match out_value {
				Some(v) => v,
				None => w.rng.range(1, 5000),
			};
			(total + outv, w.fresh_key(), vec![])
		}
	};
	let outv = inv - total;
	let outkey = w.fresh_key();
	let feats: Vec<KernelFeatures> = ks.iter().map(|(k, s, f)| fee_features(w, *k, *s, *f)).collect();
	let mode = if w.rng.chance(1, 5) { OffMode::Zero } else { OffMode::Random };
	let tx = w.build_tx_k(&[(inv, inkey)], &[(outv, outkey.clone())], &feats, mode, None);
	w.last_excess = None;
	let idx = w.pool.len();
	w.pool.push(PTx { tx, family: 40000 + idx, parents, conflict: false, parts: vec![] });
	w.fee_ops.insert(name, (idx, outv, outkey));
	idx
}

/// One dedicated fee case over named fee operands: the full `run_case` program (every
/// permutation for n <= 4, groupings, block, compact block, hydration) with the fee oracles on every
/// permutation, every operand de-aggregated again (and, for small n, everything but one operand),
/// the remainders and the block validated.
fn fee_case(out: &mut Out, w: &mut World, names: &[&'static str], independent: bool, thorough: bool, case_no: &mut u64) {
	let ops: Vec<usize> = names.iter().map(|n| w.fee_ops[n].0).collect();
	let n = ops.len();
	let mut subs: Vec<Vec<usize>> = (0..n).map(|i| vec![i]).collect();
	if n >= 3 && n <= 4 {
		for i in 0..n {
			subs.push((0..n).filter(|j| *j != i).collect());
		}
	}
	let (total, shift) = true_fees(ops.iter().flat_map(|i| w.pool[*i].tx.kernels().iter()));
	let nk: usize = ops.iter().map(|i| w.pool[*i].tx.kernels().len()).sum();
	w.st.fee_cases += 1;
	*w.st.fee_sizes.entry(n).or_insert(0) += 1;
	*w.st.fee_shift_seen.entry(shift).or_insert(0) += 1;
	w.st.fee_max_total = w.st.fee_max_total.max(total);
	w.st.fee_max_kernels = w.st.fee_max_kernels.max(nk);
	for (name, t, base) in fee_boundaries() {
		if total == t {
			*w.st.fee_at.entry(name.clone()).or_insert(0) += 1;
		}
		if base && total > t {
			*w.st.fee_above.entry(name).or_insert(0) += 1;
		}
	}
	out.raw(&format!("# fee case {:?}: total fee {} ({} kernels), largest shift {}", names, total, nk, shift));
	w.extra_subs = subs;
	w.fee_case = true;
	*case_no += 1;
	run_case(out, w, &ops, independent, thorough, *case_no);
	w.fee_case = false;
	w.extra_subs.clear();
}

/// `n*raw,n*raw,…`
fn rle_str(raws: &[u64]) -> String {
	if raws.is_empty() {
		return "-".to_string();
	}
	let mut parts: Vec<String> = vec![];
	let mut i = 0;
	while i < raws.len() {
		let mut j = i;
		while j < raws.len() && raws[j] == raws[i] {
			j += 1;
		}
		parts.push(format!("{}*{}", j - i, raws[i]));
		i = j;
	}
	parts.join(",")
}

/// The fee folds on bodies with many kernels, cheaply: kernels WITHOUT signatures (the transactions
/// are not valid and are not validated; `aggregate` does not look at signatures), arbitrary raw
/// fee fields (also with the unused upper 20 bits set, and with a zero fee).  Two operands are
/// aggregated by the real `aggregate`; the aggregate's fee quantities go to the model as a fold over
/// the raw values and through the sum oracle.
fn feefold_case(out: &mut Out, w: &mut World, a: &[u64], b: &[u64], case_no: &mut u64) {
	let mk = |raws: &[u64], base: u64| -> Transaction {
		let ks: Vec<TxKernel> = raws
			.iter()
			.enumerate()
			.map(|(i, r)| {
				let ff: FeeFields = ser::deserialize_default(&mut &r.to_be_bytes()[..]).unwrap();
				// distinct kernels: the lock height counts up
				TxKernel::with_features(KernelFeatures::HeightLocked { fee: ff, lock_height: base + i as u64 })
			})
			.collect();
		Transaction::new(Inputs::default(), &[], &ks)
	};
	let (ta, tb) = (mk(a, 0), mk(b, a.len() as u64));
	*case_no += 1;
	w.st.feefold_cases += 1;
	// the fold runs over the kernels in hash order: hand the values over in that order
	match transaction::aggregate(&[ta.clone(), tb.clone()]) {
		Ok(agg) => {
			let all: Vec<u64> = agg.kernels().iter().map(|k| kernel_raw_ff(k).unwrap_or(0)).collect();
			let lhs = format!("tx feefold {} {}", case_no, rle_str(&all));
			let ff = match agg.aggregate_fee_fields() {
				Ok(f) => u64::from(f).to_string(),
				Err(TxError::InvalidFeeFields) => "err:InvalidFeeFields".to_string(),
				Err(e) => format!("err:{}", err_name(&e)),
			};
			out.line(&lhs, &format!("{} {} {}", fees_str(&agg), ff, agg.overage()));
			let (total, _) = true_fees(agg.kernels().iter());
			w.st.feefold_max_total = w.st.feefold_max_total.max(total);
			w.st.feefold_max_kernels = w.st.feefold_max_kernels.max(agg.kernels().len());
			if agg.kernels().len() != a.len() + b.len() {
				oracle_fail(out, &mut w.st, &format!("feefold case {}: the aggregate has {} kernels, the operands {} + {}", case_no, agg.kernels().len(), a.len(), b.len()));
			}
			let mut desc = format!("{} | {}", rle_str(a), rle_str(b));
			desc.truncate(300);
			fee_oracle(out, &mut w.st, &format!("feefold case {} (kernels without signatures, raw fee fields {})", case_no, desc), &agg, &[&ta, &tb]);
		}
		Err(e) => {
			out.raw(&format!("# feefold case {}: aggregate failed", case_no));
			oracle_fail(out, &mut w.st, &format!("feefold case {}: aggregate of two kernel-only transactions fails with {}", case_no, err_name(&e)));
		}
	}
}

/// The dedicated fee cases.  `full = false`: the core set (run with every default run);
/// `full = true`: the whole program (run `tx fee`).
fn fee_phase(out: &mut Out, w: &mut World, full: bool, thorough: bool, case_no: &mut u64) {
	const M: u64 = FEE_MASK;
	let p39: u64 = 1 << 39;
	// ---- single-kernel operands around the 40-bit field
	fee_operand(w, "e5", &[(0, 0, p39 + 5)], None, None);
	fee_operand(w, "e7", &[(1, 3, p39 + 7)], None, None);
	fee_operand(w, "p", &[(2, 1, p39)], None, Some(p39 + 1000));
	fee_operand(w, "q1", &[(0, 0, p39 - 1)], None, None);
	fee_operand(w, "q2", &[(1, 0, p39)], None, None);
	fee_operand(w, "q3", &[(0, 15, p39 + 1)], None, None);
	fee_operand(w, "m1", &[(0, 2, M)], None, None);
	fee_operand(w, "m2", &[(1, 0, M)], None, None);
	fee_operand(w, "z2", &[(2, 4, 2)], None, None);
	fee_operand(w, "b32", &[(0, 5, (1 << 32) - (1 << 20))], None, None);
	fee_operand(w, "a1", &[(0, 7, 1 << 20)], None, None);
	let core: Vec<Vec<&'static str>> = vec![
		vec!["e5", "e7"],       // 2^40 + 12 (the two 2^39-range fees)
		vec!["p", "q1"],        // 2^40 - 1
		vec!["p", "q2"],        // 2^40
		vec!["p", "q3"],        // 2^40 + 1
		vec!["m1", "m2", "z2"], // 2^41
		vec!["b32", "a1"],      // 2^32
	];
	for c in &core {
		fee_case(out, w, c, true, thorough, case_no);
	}
	if !full {
		return;
	}
	// ---- the rest of the single-kernel pool
	fee_operand(w, "m3", &[(2, 9, M)], None, None);
	fee_operand(w, "z1", &[(0, 0, 1)], None, None);
	fee_operand(w, "z3", &[(1, 0, 3)], None, None);
	fee_operand(w, "a0", &[(1, 0, (1 << 20) - 1)], None, None);
	fee_operand(w, "a2", &[(2, 0, (1 << 20) + 1)], None, None);
	fee_operand(w, "c1", &[(0, 6, p39 + 3)], Some("p"), None);
	let rnames: [&'static str; 8] = ["r0", "r1", "r2", "r3", "r4", "r5", "r6", "r7"];
	let rshifts = [8u64, 10, 11, 12, 13, 14, 6, 0];
	for (i, rn) in rnames.iter().enumerate() {
		// log-uniform magnitude
		let bits = w.rng.range(1, 40);
		let fee = (w.rng.next() & ((1u64 << bits) - 1)).max(1).min(M);
		fee_operand(w, rn, &[(i as u8, rshifts[i], fee)], None, None);
	}
	// ---- multi-kernel operands
	let sh16: Vec<(u8, u64, u64)> = (0..16).map(|i| (i as u8, i as u64, 1u64 << 36)).collect();
	fee_operand(w, "sh16", &sh16, None, None);
	fee_operand(w, "two", &[(0, 0, M), (1, 1, M)], None, None);
	let maxk = |n: usize, extra: Option<u64>| -> Vec<(u8, u64, u64)> {
		let mut v: Vec<(u8, u64, u64)> = (0..n).map(|i| ((i % 3) as u8, (i % 16) as u64, M)).collect();
		if let Some(e) = extra {
			v.push((0, 0, e));
		}
		v
	};
	// two operands with n max-fee kernels each and one small kernel: total 2^(41 + log2 n) - 2
	fee_operand(w, "k8a", &maxk(8, None), None, None);
	fee_operand(w, "k8b", &maxk(8, Some(14)), None, None);
	fee_operand(w, "k128a", &maxk(128, None), None, None);
	fee_operand(w, "k128b", &maxk(128, Some(254)), None, None);
	fee_operand(w, "k2048a", &maxk(2048, None), None, None);
	fee_operand(w, "k2048b", &maxk(2048, Some(4094)), None, None);
	let mut cases: Vec<(Vec<&'static str>, bool)> = vec![
		(vec!["m1", "m2"], true),             // 2^41 - 2
		(vec!["m2", "m3"], true),
		(vec!["b32", "a0"], true),            // 2^32 - 1
		(vec!["b32", "a2"], true),            // 2^32 + 1
		(vec!["two", "z2"], true),            // 2^41
		(vec!["sh16", "z1"], true),           // 2^40 + 1, all sixteen shifts
		(vec!["p", "c1"], false),             // chained: c1 spends the output of p
		(vec!["m1", "m2", "z1"], true),       // 2^41 - 1
		(vec!["m1", "m2", "z3"], true),       // 2^41 + 1
		(vec!["m1", "m2", "m3"], true),       // 3 * 2^40 - 3
		(vec!["p", "q2", "a1"], true),
		(vec!["c1", "q1", "p"], false),
		(vec!["m1", "m2", "m3", "z3"], true), // 3 * 2^40
		(vec!["k8a", "k8b", "z1"], true),     // 2^44 - 1
		(vec!["k8a", "k8b", "z2"], true),     // 2^44
		(vec!["k8a", "k8b", "z3"], true),     // 2^44 + 1
		(vec!["k128a", "k128b"], true),       // 2^48 - 2
		(vec!["k128a", "k128b", "z1"], true), // 2^48 - 1
		(vec!["k128a", "k128b", "z2"], true), // 2^48
		(vec!["k128a", "k128b", "z3"], true), // 2^48 + 1
		(vec!["m1", "m2", "m3", "p", "q1", "q2", "q3", "e5", "e7", "b32"], true),
		(vec!["z1", "z2", "z3", "a0", "a1", "a2", "r0", "r1", "r2", "r3"], true),
		(vec!["k128a", "m1", "z1", "r4", "r5", "r6", "r7", "sh16", "two", "e5"], true),
		(vec!["k2048a", "k2048b", "z1"], true), // 2^52 - 1
		(vec!["k2048a", "k2048b", "z2"], true), // 2^52
		(vec!["k2048a", "k2048b", "z3"], true), // 2^52 + 1
	];
	if thorough {
		fee_operand(w, "k512a", &maxk(512, None), None, None);
		fee_operand(w, "k512b", &maxk(512, Some(1022)), None, None);
		fee_operand(w, "k8192a", &maxk(8192, None), None, None);
		fee_operand(w, "k8192b", &maxk(8192, Some(16382)), None, None);
		for z in ["z1", "z2", "z3"] {
			cases.push((vec!["k512a", "k512b", z], true)); // 2^50 - 1, 2^50, 2^50 + 1
		}
		for z in ["z1", "z2", "z3"] {
			cases.push((vec!["k8192a", "k8192b", z], true)); // 2^54 - 1, 2^54, 2^54 + 1
		}
		cases.push((vec!["k8192a", "k8192b", "k2048a", "k2048b", "k512a", "k512b", "k128a", "k128b", "m1", "z1"], true));
	}
	for (c, indep) in &cases {
		fee_case(out, w, c, *indep, thorough, case_no);
	}
	// ---- random sets of 2, 3 and 10 operands out of the light pool, random order
	let light: Vec<&'static str> = vec![
		"e5", "e7", "p", "q1", "q2", "q3", "m1", "m2", "m3", "z1", "z2", "z3", "b32", "a0", "a1", "a2", "r0", "r1", "r2",
		"r3", "r4", "r5", "r6", "r7", "sh16", "two", "k8a", "k8b", "k128a", "k128b",
	];
	let nrand = if thorough { 60 } else { 10 };
	for i in 0..nrand {
		let n = [2usize, 3, 10][i % 3];
		let mut names = light.clone();
		shuffle(&mut w.rng, &mut names);
		names.truncate(n);
		fee_case(out, w, &names, true, thorough, case_no);
	}
	// ---- the folds alone, on kernels without signatures
	let big = if thorough { 1usize << 18 } else { 1usize << 14 };
	let mut folds: Vec<(Vec<u64>, Vec<u64>)> = vec![
		(vec![M; big], vec![M, 2]),                    // just over 2^54 (2^58 thorough)
		(vec![M; big / 2], vec![M; big / 2]),          // just under
		(vec![M], vec![1]),                            // 2^40
		(vec![M | (15 << 40)], vec![M | (7 << 40), 1]),
		(vec![0, 0, 15 << 40], vec![3 << 40]),         // zero fees, non-zero shifts
		(vec![], vec![5]),
		(vec![], vec![]),
	];
	for _ in 0..(if thorough { 12 } else { 4 }) {
		// arbitrary u64 values (all 64 bits random), and max-fee fields with random upper bits
		let na = w.rng.range(1, 600) as usize;
		let nb = w.rng.range(1, 600) as usize;
		let a: Vec<u64> = (0..na).map(|_| w.rng.next()).collect();
		let mut b: Vec<u64> = vec![];
		for i in 0..nb {
			let r = w.rng.next();
			b.push(if i % 2 == 0 { M | (r << 44) } else { r & ((1 << 44) - 1) });
		}
		folds.push((a, b));
	}
	for (a, b) in &folds {
		feefold_case(out, w, a, b, case_no);
	}
}
