p='src/bin/tx.rs'
s=open(p).read()
def rep(old,new,cnt=1):
    global s
    assert s.count(old)==cnt, (s.count(old), old)
    s=s.replace(old,new)

a=s.index("/// the boundaries a total fee is classified against")
b=s.index("impl<'a> World<'a> {\n\tfn fresh_key")
s=s[:a]+'''/// the boundaries a total fee is classified against: (name, value, is a base boundary)
fn fee_boundaries() -> Vec<(String, u128, bool)> {
	let mut v = vec![];
	for p in [32u32, 40, 41, 44, 48, 50, 52, 54, 56, 58, 60, 63] {
		let t = 1u128 << p;
		v.push((format!("2^{}-1", p), t - 1, false));
		v.push((format!("2^{}", p), t, true));
		v.push((format!("2^{}+1", p), t + 1, false));
	}
	v.push(("2^64-1-REWARD".to_string(), u64::MAX as u128 - grin_core::consensus::REWARD as u128, true));
	v.push(("2^64-1".to_string(), u64::MAX as u128, true));
	v
}

'''+s[b:]

rep("""fn to_v2(tx: &Transaction) -> Transaction {""", open('/verif/notes/c12fee_scratch/feephase.rs').read() + """
fn to_v2(tx: &Transaction) -> Transaction {""")

rep("""	block, committed, Block, BlockHeader, CommitWrapper, CompactBlock, Input, Inputs, KernelFeatures,""","""	block, committed, Block, BlockHeader, CommitWrapper, CompactBlock, FeeFields, Input, Inputs, KernelFeatures,""")
open(p,'w').write(s)
