#!/usr/bin/env python3
"""mutation sanity for tools/gen_pipeshape.py: mutate scratch copies of the glue sources (drop a `?`, delete a call,
swap two checks, wrap a check in a guard, add an early return, weaken a comparison, change an error variant),
regenerate Gen/PipeShape*.lean into a scratch COPY of the Lean tree, rebuild Props/XlateShape* there, report the
obligations that stop checking.  Benign edits (comments, reformatting, renamed locals / parameters) must break only
nothing in the semantic modules (the exact pins ignore renames too, because locals are alpha-normalised).
The real tree is never touched; scratch directories (/root/xlate_scratch or $VERIF_WORK) are removed at the end."""
import os, re, shutil, subprocess, sys
sys.path.insert(0, "/verif/tools")
import gen_pipeshape as gp
ROOT = os.environ.get("VERIF_WORK", "/root/xlate_scratch")
SCR = os.path.join(ROOT, "shape_mut_repo")
LEAN = os.path.join(ROOT, "shape_mut_lean")
GEN = os.path.join(LEAN, "GrinVerif", "Gen")
FILES = [gp.PIPE, gp.BLOCK, gp.TXS, gp.UTXO, gp.TXH, gp.TPOOL, gp.POOL, gp.CHAINRS]
MODS = ["GrinVerif.Props.XlateShape" + a + s for a in ("Chain", "Core", "Pool") for s in ("", "Pins")] + \
       ["GrinVerif.Props.XlateShapeModel", "GrinVerif.Props.XlateShapeModel2", "GrinVerif.Props.XlateShapeChainApi",
        "GrinVerif.Props.XlateShapeChainApiPins", "GrinVerif.Props.XlateShapeTxhs", "GrinVerif.Props.XlateShapeTxhsPins",
        "GrinVerif.Props.XlateShapeTxhsFacts"]
P, B, T, U, X, TP, PL = gp.PIPE, gp.BLOCK, gp.TXS, gp.UTXO, gp.TXH, gp.TPOOL, gp.POOL
MUTS = [
 ("S01 process_block: `?` dropped on validate_block", P, "\tvalidate_block(b, ctx)?;\n", "\tlet _ = validate_block(b, ctx);\n"),
 ("S02 process_block: verify_coinbase_maturity call deleted", P, "\t\tverify_coinbase_maturity(b, ext, batch)?;\n", ""),
 ("S03 validate_header: height and version checks swapped", P,
  "\tif header.height != prev.height + 1 {\n\t\treturn Err(Error::InvalidBlockHeight);\n\t}\n\n\t// This header must have a valid header version for its height.\n\tif !consensus::valid_header_version(header.height, header.version) {\n\t\treturn Err(Error::InvalidBlockVersion(header.version));\n\t}\n",
  "\tif !consensus::valid_header_version(header.height, header.version) {\n\t\treturn Err(Error::InvalidBlockVersion(header.version));\n\t}\n\tif header.height != prev.height + 1 {\n\t\treturn Err(Error::InvalidBlockHeight);\n\t}\n"),
 ("S04 process_block: validate_pow_only wrapped in `if false`", P, "\tvalidate_pow_only(&b.header, ctx)?;\n\n\t// Get previous header from the db.", "\tif false {\n\t\tvalidate_pow_only(&b.header, ctx)?;\n\t}\n\n\t// Get previous header from the db."),
 ("S05 validate_header: early `return Ok(())` added before the timestamp check", P, "\tif header.timestamp <= prev.timestamp {", "\tif header.height < 10 {\n\t\treturn Ok(());\n\t}\n\tif header.timestamp <= prev.timestamp {"),
 ("S06 validate_header: `<=` -> `<` in the timestamp check", P, "\tif header.timestamp <= prev.timestamp {", "\tif header.timestamp < prev.timestamp {"),
 ("S07 validate_header: error variant InvalidBlockTime -> InvalidBlockHeight", P, "\t\treturn Err(Error::InvalidBlockTime);", "\t\treturn Err(Error::InvalidBlockHeight);"),
 ("S08 process_block_header: validate_header moved under a new guard", P, "\tvalidate_header(header, ctx)?;\n\n\tlet ctx_specific_validation", "\tif !ctx.opts.contains(Options::SKIP_POW) {\n\t\tvalidate_header(header, ctx)?;\n\t}\n\n\tlet ctx_specific_validation"),
 ("S09 Block::validate: verify_coinbase call deleted", B, "\t\tself.verify_coinbase()?;\n", ""),
 ("S10 TransactionBody::validate_read: verify_sorted / verify_cut_through swapped", T, "\t\tself.verify_sorted()?;\n\t\tself.verify_cut_through()?;\n", "\t\tself.verify_cut_through()?;\n\t\tself.verify_sorted()?;\n"),
 ("S11 UTXOView::validate_block: `?` -> `.ok();` on validate_output", U, "\t\tfor output in block.outputs() {\n\t\t\tself.validate_output(output, batch)?;", "\t\tfor output in block.outputs() {\n\t\t\tself.validate_output(output, batch).ok();"),
 ("S12 process_block: final head update applied to the wrong branch (condition negated)", P, "\tif has_more_work(&b.header, &head) {\n\t\tlet head = Tip::from_header(&b.header);", "\tif !has_more_work(&b.header, &head) {\n\t\tlet head = Tip::from_header(&b.header);"),
 ("S13 TransactionPool::add_to_pool: tx.validate moved after verify_tx_lock_height", TP,
  "\t\ttx.validate(Weighting::AsTransaction)\n\t\t\t.map_err(PoolError::InvalidTx)?;\n\n\t\t// Check the tx lock_time is valid based on current chain state.\n\t\tself.blockchain.verify_tx_lock_height(tx)?;\n",
  "\t\tself.blockchain.verify_tx_lock_height(tx)?;\n\t\ttx.validate(Weighting::AsTransaction)\n\t\t\t.map_err(PoolError::InvalidTx)?;\n"),
 ("S14 TransactionPool::add_to_pool: coinbase maturity check result discarded", TP, "\t\t\t.verify_coinbase_maturity(&coinbase_inputs.as_slice().into())?;", "\t\t\t.verify_coinbase_maturity(&coinbase_inputs.as_slice().into())\n\t\t\t.ok();"),
 ("S15 Transaction::validate_read: verify_features dropped", T, "\t\tself.body.validate_read(Weighting::AsTransaction)?;\n\t\tself.body.verify_features()?;\n", "\t\tself.body.validate_read(Weighting::AsTransaction)?;\n"),
 ("S16 validate_header: SKIP_POW guard negation removed (pow checks on the wrong branch)", P, "\tif !ctx.opts.contains(Options::SKIP_POW) {\n\t\t// Quick check of this header in isolation.", "\tif ctx.opts.contains(Options::SKIP_POW) {\n\t\t// Quick check of this header in isolation."),
 ("S17 process_block_header: `check_known(..).is_err()` early return condition negated", P, "\tif check_known(header, &head, ctx).is_err() {", "\tif check_known(header, &head, ctx).is_ok() {"),
 ("S18 validate_header: another argument (prev instead of header) in the weight bound", P, "let weight = TransactionBody::weight_by_iok(0, num_outputs, num_kernels);", "let weight = TransactionBody::weight_by_iok(0, num_kernels, num_outputs);"),
 ("S19 validate_header: num_outputs computed from the kernel counter of prev (a `let` feeding the InvalidMMRSize / TooHeavy guards)", P, ".output_mmr_count()\n\t\t.saturating_sub(prev.output_mmr_count());", ".output_mmr_count()\n\t\t.saturating_sub(prev.kernel_mmr_count());"),
 ("S20 validate_header: target difficulty computed with the operands swapped (a `let` under the SKIP_POW guard)", P, "let target_difficulty = header.total_difficulty() - prev.total_difficulty();", "let target_difficulty = prev.total_difficulty() - header.total_difficulty();"),
 ("S21 txhashset::extending: child batch commit moved in front of the rollback test", X, "\t\t\tif rollback {\n\t\t\t\ttrace!(\"Rollbacking txhashset extension. sizes {:?}\", sizes);", "\t\t\tchild_batch.commit()?;\n\t\t\tif rollback {\n\t\t\t\ttrace!(\"Rollbacking txhashset extension. sizes {:?}\", sizes);"),
 ("S22 txhashset::extending: kernel tree not discarded on the Err path", X, "\t\t\tdebug!(\"Error returned, discarding txhashset extension: {}\", e);\n\t\t\ttrees.output_pmmr_h.backend.discard();\n\t\t\ttrees.rproof_pmmr_h.backend.discard();\n\t\t\ttrees.kernel_pmmr_h.backend.discard();", "\t\t\tdebug!(\"Error returned, discarding txhashset extension: {}\", e);\n\t\t\ttrees.output_pmmr_h.backend.discard();\n\t\t\ttrees.rproof_pmmr_h.backend.discard();"),
 ("S23 header_extending: rollback flag ignored (`if rollback` -> `if false`)", X, "\t\t\tif rollback {\n\t\t\t\thandle.backend.discard();", "\t\t\tif false {\n\t\t\t\thandle.backend.discard();"),
 ("S24 Chain::check_orphan: early Ok condition negated", gp.CHAINRS, "if is_next || self.block_exists(block.header.prev_hash)? {", "if !is_next || self.block_exists(block.header.prev_hash)? {"),
 # benign
 ("SB1 benign: comments and reformatting in validate_header", P, "\tif header.height != prev.height + 1 {\n\t\treturn Err(Error::InvalidBlockHeight);\n\t}", "\tif header.height != prev.height + 1\n\t{ // height\n\t\treturn Err( Error::InvalidBlockHeight );\n\n\t}"),
 ("SB2 benign: local `prev` renamed in validate_header", P, None, "validate_header"),
 ("SB3 benign: parameter `b` renamed in process_block", P, None, "process_block"),
]

def prepare_lean():
    shutil.rmtree(LEAN, ignore_errors=True)
    os.makedirs(ROOT, exist_ok=True)
    subprocess.run(["cp", "-a", "/verif/lean", LEAN], capture_output=True)
    assert os.path.isdir(os.path.join(LEAN, "GrinVerif", "Props"))

def fresh():
    shutil.rmtree(SCR, ignore_errors=True)
    for f in FILES:
        os.makedirs(os.path.dirname(os.path.join(SCR, f)), exist_ok=True)
        shutil.copy(os.path.join("/repo", f), os.path.join(SCR, f))

def write(files):
    for n, c in files.items():
        p = os.path.join(GEN, n)
        if not (os.path.exists(p) and open(p).read() == c):
            open(p, "w").write(c)

def build():
    mods = [m for m in MODS if os.path.exists(os.path.join(LEAN, m.replace(".", "/") + ".lean"))]
    r = subprocess.run(["lake", "build"] + mods, cwd=LEAN, capture_output=True, text=True)
    out = r.stdout + r.stderr
    return r.returncode, re.findall(r"error: (\S+?\.lean):(\d+):(\d+): (.*)", out)

def thm_at(path, line):
    best = "?"
    for i, l in enumerate(open(path).read().split("\n"), 1):
        m = re.match(r"\s*(theorem|example)\s*(\S*)", l)
        if m and i <= line:
            best = m.group(2)
    return best

def rename_in(s, start, end, pairs):
    a = s.index(start); b = s.index(end, a)
    body = s[a:b]
    for x, y in pairs:
        body = re.sub(r"\b%s\b" % x, y, body)
    return s[:a] + body + s[b:]

only = sys.argv[1:]
prepare_lean()
try:
    for name, f, old, new in MUTS:
        if only and not any(name.startswith(o) for o in only): continue
        fresh()
        p = os.path.join(SCR, f)
        s = open(p).read()
        if old is None and new == "validate_header":
            s = rename_in(s, "fn validate_header(header: &BlockHeader", "fn validate_block(", [("prev", "previous")])
        elif old is None and new == "process_block":
            s = rename_in(s, "pub fn process_block(", "/// Process a batch of sequential block headers.", [("b", "blk")])
        else:
            assert s.count(old) == 1, (name, s.count(old))
            s = s.replace(old, new)
        open(p, "w").write(s)
        files = gp.generate(SCR)
        perr = sum(c.count("parseError := some") for c in files.values())
        write(files)
        rc, errs = build()
        seen = []
        for ef, ln, col, msg in errs:
            path = ef if os.path.isabs(ef) else os.path.join(LEAN, ef)
            b = f"{os.path.basename(ef).replace('.lean', '')}.{thm_at(path, int(ln))}"
            if b not in seen: seen.append(b)
        print(f"{name}\n    build rc={rc}; parse errors={perr}; broken: {', '.join(seen) if seen else '-'}")
        sys.stdout.flush()
finally:
    write(gp.generate("/repo"))
    rc, errs = build()
    print("unmutated source again; build rc =", rc)
    shutil.rmtree(SCR, ignore_errors=True)
    shutil.rmtree(LEAN, ignore_errors=True)
