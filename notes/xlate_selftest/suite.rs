// Synthetic functions exercising every construct of the rs2lean subset.  Compiled with
// `rustc -O -C overflow-checks=off` (the release semantics the translator implements) and compared
// with `#eval` of the translated Lean on the same inputs by run.py.
use std::cmp::{max, min};

const K1: u64 = 0xffff_0000;
const K2: u32 = 1 << 5;
const K3: u8 = 200;

pub struct Nt(pub u64);
pub struct Pt {
	pub a: u8,
	pub b: u64,
}

pub fn t_arith(a: u64, b: u64) -> u64 {
	(a + b) * 3 - (a ^ b) + (a & K1) - (b | 7)
}
pub fn t_shift(a: u64, s: u64) -> u64 {
	(a << s) ^ (a >> (s + 1)) ^ (1 << s)
}
pub fn t_shift32(a: u32, s: u8) -> u32 {
	(a << s) + (a >> s) + K2
}
pub fn t_u8(a: u8, b: u8) -> u8 {
	let c = a + b;
	let d = c * 3 - b;
	!d ^ (K3 >> 1)
}
pub fn t_cast(a: u64) -> u64 {
	let x = a as u8;
	let y = a as u16;
	let z = a as u32;
	(x as u64) + ((y as u64) << 8) + (z as u64 * 3) + (a as usize as u64)
}
pub fn t_castbool(a: u64, b: u64) -> u64 {
	(a < b) as u64 + ((a == b) as u64) * 2 + ((a != b && b > 3) as u64) * 4
}
pub fn t_div(a: u64, b: u64) -> u64 {
	a / b + a % (b + 1)
}
pub fn t_div_guard(a: u64, b: u64) -> u64 {
	if b != 0 && a / b > 2 {
		a % b
	} else if b == 0 || a / b == 1 {
		7
	} else {
		a / b
	}
}
pub fn t_sat(a: u64, b: u64) -> u64 {
	a.saturating_sub(b).saturating_add(b.saturating_mul(3)).wrapping_add(a.wrapping_mul(b)).wrapping_sub(5)
}
pub fn t_bits(a: u64) -> u64 {
	(a.leading_zeros() + a.trailing_zeros() * 100 + a.count_ones() * 10000 + a.count_zeros() * 1000000) as u64
}
pub fn t_bits32(a: u32) -> u32 {
	a.leading_zeros() + a.trailing_zeros() * 100 + a.count_ones() * 10000
}
pub fn t_minmax(a: u64, b: u64) -> u64 {
	max(a, 10).min(b) + min(a, b) + std::cmp::max(a, b) / 2 + a.max(b) % 7
}
pub fn t_checked(a: u64, b: u64) -> Option<u64> {
	a.checked_sub(b)
}
pub fn t_match_opt(a: u64, b: u64) -> u64 {
	match t_checked(a, b) {
		Some(d) => d + 1,
		None => 0,
	}
}
pub fn t_tuple(a: u64, b: u64) -> (u64, u64) {
	let (x, y) = (a + 1, b - 1);
	let t = (y, x);
	(t.0 * 2, t.1 * 3)
}
pub fn t_early(mut a: u64, b: u64) -> u64 {
	if a == 0 {
		return b;
	}
	a += 1;
	if b > a {
		a -= 2;
		if a == 5 {
			return 55;
		}
	} else if b == a {
		return 1;
	} else {
		a *= 2;
	}
	a + b
}
pub fn t_loop(mut n: u64) -> u64 {
	let mut acc = 0;
	let mut i = 0u64;
	while n != 0 {
		if n & 1 == 1 {
			acc += i;
		}
		i += 1;
		n >>= 1;
	}
	acc * 2 + i
}
pub fn t_loop_break(n: u64, lim: u64) -> (u64, u64) {
	let mut x = n;
	let mut steps = 0;
	while x != 1 {
		if steps >= lim || x == 0 {
			break;
		}
		if x % 2 == 0 {
			x /= 2;
		} else {
			x = x / 2 + 1;
		}
		steps += 1;
	}
	(x, steps)
}
pub fn t_vec(n: u64) -> Vec<u64> {
	let mut v = vec![];
	let mut k = n;
	while k > 0 {
		v.push(k & 3);
		k >>= 2;
	}
	v
}
pub fn t_shadow(a: u64) -> u64 {
	let x = a + 1;
	let x = x * 2;
	let y = {
		let x = x + 3;
		x * x
	};
	x + y
}
pub fn t_bool(a: u64, b: u64) -> bool {
	let p = a > b;
	let q = !(a == b) & (b != 0);
	(p || q) && !(p && q) | (a == 7)
}
pub fn t_compound(mut a: u64, b: u64) -> u64 {
	a |= b;
	a &= !b | 0xff;
	a ^= b >> 3;
	a <<= 3;
	a >>= 1;
	a %= 1000003;
	a
}
impl Nt {
	pub fn low(&self) -> u64 {
		self.0 & 0xff
	}
	pub fn opt(&self) -> Option<Self> {
		if self.low() == 0 {
			None
		} else {
			Some(*self)
		}
	}
}
impl Clone for Nt { fn clone(&self) -> Nt { Nt(self.0) } }
impl Copy for Nt {}
impl Pt {
	pub fn cap(&self) -> u64 {
		1 << self.a
	}
	pub fn off(&self, m: u64) -> u64 {
		self.b * self.cap() + (self.a as u64) + m
	}
}

// ---------------------------------------------------------------------------------------------
// phase 2 constructs: for / loop / continue, iterator chains, indexing and slices with panics,
// structs, `&mut self`, macro_rules, u128, `?`, `if let`, `match` statements, generics over IntoIterator
// ---------------------------------------------------------------------------------------------
macro_rules! rotl {
	($num:expr, $shift:expr) => {
		$num = ($num << $shift) | ($num >> (64 - $shift));
	};
}
#[derive(Clone, Debug, PartialEq)]
pub struct Rec {
	pub ts: u64,
	pub d: Dn,
	pub sc: u32,
	pub sec: bool,
}
#[derive(Clone, Copy, Debug, PartialEq, PartialOrd, Eq, Ord)]
pub struct Dn {
	num: u64,
}
impl Dn {
	pub fn from_num(num: u64) -> Dn {
		Dn { num: std::cmp::max(num, 1) }
	}
	pub fn to_num(self) -> u64 {
		self.num
	}
}
impl Rec {
	pub fn mk(ts: u64, d: Dn) -> Rec {
		Rec { ts, d, sc: 7, sec: ts % 3 == 0 }
	}
}
pub struct Sip(u64, u64, u64, u64);
impl Sip {
	pub fn new(v: &[u64; 4]) -> Sip {
		Sip(v[0], v[1], v[2], v[3])
	}
	fn round(&mut self, rot_e: u8) {
		self.0 = self.0.wrapping_add(self.1);
		rotl!(self.1, 13);
		self.1 ^= self.0;
		rotl!(self.3, rot_e);
		self.2 = self.2.wrapping_add(self.3);
		self.3 ^= self.2;
	}
	pub fn hash(&mut self, nonce: u64, rot_e: u8) {
		self.3 ^= nonce;
		for _ in 0..3 {
			self.round(rot_e);
		}
		self.2 ^= 0xff;
	}
	pub fn digest(&self) -> u64 {
		(self.0 ^ self.1) ^ (self.2 ^ self.3)
	}
	pub fn bump(&mut self, k: u64) -> u64 {
		self.0 += k;
		if self.0 > 100 {
			return self.1;
		}
		self.1 = self.1 * 3;
		self.0 + self.1
	}
}
pub fn h_recs(a: u64, b: u64, c: u64) -> Vec<Rec> {
	let mut v = vec![];
	let n = a % 7;
	for i in 0..n {
		v.push(Rec::mk(a.wrapping_mul(i + 1) ^ b, Dn::from_num(c >> i)));
	}
	v
}
pub fn h_list(a: u64, b: u64) -> Vec<u64> {
	let mut v = vec![a, b, a ^ b, a.wrapping_add(b), a >> 3];
	let n = b % 5;
	for i in 0..n {
		v.push(a.wrapping_mul(i + 3));
	}
	v
}
pub fn t_for_range(a: u64, b: u64) -> u64 {
	let mut acc = 0u64;
	for i in (a % 20)..(b % 30) {
		if i % 3 == 0 {
			continue;
		}
		if i > 25 {
			break;
		}
		acc = acc * 31 + i;
	}
	acc
}
pub fn t_for_list(a: u64, b: u64) -> (u64, u64) {
	let v = h_list(a, b);
	let mut s = 0u64;
	let mut m = 0u64;
	for x in v.iter() {
		s += x;
		if *x > m {
			m = *x;
		}
	}
	for &y in &v {
		s ^= y >> 1;
	}
	(s, m)
}
pub fn t_loop2(mut a: u64) -> (u64, u64) {
	let mut n = 0u64;
	loop {
		if a == 0 {
			break;
		}
		a >>= 1;
		if a & 1 == 1 {
			continue;
		}
		n += 1;
	}
	(a, n)
}
pub fn t_iter_sum(a: u64, b: u64, c: u64) -> u64 {
	let v = h_recs(a, b, c);
	let s: u64 = v.iter().skip(1).map(|r| r.d.to_num()).sum();
	let k = 100 * v.iter().filter(|r| r.sec).count() as u64;
	let t: u64 = v.iter().map(|r| r.sc as u64).sum();
	s ^ k ^ (t << 32)
}
pub fn t_iter_misc(a: u64, b: u64) -> (u64, bool, bool, u64) {
	let v = h_list(a, b);
	let f = v.iter().fold(7u64, |acc, x| acc.wrapping_mul(31) ^ x);
	let any = v.iter().any(|&x| x == 0);
	let all = v.iter().all(|x| *x >= b);
	let z: u64 = v.iter().zip(v.iter().rev()).map(|(p, q)| p & q).sum();
	(f, any, all, z + v.iter().take(2).rev().fold(0, |s, x| s * 2 + x))
}
pub fn t_scan(a: u64) -> Vec<u64> {
	let v = h_list(a, 3);
	v.iter()
		.scan(0, |acc, &x| {
			*acc += &x;
			Some(*acc)
		})
		.map(|x| x - 1)
		.collect()
}
pub fn t_index(a: u64, b: u64) -> u64 {
	let v = h_list(a, b);
	let i = (a % 12) as usize;
	v[i] + v[0]
}
pub fn t_slice(a: u64, b: u64) -> u64 {
	let v = h_list(a, b);
	let lo = (a % 9) as usize;
	let hi = (b % 11) as usize;
	let w = &v[lo..hi];
	let t = &v[1..];
	w.len() as u64 * 1000 + t.iter().sum::<u64>() % 1000 + v[..2].len() as u64
}
pub fn t_lastfirst(a: u64, b: u64) -> u64 {
	let v = h_recs(a, b, 77);
	let l = v.last().unwrap().ts;
	let f = if v.is_empty() { 0 } else { v.first().unwrap().d.to_num() };
	l ^ f
}
pub fn t_set(a: u64, b: u64) -> u64 {
	let mut v = vec![0u64; (a % 6) as usize];
	for i in 0..(b % 8) {
		v[i as usize] = a ^ i;
	}
	let mut x = 0;
	for i in 0..v.len() {
		x ^= v[i] << i;
	}
	x
}
pub fn t_sip(a: u64, b: u64, r: u64) -> u64 {
	let mut s = Sip::new(&[a, b, a ^ 0x1234, !b]);
	s.hash(a.wrapping_add(b), r as u8);
	let d = s.digest();
	let e = s.bump(d % 90);
	d ^ e ^ s.digest()
}
pub fn t_u128(scale: u64, h: u64) -> u64 {
	let diff = ((scale as u128) << 64) / (std::cmp::max(1, h) as u128);
	std::cmp::min(diff, <u64>::max_value() as u128) as u64
}
pub fn t_u128b(a: u64, b: u64) -> u64 {
	let p = (a as u128) * (b as u128) + (a as u128);
	let q = p >> 60;
	(q as u64) ^ ((p % 1_000_000_007u128) as u64) ^ ((p.wrapping_mul(p) >> 100) as u64)
}
pub fn t_try(a: u64, b: u64) -> Option<u64> {
	let x = a.checked_sub(b)?;
	let y = x.checked_add(a)?;
	if y % 2 == 0 {
		return None;
	}
	Some(y / 2)
}
pub fn t_iflet(a: u64, b: u64) -> u64 {
	let mut r = 5;
	if let Some(d) = a.checked_sub(b) {
		r += d;
	} else {
		r = b - a;
	}
	if let Some(e) = b.checked_add(a) {
		r ^= e;
	}
	r
}
pub fn t_matchstmt(a: u64, b: u64) -> u64 {
	let mut r = 1;
	let mut s = 2;
	match a.checked_sub(b) {
		Some(d) => {
			r = d;
			s += 1;
		}
		None => s = b,
	}
	r * 3 + s
}
pub fn h_gen<T>(k: u64, cursor: T) -> u64
where
	T: IntoIterator<Item = Rec>,
{
	let mut it = cursor.into_iter();
	let first = it.next().unwrap();
	let second = it.next().unwrap();
	let rest: Vec<Rec> = it.take(k as usize).collect();
	first.ts - second.ts + rest.len() as u64
}
pub fn t_gen(a: u64, b: u64, c: u64) -> u64 {
	h_gen(c % 4, h_recs(a, b, c))
}
pub fn t_rev(a: u64, b: u64) -> Vec<u64> {
	let mut v = h_list(a, b);
	v.reverse();
	if v.len() > 6 {
		v.push(1);
	}
	v
}
pub fn t_structlit(a: u64, b: u64) -> (u64, u64, u32, bool) {
	let mut r = Rec::mk(a, Dn::from_num(b));
	r.ts += 5;
	r.sc = (a >> 7) as u32;
	let q = Rec { ts: r.ts ^ 1, d: Dn { num: b }, sc: r.sc + 1, sec: !r.sec };
	(q.ts, std::cmp::max(q.d, r.d).to_num(), q.sc, q.sec)
}
pub fn h_iter(a: u64, b: u64) -> Box<dyn Iterator<Item = u64>> {
	let lo = match a.checked_sub(b) {
		Some(l) => l % 50,
		None => return Box::new(std::iter::empty::<u64>()),
	};
	let hi = lo + (b % 9);
	Box::new((lo..=hi).map(|n| n * n + 1))
}
pub fn t_incl(a: u64, b: u64) -> u64 {
	let mut s = 0;
	for x in h_iter(a, b) {
		s = s * 7 + x;
	}
	let t: u64 = ((a % 5)..(b % 9)).map(|k| k << 2).sum();
	s ^ t ^ (u64::MAX - 2..=u64::MAX).into_iter().count() as u64
}
pub fn h_bytes(bits: &[u8], from: usize) -> u64 {
	let mut buf: [u8; 8] = [0; 8];
	buf.copy_from_slice(&bits[from..from + 8]);
	u64::from_le_bytes(buf) >> 3
}
pub fn t_bytes(a: u64, b: u64) -> u64 {
	let mut v = a.to_le_bytes().to_vec();
	for x in b.to_le_bytes().iter() {
		v.push(*x);
	}
	h_bytes(&v, (b % 12) as usize) ^ (v[3] as u64)
}
pub struct Hp {
	pub keys: [u64; 4],
	pub mask: u64,
	pub other: String,
}
impl Hp {
	pub fn node(&self, edge: u64, uorv: u64) -> Result<u64, String> {
		let h = self.keys[(edge % 4) as usize] ^ (2 * edge + uorv);
		Ok(h & self.mask)
	}
	pub fn ext(&self, k: u64) -> u64 {
		let d = ((k as u128) << 64) / (std::cmp::max(1, self.outside().len() as u64) as u128);
		d as u64
	}
	fn outside(&self) -> String {
		self.other.clone()
	}
	pub fn ext2(&self, k: u64) -> u64 {
		self.ext(k).wrapping_add(self.mask)
	}
}
pub fn t_result(a: u64, b: u64, c: u64) -> u64 {
	let hp = Hp { keys: [a, b, c, a ^ b], mask: c | 0xff, other: "xyz".to_string() };
	hp.node(a, b & 1).unwrap() ^ hp.ext(c) ^ hp.ext2(a)
}
#[derive(Clone, Copy, Debug, PartialEq)]
pub enum Kf {
	Plain { fee: u64 },
	Coinbase,
	Locked { fee: u64, lock: u64 },
	Nrd { fee: u64, rel: u16 },
}
pub struct Kern {
	pub features: Kf,
	pub excess: String,
}
pub enum Wt {
	AsTx,
	AsLimited(u64),
	NoLimit,
}
pub fn h_fee(ks: &[Kern]) -> u64 {
	ks.iter()
		.filter_map(|k| match k.features {
			Kf::Coinbase => None,
			Kf::Plain { fee } => Some(fee),
			Kf::Locked { fee, .. } => Some(fee),
			Kf::Nrd { fee, .. } => Some(fee),
		})
		.fold(0, |acc, f| acc.saturating_add(f & 0xff_ffff_ffff))
}
pub fn h_lock(ks: &[Kern]) -> u64 {
	ks.iter()
		.filter_map(|x| match x.features {
			Kf::Locked { lock, .. } => Some(lock),
			_ => None,
		})
		.max()
		.unwrap_or(0)
}
pub fn h_verify(w: Wt, weight: u64, blockmax: u64) -> Result<(), String> {
	let lim = match w {
		Wt::AsTx => blockmax.saturating_sub(24),
		Wt::AsLimited(m) => std::cmp::min(blockmax, m).saturating_sub(24),
		Wt::NoLimit => {
			// nothing to check
			return Ok(());
		}
	};
	if weight > lim {
		return Err(String::new());
	}
	Ok(())
}
// ---- phase 4: `return` inside `for` / `while` / nested `loop`s, `?` inside a loop, `assert!`, direct recursion (fuel),
// `Range::contains`, string payload of `Err`
pub fn t_ret_for(a: u64, n: u64) -> u64 {
	let mut s: u64 = 0;
	for i in 0..(n % 20) {
		if (i * a) % 7 == 3 {
			return s + 1000;
		}
		s += i * a;
	}
	s
}
pub fn t_ret_loop(a: u64, b: u64) -> Option<u64> {
	let v = vec![a % 5, b % 5, (a + b) % 5, 1, 4, 2];
	let mut i: usize = 0;
	let mut n: u64 = 0;
	loop {
		let mut k = i;
		loop {
			k = v[k] as usize;
			if k == i {
				break;
			}
			if v[k] == 3 {
				return None;
			}
			n += 1;
			if n > 40 {
				return Some(n);
			}
		}
		i = (i + 1) % 6;
		n += 2;
		if i == 0 {
			break;
		}
	}
	Some(n)
}
pub fn t_ret_while(a: u64, b: u64) -> Result<u64, String> {
	let mut x = a % 1000;
	let mut steps: u64 = 0;
	while x > 1 {
		if x == b % 16 {
			return Err("hit".to_owned());
		}
		if x % 2 == 0 {
			x /= 2;
		} else {
			x = 3 * x + 1;
		}
		steps += 1;
		if steps > 60 {
			return Ok(steps + x);
		}
	}
	Ok(steps)
}
pub fn t_try_loop(a: u64, b: u64) -> Option<u64> {
	let v = vec![a % 9, b % 9, 7, (a ^ b) % 9];
	let mut s: u64 = 0;
	for x in v {
		let y = x.checked_sub(b % 4)?;
		s += y;
	}
	Some(s)
}
pub fn t_assert(a: u64, b: u64) -> u64 {
	assert!(a % 16 >= b % 8, "a too small: {}", a);
	a % 16 - b % 8
}
pub fn t_rec(a: u64, d: u64) -> u64 {
	if a < 2 {
		d
	} else {
		t_rec(a / 2, d + a % 3)
	}
}
pub fn t_rangec(a: u64, b: u64, c: u64) -> bool {
	let r = (a % 100)..(b % 100);
	r.contains(&(c % 100))
}
// ---- phase 5: `&self` methods of an enum (the enum value is the first parameter), called on a field of enum type
impl Kf {
	pub fn is_nrd(&self) -> bool {
		match self {
			Kf::Nrd { .. } => true,
			_ => false,
		}
	}
	pub fn weight(&self, base: u64) -> u64 {
		match self {
			Kf::Locked { lock, .. } => *lock + base,
			Kf::Plain { fee } => *fee,
			_ => base,
		}
	}
}
pub fn h_kfm(ks: &[Kern], base: u64) -> u64 {
	let n = ks.iter().filter(|k| k.features.is_nrd()).count() as u64;
	ks.iter().map(|k| k.features.weight(base)).sum::<u64>() + n
}
// ---- phase 6: integer literal patterns, a pattern on a one-field struct, `ok_or_else`
pub fn t_litpat(a: u64, b: u64) -> u64 {
	match a % 7 {
		0 => b,
		1 => b + 1,
		5 => a,
		_ => a ^ b,
	}
}
pub fn t_ntpat(a: u64) -> Result<u64, String> {
	let v = Nt(a % 5);
	let r = match v {
		Nt(1) => Some(10),
		Nt(3) => None,
		_ => Some(a),
	};
	r.ok_or_else(|| "none".to_owned())
}
