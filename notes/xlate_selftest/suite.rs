// Synthetic functions exercising every construct of the rs2lean subset.  Compiled with
// `rustc -O -C overflow-checks=off` (the release semantics the translator implements) and compared
// with `#eval` of the translated Lean on the same inputs by run.py.
use std::cmp::{max, min};

const K1: u64 = 0xffff_0000;
const K2: u32 = 1 << 5;
const K3: u8 = 200;

pub struct Nt(pub u64);
pub struct Pt {
	pub a: u8,
	pub b: u64,
}

pub fn t_arith(a: u64, b: u64) -> u64 {
	(a + b) * 3 - (a ^ b) + (a & K1) - (b | 7)
}
pub fn t_shift(a: u64, s: u64) -> u64 {
	(a << s) ^ (a >> (s + 1)) ^ (1 << s)
}
pub fn t_shift32(a: u32, s: u8) -> u32 {
	(a << s) + (a >> s) + K2
}
pub fn t_u8(a: u8, b: u8) -> u8 {
	let c = a + b;
	let d = c * 3 - b;
	!d ^ (K3 >> 1)
}
pub fn t_cast(a: u64) -> u64 {
	let x = a as u8;
	let y = a as u16;
	let z = a as u32;
	(x as u64) + ((y as u64) << 8) + (z as u64 * 3) + (a as usize as u64)
}
pub fn t_castbool(a: u64, b: u64) -> u64 {
	(a < b) as u64 + ((a == b) as u64) * 2 + ((a != b && b > 3) as u64) * 4
}
pub fn t_div(a: u64, b: u64) -> u64 {
	a / b + a % (b + 1)
}
pub fn t_div_guard(a: u64, b: u64) -> u64 {
	if b != 0 && a / b > 2 {
		a % b
	} else if b == 0 || a / b == 1 {
		7
	} else {
		a / b
	}
}
pub fn t_sat(a: u64, b: u64) -> u64 {
	a.saturating_sub(b).saturating_add(b.saturating_mul(3)).wrapping_add(a.wrapping_mul(b)).wrapping_sub(5)
}
pub fn t_bits(a: u64) -> u64 {
	(a.leading_zeros() + a.trailing_zeros() * 100 + a.count_ones() * 10000 + a.count_zeros() * 1000000) as u64
}
pub fn t_bits32(a: u32) -> u32 {
	a.leading_zeros() + a.trailing_zeros() * 100 + a.count_ones() * 10000
}
pub fn t_minmax(a: u64, b: u64) -> u64 {
	max(a, 10).min(b) + min(a, b) + std::cmp::max(a, b) / 2 + a.max(b) % 7
}
pub fn t_checked(a: u64, b: u64) -> Option<u64> {
	a.checked_sub(b)
}
pub fn t_match_opt(a: u64, b: u64) -> u64 {
	match t_checked(a, b) {
		Some(d) => d + 1,
		None => 0,
	}
}
pub fn t_tuple(a: u64, b: u64) -> (u64, u64) {
	let (x, y) = (a + 1, b - 1);
	let t = (y, x);
	(t.0 * 2, t.1 * 3)
}
pub fn t_early(mut a: u64, b: u64) -> u64 {
	if a == 0 {
		return b;
	}
	a += 1;
	if b > a {
		a -= 2;
		if a == 5 {
			return 55;
		}
	} else if b == a {
		return 1;
	} else {
		a *= 2;
	}
	a + b
}
pub fn t_loop(mut n: u64) -> u64 {
	let mut acc = 0;
	let mut i = 0u64;
	while n != 0 {
		if n & 1 == 1 {
			acc += i;
		}
		i += 1;
		n >>= 1;
	}
	acc * 2 + i
}
pub fn t_loop_break(n: u64, lim: u64) -> (u64, u64) {
	let mut x = n;
	let mut steps = 0;
	while x != 1 {
		if steps >= lim || x == 0 {
			break;
		}
		if x % 2 == 0 {
			x /= 2;
		} else {
			x = x / 2 + 1;
		}
		steps += 1;
	}
	(x, steps)
}
pub fn t_vec(n: u64) -> Vec<u64> {
	let mut v = vec![];
	let mut k = n;
	while k > 0 {
		v.push(k & 3);
		k >>= 2;
	}
	v
}
pub fn t_shadow(a: u64) -> u64 {
	let x = a + 1;
	let x = x * 2;
	let y = {
		let x = x + 3;
		x * x
	};
	x + y
}
pub fn t_bool(a: u64, b: u64) -> bool {
	let p = a > b;
	let q = !(a == b) & (b != 0);
	(p || q) && !(p && q) | (a == 7)
}
pub fn t_compound(mut a: u64, b: u64) -> u64 {
	a |= b;
	a &= !b | 0xff;
	a ^= b >> 3;
	a <<= 3;
	a >>= 1;
	a %= 1000003;
	a
}
impl Nt {
	pub fn low(&self) -> u64 {
		self.0 & 0xff
	}
	pub fn opt(&self) -> Option<Self> {
		if self.low() == 0 {
			None
		} else {
			Some(*self)
		}
	}
}
impl Clone for Nt { fn clone(&self) -> Nt { Nt(self.0) } }
impl Copy for Nt {}
impl Pt {
	pub fn cap(&self) -> u64 {
		1 << self.a
	}
	pub fn off(&self, m: u64) -> u64 {
		self.b * self.cap() + (self.a as u64) + m
	}
}
