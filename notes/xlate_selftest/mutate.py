#!/usr/bin/env python3
"""mutation sanity for rs2lean: mutate scratch copies of the Rust sources, regenerate Gen/Fns*.lean into a
scratch COPY of the Lean tree (/root/xlate_scratch or $VERIF_WORK; the real tree is never touched, so this can
run while other work goes on), rebuild the Props/Xlate* modules there, report which theorems stop checking.
The scratch directories are removed at the end.
Usage: mutate.py [name prefixes…]   (e.g. `mutate.py N` = the phase-2 mutations, `mutate.py M B` = phase 1)"""
import os, re, shutil, subprocess, sys
sys.path.insert(0, "/verif/tools")
import rs2lean
ROOT = os.environ.get("VERIF_WORK", "/root/xlate_scratch")
SCR = os.path.join(ROOT, "xlate_mut_repo")
LEAN = os.path.join(ROOT, "xlate_mut_lean")
GEN = os.path.join(LEAN, "GrinVerif", "Gen")
FILES = list(rs2lean.TYPE_FILES)
P, C, G, S, T = rs2lean.PMMR, rs2lean.CONS, rs2lean.GLOB, rs2lean.SEG, rs2lean.TXS
PT, SI, BM = rs2lean.POWT, rs2lean.SIP, rs2lean.BMACC
MODS = ["GrinVerif.Props.XlatePmmr", "GrinVerif.Props.XlateCons", "GrinVerif.Props.XlateSeg", "GrinVerif.Props.XlateTx",
        "GrinVerif.Props.XlatePmmr2", "GrinVerif.Props.XlateDiff", "GrinVerif.Props.XlatePow",
        "GrinVerif.Props.XlatePack", "GrinVerif.Props.XlateMisc", "GrinVerif.Props.XlateTxFee",
        "GrinVerif.Props.XlateSipnode",
        # phase 4 / 5
        "GrinVerif.Props.XlatePrune", "GrinVerif.Props.XlateVerify", "GrinVerif.Props.XlateVerifyZ",
        "GrinVerif.Props.XlateVerifyT", "GrinVerif.Props.XlateVerifyD", "GrinVerif.Props.XlateCtx",
        "GrinVerif.Props.XlateBag", "GrinVerif.Props.XlateSelect", "GrinVerif.Props.XlatePackW"]
MODS = [m for m in MODS if os.path.exists("/verif/lean/" + m.replace(".", "/") + ".lean")]
MODS = [m for m in MODS if m.split(".")[-1] not in os.environ.get("XLATE_MUT_SKIP", "").split(",")]
PR, CU, CZ, CT, CD, CM, PC, BK = rs2lean.PRUNE, rs2lean.CUCKAROO, rs2lean.CUCKAROOZ, rs2lean.CUCKATOO, rs2lean.CUCKAROOD, \
    rs2lean.CUCKAROOM, rs2lean.POWC, rs2lean.BLK
MUTS_P = [   # phase 4 / 5: run with `mutate.py P`
 ("P01 prune_list: calculate_next_shift 2*((1<<h)-1) -> (1<<h)-1", PR, "\t\tlet shift = if self.is_pruned_root(pos0) {\n\t\t\tlet height = bintree_postorder_height(pos0);\n\t\t\t2 * ((1 << height) - 1)", "\t\tlet shift = if self.is_pruned_root(pos0) {\n\t\t\tlet height = bintree_postorder_height(pos0);\n\t\t\t((1 << height) - 1)"),
 ("P02 prune_list: append rolls up on !is_pruned(sibling)", PR, "if self.is_pruned(sibling0) {", "if !self.is_pruned(sibling0) {"),
 ("P03 prune_list: cleanup_subtree rank(lc0) -> rank(lc0 + 1)", PR, "let idx = self.bitmap.rank(lc0);", "let idx = self.bitmap.rank(lc0 + 1);"),
 ("P04 prune_list: get_shift `idx == 0` early return dropped to `idx == 1`", PR, "\t\tlet idx = self.bitmap.rank(1 + pos0 as u32);\n\t\tif idx == 0 {\n\t\t\treturn 0;\n\t\t}\n\t\tself.shift_cache", "\t\tlet idx = self.bitmap.rank(1 + pos0 as u32);\n\t\tif idx == 1 {\n\t\t\treturn 0;\n\t\t}\n\t\tself.shift_cache"),
 ("P05 prune_list: is_pruned uses select(rank + 1)", PR, "self.bitmap.select(rank as u32)", "self.bitmap.select(rank as u32 + 1)"),
 ("P06 cuckaroo: branch test j != i -> j == i", CU, "if j != i {", "if j == i {"),
 ("P07 cuckaroo: ascending test <= -> <", CU, "nonces[n] <= nonces[n - 1]", "nonces[n] < nonces[n - 1]"),
 ("P08 cuckaroo: i = j ^ 1 -> i = j", CU, "i = j ^ 1;", "i = j;"),
 ("P09 cuckaroo: endpoint test xor0 | xor1 -> xor0 & xor1", CU, "if xor0 | xor1 != 0 {", "if xor0 & xor1 != 0 {"),
 ("P10 cuckarooz: last comparison n == proof_size -> n >= proof_size", CZ, "if n == self.params.proof_size {", "if n >= self.params.proof_size {"),
 ("P11 cuckarooz: edge too big test > -> >=", CZ, "if nonces[n] > self.params.edge_mask {", "if nonces[n] >= self.params.edge_mask {"),
 ("P12 CuckooParams::new: edge_mask = num_edges - 1 -> num_edges", PC, "let edge_mask = num_edges - 1;", "let edge_mask = num_edges;"),
 ("P13 new_cuckarood_ctx: node bits edge_bits - 1 -> edge_bits", CD, "Error> {\n\tlet params = CuckooParams::new(edge_bits, edge_bits - 1, proof_size)?;", "Error> {\n\tlet params = CuckooParams::new(edge_bits, edge_bits, proof_size)?;"),
 ("P14 verify_kernel_lock_heights: > -> >=", BK, "if lock_height > self.header.height {", "if lock_height >= self.header.height {"),
 ("P15 verify_nrd_kernels_for_header_version: HeaderVersion(4) -> HeaderVersion(3)", BK, "if self.header.version < HeaderVersion(4) {\n\t\t\t\treturn Err(Error::NRDKernelPreHF3);", "if self.header.version < HeaderVersion(3) {\n\t\t\t\treturn Err(Error::NRDKernelPreHF3);"),
 ("P16 bag_the_rhs: peaks right of the peak `x > peak_pos0` -> `x >= peak_pos0`", P, ".filter(|&x| x > peak_pos0)", ".filter(|&x| x >= peak_pos0)"),
 ("P17 root: bagging pair swapped (peak, rhash) -> (rhash, peak)", P, "\t\tlet peaks = self.peaks();\n\t\tlet mmr_size = self.unpruned_size();\n\t\tfor peak in peaks.into_iter().rev() {\n\t\t\tres = match res {\n\t\t\t\tNone => Some(peak),\n\t\t\t\tSome(rhash) => Some((peak, rhash)", "\t\tlet peaks = self.peaks();\n\t\tlet mmr_size = self.unpruned_size();\n\t\tfor peak in peaks.into_iter().rev() {\n\t\t\tres = match res {\n\t\t\t\tNone => Some(peak),\n\t\t\t\tSome(rhash) => Some((rhash, peak)"),
 ("P18 create_pow_context: edge_bits > 29 -> edge_bits > 30", G, "\t\tif edge_bits > 29 {\n\t\t\tnew_cuckatoo_ctx", "\t\tif edge_bits > 30 {\n\t\t\tnew_cuckatoo_ctx"),
 ("P19 create_pow_context: arms of header versions 2 and 3 swapped", G, "HeaderVersion(2) => new_cuckarood_ctx(edge_bits, proof_size),\n\t\t\t\tHeaderVersion(3) => new_cuckaroom_ctx(edge_bits, proof_size),", "HeaderVersion(2) => new_cuckaroom_ctx(edge_bits, proof_size),\n\t\t\t\tHeaderVersion(3) => new_cuckarood_ctx(edge_bits, proof_size),"),
 ("P20 pack_bits: `bit_width < remaining` -> `<=`", PT, "\t\tif bit_width < remaining {\n\t\t\tremaining -= bit_width;", "\t\tif bit_width <= remaining {\n\t\t\tremaining -= bit_width;"),
 ("P21 pack_bits: buffer advanced by 7 instead of 8", PT, "compressed = &mut compressed[8..];", "compressed = &mut compressed[7..];"),
 ("P22 pack_bits: `el >> remaining` -> `el >> (remaining - 1)`", PT, "mini_buffer = el >> remaining;", "mini_buffer = el >> (remaining - 1);"),
 ("PB1 benign: locals renamed in cuckaroo verify (uvs -> ends), comment added", CU, None, "cuckaroo_rename"),
]
MUTS = [
 ("M01 shift off by one: peak_size >>= 1 -> >>= 2 (peak_map_height)", P, "\t\tpeak_size >>= 1;\n\t}\n\t(peak_map, size)", "\t\tpeak_size >>= 2;\n\t}\n\t(peak_map, size)"),
 ("M02 >= -> > in peak_map_height", P, "\t\tpeak_map <<= 1;\n\t\tif size >= peak_size {", "\t\tpeak_map <<= 1;\n\t\tif size > peak_size {"),
 ("M03 dropped + 1 in n_leaves", P, "\t\tpeak_map + 1\n", "\t\tpeak_map\n"),
 ("M04 swapped branch test in family (!= 0 -> == 0)", P, "\tif (peak_map & peak) != 0 {\n\t\t(pos0 + 1, pos0 + 1 - 2 * peak)", "\tif (peak_map & peak) == 0 {\n\t\t(pos0 + 1, pos0 + 1 - 2 * peak)"),
 ("M05 constant: pos0 + 2 -> pos0 + 1 in bintree_leftmost", P, "\tlet height = bintree_postorder_height(pos0);\n\tpos0 + 2 - (2 << height)\n", "\tlet height = bintree_postorder_height(pos0);\n\tpos0 + 1 - (2 << height)\n"),
 ("M06 count_ones -> count_zeros in insertion_to_pmmr_index", P, "nleaf0.count_ones()", "nleaf0.count_zeros()"),
 ("M07 family_branch: `current >= size` -> `current > size`", P, "\t\tif current >= size {\n\t\t\tbreak;", "\t\tif current > size {\n\t\t\tbreak;"),
 ("M08 family_branch: peak <<= 1 dropped", P, "\t\tbranch.push((current, sibling));\n\t\tpeak <<= 1;\n", "\t\tbranch.push((current, sibling));\n"),
 ("M09 saturating_sub -> - in secondary_pow_ratio", C, "90u64.saturating_sub(height / (2 * YEAR_HEIGHT / 90))", "90u64 - (height / (2 * YEAR_HEIGHT / 90))"),
 ("M10 constant 31 -> 32 in graph_weight", C, "if edge_bits == 31 && height >= expiry_height", "if edge_bits == 32 && height >= expiry_height"),
 ("M11 max/min swapped in clamp", C, "max(goal / clamp_factor, min(actual, goal * clamp_factor))", "min(goal / clamp_factor, max(actual, goal * clamp_factor))"),
 ("M12 min(5, ..) -> min(6, ..) in header_version (mainnet arm)", C, "global::ChainTypes::Mainnet => HeaderVersion(min(5, hf_interval)),", "global::ChainTypes::Mainnet => HeaderVersion(min(6, hf_interval)),"),
 ("M13 damp: (damp_factor - 1) -> damp_factor", C, "(actual + (damp_factor - 1) * goal) / damp_factor", "(actual + damp_factor * goal) / damp_factor"),
 ("M14 base_edge_bits: testing arms swapped", G, "pub fn base_edge_bits() -> u8 {\n\tmatch get_chain_type() {\n\t\tChainTypes::AutomatedTesting => AUTOMATED_TESTING_MIN_EDGE_BITS,\n\t\tChainTypes::UserTesting => USER_TESTING_MIN_EDGE_BITS,", "pub fn base_edge_bits() -> u8 {\n\tmatch get_chain_type() {\n\t\tChainTypes::AutomatedTesting => USER_TESTING_MIN_EDGE_BITS,\n\t\tChainTypes::UserTesting => AUTOMATED_TESTING_MIN_EDGE_BITS,"),
 ("M15 leaf_offset: * -> +", S, "self.idx * self.segment_capacity()", "self.idx + self.segment_capacity()"),
 ("M16 segment_pos_range: dropped - 1", S, "pmmr::insertion_to_pmmr_index(leaf_offset + segment_size - 1) + (self.height as u64)", "pmmr::insertion_to_pmmr_index(leaf_offset + segment_size) + (self.height as u64)"),
 ("M17 count_segments_required: + d - 1 -> + d", S, "((pmmr::n_leaves(target_mmr_size) + d - 1) / d) as usize", "((pmmr::n_leaves(target_mmr_size) + d) / d) as usize"),
 ("M18 weight_by_iok: saturating_add -> wrapping_add", T, "\t\t\t.saturating_add(num_kernels.saturating_mul(consensus::KERNEL_WEIGHT as u64))", "\t\t\t.wrapping_add(num_kernels.saturating_mul(consensus::KERNEL_WEIGHT as u64))"),
 ("M19 FEE_BITS 40 -> 41", T, "const FEE_BITS: u32 = 40;", "const FEE_BITS: u32 = 41;"),
 ("M20 fee_shift: >> -> << ", T, "((self.0 >> FeeFields::FEE_BITS) & FeeFields::FEE_SHIFT_MASK) as u8", "((self.0 << FeeFields::FEE_BITS) & FeeFields::FEE_SHIFT_MASK) as u8"),
 ("M21 unsupported construct: n_leaves uses a closure", P, "\tlet (peak_map, height) = peak_map_height(size);\n\tif height == 0 {\n\t\tpeak_map\n\t} else {\n\t\tpeak_map + 1", "\tlet (peak_map, height) = peak_map_height(size);\n\tlet f = |x: u64| x + 1;\n\tif height == 0 {\n\t\tpeak_map\n\t} else {\n\t\tf(peak_map)"),
 ("M22 function removed: is_leaf renamed", P, "pub fn is_leaf(pos0: u64) -> bool {", "pub fn is_leaf_renamed(pos0: u64) -> bool {"),
 # ---- phase 2: the newly translated functions
 ("N01 peaks: `x - 1` -> `x - 2`", P, "\t\t\t.map(|x| x - 1)", "\t\t\t.map(|x| x - 2)"),
 ("N02 peaks: `height == 0` -> `height != 0`", P, "\tlet (peak_sizes, height) = peak_sizes_height(size);\n\tif height == 0 {", "\tlet (peak_sizes, height) = peak_sizes_height(size);\n\tif height != 0 {"),
 ("N03 bintree_leaf_pos_iter: `..=` -> `..`", P, "(leaf_start..=leaf_end).map(", "(leaf_start..leaf_end).map("),
 ("N04 bintree_pos_iter: `..=pos0` -> `..pos0`", P, "(leaf_start..=pos0).into_iter()", "(leaf_start..pos0).into_iter()"),
 ("N05 ar_count: 100 -> 10", C, "\t100 * diff_data.iter().filter(", "\t10 * diff_data.iter().filter("),
 ("N06 ar_count: filter negated", C, ".filter(|n| n.is_secondary)", ".filter(|n| !n.is_secondary)"),
 ("N07 secondary_pow_scaling: max(1, adj_count) -> max(2, adj_count)", C, "scale_sum * target_pct / max(1, adj_count)", "scale_sum * target_pct / max(2, adj_count)"),
 ("N08 secondary_pow_scaling: DMA_WINDOW * target_pct -> +", C, "let target_count = DMA_WINDOW * target_pct;", "let target_count = DMA_WINDOW + target_pct;"),
 ("N09 next_dma_difficulty: skip(1) -> skip(2)", C, "\t\t.skip(1)\n\t\t.map(|dd| dd.difficulty.to_num())", "\t\t.skip(2)\n\t\t.map(|dd| dd.difficulty.to_num())"),
 ("N10 next_dma_difficulty: window end index off by one", C, "diff_data[DMA_WINDOW as usize].timestamp - diff_data[0].timestamp", "diff_data[DMA_WINDOW as usize - 1].timestamp - diff_data[0].timestamp"),
 ("N11 next_wtema_difficulty: - BLOCK_TIME_SEC -> + BLOCK_TIME_SEC", C, "(WTEMA_HALF_LIFE - BLOCK_TIME_SEC + last_block_time)", "(WTEMA_HALF_LIFE + BLOCK_TIME_SEC + last_block_time)"),
 ("N12 next_wtema_difficulty: swapped operands of the timestamp difference", C, "last_header.timestamp - prev_header.timestamp", "prev_header.timestamp - last_header.timestamp"),
 ("N13 next_difficulty: `< HeaderVersion(5)` -> `<=`", C, "if header_version(height) < HeaderVersion(5) {", "if header_version(height) <= HeaderVersion(5) {"),
 ("N14 difficulty_data_to_vector: `n > 1` -> `n > 2`", G, "let last_ts_delta = if n > 1 {", "let last_ts_delta = if n > 2 {"),
 ("N15 difficulty_data_to_vector: dropped `last_n.reverse()`", G, "\tlast_n.reverse();\n\tlast_n\n", "\tlast_n\n"),
 ("N16 difficulty_data_to_vector: saturating_sub -> wrapping_sub", G, "last_ts = last_ts.saturating_sub(last_ts_delta);", "last_ts = last_ts.wrapping_sub(last_ts_delta);"),
 ("N17 Difficulty::from_num: max(num, 1) -> max(num, 2)", PT, "Difficulty { num: max(num, 1) }", "Difficulty { num: max(num, 2) }"),
 ("N18 scaled_difficulty: << 64 -> << 63", PT, "((scale as u128) << 64)", "((scale as u128) << 63)"),
 ("N19 SipHash24::round: rotl 13 -> 14", SI, "rotl!(self.1, 13);", "rotl!(self.1, 14);"),
 ("N20 SipHash24::hash: 0xff -> 0xfe", SI, "self.2 ^= 0xff;", "self.2 ^= 0xfe;"),
 ("N21 SipHash24::hash: 4 finalisation rounds -> 3", SI, "for _ in 0..4 {", "for _ in 0..3 {"),
 ("N22 SipHash24::digest: ^ -> |", SI, "(self.0 ^ self.1) ^ (self.2 ^ self.3)", "(self.0 ^ self.1) ^ (self.2 | self.3)"),
 ("N23 macro rotl!: 64 - shift -> 63 - shift", SI, "($num >> (64 - $shift))", "($num >> (63 - $shift))"),
 ("N24 siphash_block: nonce_i + 1 -> nonce_i", SI, "\t\tnonce_i + 1\n", "\t\tnonce_i\n"),
 ("N25 extract_bits: dropped - 1 of the mask", PT, "let bit_mask = (1 << bit_count) - 1;", "let bit_mask = 1 << bit_count;"),
 ("N26 read_number: `>` -> `>=` when moving the window back", PT, "if read_from + 8 > bits.len() {", "if read_from + 8 >= bits.len() {"),
 ("N27 pack_len: + 7 -> + 8", PT, "(bit_width as usize * global::proofsize() + 7) / 8", "(bit_width as usize * global::proofsize() + 8) / 8"),
 ("N28 chunk_start_idx: !(NBITS - 1) -> !NBITS", BM, "idx & !(Self::NBITS - 1)", "idx & !(Self::NBITS)"),
 ("N29 pmmr_size: 1 << height -> 2 << height", S, "num_segments as u64 * (1 << height)", "num_segments as u64 * (2 << height)"),
 ("N30 old_weight_by_iok: 4 -> 3", T, "\t\t\t.saturating_mul(4)", "\t\t\t.saturating_mul(3)"),
 ("N31 cut_through_horizon: testing arms swapped", G, "ChainTypes::AutomatedTesting => AUTOMATED_TESTING_CUT_THROUGH_HORIZON,\n\t\tChainTypes::UserTesting => USER_TESTING_CUT_THROUGH_HORIZON,", "ChainTypes::AutomatedTesting => USER_TESTING_CUT_THROUGH_HORIZON,\n\t\tChainTypes::UserTesting => AUTOMATED_TESTING_CUT_THROUGH_HORIZON,"),
 ("N33 TransactionBody::fee: saturating_add -> wrapping_add", T, "acc.saturating_add(fee_fields.fee())", "acc.wrapping_add(fee_fields.fee())"),
 ("N34 TransactionBody::fee_shift: max -> min", T, "max(acc, fee_fields.fee_shift())", "min(acc, fee_fields.fee_shift())"),
 ("N35 verify_weight: `>` -> `>=`", T, "if self.weight() > max_weight {", "if self.weight() >= max_weight {"),
 ("N36 verify_weight: AsBlock limit -> max_tx_weight", T, "Weighting::AsBlock => global::max_block_weight(),", "Weighting::AsBlock => global::max_tx_weight(),"),
 ("N37 lock_height: unwrap_or(0) -> unwrap_or(1)", T, "\t\t\t.max()\n\t\t\t.unwrap_or(0)", "\t\t\t.max()\n\t\t\t.unwrap_or(1)"),
 ("N38 sipnode: 2 * edge + uorv -> edge + uorv", rs2lean.POWC, "siphash24(&self.siphash_keys, 2 * edge + uorv)", "siphash24(&self.siphash_keys, edge + uorv)"),
 ("N32 unsupported construct introduced: ar_count uses a string", C, "\t100 * diff_data.iter().filter(", "\tlet _s = \"x\";\n\t100 * diff_data.iter().filter("),
 # benign changes: must NOT break anything
 ("NB1 benign: closure parameters renamed in ar_count / secondary_pow_scaling, comment added", C, "\t100 * diff_data.iter().filter(|n| n.is_secondary).count() as u64", "\t// count\n\t100 * diff_data\n\t\t.iter()\n\t\t.filter(|hdr| hdr.is_secondary)\n\t\t.count() as u64"),
 ("NB2 benign: loop variable and local renamed in siphash_block", SI, None, "siphash_block"),
 ("NB3 benign: locals renamed in next_wtema_difficulty", C, None, "next_wtema_difficulty"),
 ("NB4 benign: macro parameter renamed, reformatting of SipHash24::round", SI, None, "rotl"),
 ("B01 benign: comments + reformatting of peak_map_height", P, "\twhile peak_size != 0 {\n\t\tpeak_map <<= 1;\n\t\tif size >= peak_size {\n\t\t\tsize -= peak_size;\n\t\t\tpeak_map |= 1;\n\t\t}", "\twhile peak_size != 0 { /* loop */\n\t\tpeak_map <<= 1; // shift\n\t\tif size >= peak_size\n\t\t{ size -= peak_size;\n\n\t\t\tpeak_map |= 1; }"),
 ("B02 benign: local variable renamed in family (peak -> pk, height -> hh)", P, "\tlet (peak_map, height) = peak_map_height(pos0);\n\tlet peak = 1 << height;\n\tif (peak_map & peak) != 0 {\n\t\t(pos0 + 1, pos0 + 1 - 2 * peak)\n\t} else {\n\t\t(pos0 + 2 * peak, pos0 + 2 * peak - 1)", "\tlet (peak_map, hh) = peak_map_height(pos0);\n\tlet pk = 1 << hh;\n\tif (peak_map & pk) != 0 {\n\t\t(pos0 + 1, pos0 + 1 - 2 * pk)\n\t} else {\n\t\t(pos0 + 2 * pk, pos0 + 2 * pk - 1)"),
 ("B03 benign: loop variables of peak_map_height renamed (peak_size -> ps, peak_map -> pm)", P, None, None),
 ("B04 benign: parameter renamed in damp / literal written 1u64", C, "pub fn damp(actual: u64, goal: u64, damp_factor: u64) -> u64 {\n\t(actual + (damp_factor - 1) * goal) / damp_factor", "pub fn damp(a: u64, goal: u64, df: u64) -> u64 {\n\t(a + (df - 1u64) * goal) / df"),
]

def prepare_lean():
    """scratch copy of the Lean tree including its build outputs (only the changed modules are rebuilt)"""
    shutil.rmtree(LEAN, ignore_errors=True)
    os.makedirs(ROOT, exist_ok=True)
    # other builds may be running in the real tree: files that vanish during the copy are rebuilt in the scratch tree
    subprocess.run(["cp", "-a", "/verif/lean", LEAN], capture_output=True)
    assert os.path.isdir(os.path.join(LEAN, "GrinVerif", "Props"))

def fresh():
    shutil.rmtree(SCR, ignore_errors=True)
    for f in FILES:
        os.makedirs(os.path.dirname(os.path.join(SCR, f)), exist_ok=True)
        shutil.copy(os.path.join("/repo", f), os.path.join(SCR, f))

def write(files):
    for n, c in files.items():
        p = os.path.join(GEN, n)
        if not (os.path.exists(p) and open(p).read() == c):
            open(p, "w").write(c)

def build():
    mods = [m for m in MODS if os.path.exists(os.path.join(LEAN, m.replace(".", "/") + ".lean"))]
    try:
        r = subprocess.run(["lake", "build"] + mods, cwd=LEAN, capture_output=True, text=True, timeout=900)
    except subprocess.TimeoutExpired:
        subprocess.run(["pkill", "-f", LEAN + "/GrinVerif"])
        return 124, [("(build did not finish in 900 s: a proof no longer goes through)", "0", "0", "timeout")]
    out = r.stdout + r.stderr
    errs = re.findall(r"error: (\S+?\.lean):(\d+):(\d+): (.*)", out)
    return r.returncode, errs

def thm_at(path, line):
    best = "?"
    for i, l in enumerate(open(path).read().split("\n"), 1):
        m = re.match(r"\s*(theorem|example)\s*(\S*)", l)
        if m and i <= line:
            best = m.group(2) if m.group(1) == "theorem" else "example@%d" % i
    return best

only = sys.argv[1:]
if only and all(o.startswith("P") for o in only):
    MUTS = MUTS_P
prepare_lean()
try:
    for name, f, old, new in MUTS:
        if only and not any(name.startswith(o) for o in only): continue
        fresh()
        p = os.path.join(SCR, f)
        s = open(p).read()
        if old is None and new == "cuckaroo_rename":
            s = re.sub(r"\buvs\b", "ends", s).replace("// follow cycle", "// follow the cycle (renamed)")
        elif old is None and new == "siphash_block":
            a = s.index("pub fn siphash_block("); b = s.index("/// Implements siphash 2-4 specialized")
            body = s[a:b]
            body = re.sub(r"\bnonce_hash\b", "hashes", body); body = re.sub(r"\bi\b", "k", body)
            body = re.sub(r"\bxor\b", "acc", body)
            s = s[:a] + body + s[b:]
        elif old is None and new == "next_wtema_difficulty":
            a = s.index("pub fn next_wtema_difficulty<T>("); b = s.index("/// Count, in units of 1/100")
            body = s[a:b]
            for x, y in (("last_headers", "it"), ("last_header", "h0"), ("prev_header", "h1"), ("next_diff", "nd"),
                         ("last_block_time", "dt")):
                body = re.sub(r"\b%s\b" % x, y, body)
            s = s[:a] + body + s[b:]
        elif old is None and new == "rotl":
            s = s.replace("$num", "$x").replace("$shift", "$s")
            s = s.replace("\t\tself.0 = self.0.wrapping_add(self.1);\n\t\tself.2 = self.2.wrapping_add(self.3);",
                          "\t\tself.0 = self.0.wrapping_add(self.1); // a\n\n\t\tself.2 =\n\t\t\tself.2.wrapping_add(self.3);")
        elif old is None:   # B03: rename inside peak_map_height only
            a = s.index("pub fn peak_map_height("); b = s.index("pub fn peak_sizes_height(")
            body = s[a:b]
            body = re.sub(r"\bpeak_size\b", "ps", body); body = re.sub(r"\bpeak_map\b", "pm", body)
            s = s[:a] + body + s[b:]
        else:
            assert s.count(old) == 1, (name, s.count(old))
            s = s.replace(old, new)
        open(p, "w").write(s)
        files = rs2lean.generate(SCR)
        unt = [l for c in files.values() for l in c.split("\n") if l.startswith("-- UNTRANSLATABLE")]
        write(files)
        rc, errs = build()
        broken = []
        for ef, ln, col, msg in errs:
            path = ef if os.path.isabs(ef) else os.path.join(LEAN, ef)
            broken.append(f"{os.path.basename(ef)}:{thm_at(path, int(ln))}")
        seen = []
        for b in broken:
            if b not in seen: seen.append(b)
        print(f"{name}\n    build rc={rc}; untranslatable={len(unt)}; broken: {', '.join(seen) if seen else '-'}")
        for u in unt[:3]: print("      " + u[:160])
        sys.stdout.flush()
finally:
    write(rs2lean.generate("/repo"))
    rc, errs = build()
    print("unmutated source again; build rc =", rc)
    shutil.rmtree(SCR, ignore_errors=True)
    shutil.rmtree(LEAN, ignore_errors=True)
