#!/usr/bin/env python3
"""mutation sanity for rs2lean: mutate scratch copies of the Rust sources, regenerate Gen/Fns*.lean,
rebuild the Props/Xlate* modules, report which theorems stop checking.  Restores at the end."""
import os, re, shutil, subprocess, sys
sys.path.insert(0, "/verif/tools")
import rs2lean
SCR = os.path.join(os.environ.get("VERIF_WORK", "/verif/notes/xlate_selftest"), "xlate_mut_repo")
GEN = "/verif/lean/GrinVerif/Gen"
FILES = [rs2lean.PMMR, rs2lean.CONS, rs2lean.GLOB, rs2lean.SEG, rs2lean.TXS, rs2lean.BLK]
P, C, G, S, T = rs2lean.PMMR, rs2lean.CONS, rs2lean.GLOB, rs2lean.SEG, rs2lean.TXS
MUTS = [
 ("M01 shift off by one: peak_size >>= 1 -> >>= 2 (peak_map_height)", P, "\t\tpeak_size >>= 1;\n\t}\n\t(peak_map, size)", "\t\tpeak_size >>= 2;\n\t}\n\t(peak_map, size)"),
 ("M02 >= -> > in peak_map_height", P, "\t\tpeak_map <<= 1;\n\t\tif size >= peak_size {", "\t\tpeak_map <<= 1;\n\t\tif size > peak_size {"),
 ("M03 dropped + 1 in n_leaves", P, "\t\tpeak_map + 1\n", "\t\tpeak_map\n"),
 ("M04 swapped branch test in family (!= 0 -> == 0)", P, "\tif (peak_map & peak) != 0 {\n\t\t(pos0 + 1, pos0 + 1 - 2 * peak)", "\tif (peak_map & peak) == 0 {\n\t\t(pos0 + 1, pos0 + 1 - 2 * peak)"),
 ("M05 constant: pos0 + 2 -> pos0 + 1 in bintree_leftmost", P, "\tlet height = bintree_postorder_height(pos0);\n\tpos0 + 2 - (2 << height)\n", "\tlet height = bintree_postorder_height(pos0);\n\tpos0 + 1 - (2 << height)\n"),
 ("M06 count_ones -> count_zeros in insertion_to_pmmr_index", P, "nleaf0.count_ones()", "nleaf0.count_zeros()"),
 ("M07 family_branch: `current >= size` -> `current > size`", P, "\t\tif current >= size {\n\t\t\tbreak;", "\t\tif current > size {\n\t\t\tbreak;"),
 ("M08 family_branch: peak <<= 1 dropped", P, "\t\tbranch.push((current, sibling));\n\t\tpeak <<= 1;\n", "\t\tbranch.push((current, sibling));\n"),
 ("M09 saturating_sub -> - in secondary_pow_ratio", C, "90u64.saturating_sub(height / (2 * YEAR_HEIGHT / 90))", "90u64 - (height / (2 * YEAR_HEIGHT / 90))"),
 ("M10 constant 31 -> 32 in graph_weight", C, "if edge_bits == 31 && height >= expiry_height", "if edge_bits == 32 && height >= expiry_height"),
 ("M11 max/min swapped in clamp", C, "max(goal / clamp_factor, min(actual, goal * clamp_factor))", "min(goal / clamp_factor, max(actual, goal * clamp_factor))"),
 ("M12 min(5, ..) -> min(6, ..) in header_version (mainnet arm)", C, "global::ChainTypes::Mainnet => HeaderVersion(min(5, hf_interval)),", "global::ChainTypes::Mainnet => HeaderVersion(min(6, hf_interval)),"),
 ("M13 damp: (damp_factor - 1) -> damp_factor", C, "(actual + (damp_factor - 1) * goal) / damp_factor", "(actual + damp_factor * goal) / damp_factor"),
 ("M14 base_edge_bits: testing arms swapped", G, "pub fn base_edge_bits() -> u8 {\n\tmatch get_chain_type() {\n\t\tChainTypes::AutomatedTesting => AUTOMATED_TESTING_MIN_EDGE_BITS,\n\t\tChainTypes::UserTesting => USER_TESTING_MIN_EDGE_BITS,", "pub fn base_edge_bits() -> u8 {\n\tmatch get_chain_type() {\n\t\tChainTypes::AutomatedTesting => USER_TESTING_MIN_EDGE_BITS,\n\t\tChainTypes::UserTesting => AUTOMATED_TESTING_MIN_EDGE_BITS,"),
 ("M15 leaf_offset: * -> +", S, "self.idx * self.segment_capacity()", "self.idx + self.segment_capacity()"),
 ("M16 segment_pos_range: dropped - 1", S, "pmmr::insertion_to_pmmr_index(leaf_offset + segment_size - 1) + (self.height as u64)", "pmmr::insertion_to_pmmr_index(leaf_offset + segment_size) + (self.height as u64)"),
 ("M17 count_segments_required: + d - 1 -> + d", S, "((pmmr::n_leaves(target_mmr_size) + d - 1) / d) as usize", "((pmmr::n_leaves(target_mmr_size) + d) / d) as usize"),
 ("M18 weight_by_iok: saturating_add -> wrapping_add", T, "\t\t\t.saturating_add(num_kernels.saturating_mul(consensus::KERNEL_WEIGHT as u64))", "\t\t\t.wrapping_add(num_kernels.saturating_mul(consensus::KERNEL_WEIGHT as u64))"),
 ("M19 FEE_BITS 40 -> 41", T, "const FEE_BITS: u32 = 40;", "const FEE_BITS: u32 = 41;"),
 ("M20 fee_shift: >> -> << ", T, "((self.0 >> FeeFields::FEE_BITS) & FeeFields::FEE_SHIFT_MASK) as u8", "((self.0 << FeeFields::FEE_BITS) & FeeFields::FEE_SHIFT_MASK) as u8"),
 ("M21 unsupported construct: n_leaves uses a closure", P, "\tlet (peak_map, height) = peak_map_height(size);\n\tif height == 0 {\n\t\tpeak_map\n\t} else {\n\t\tpeak_map + 1", "\tlet (peak_map, height) = peak_map_height(size);\n\tlet f = |x: u64| x + 1;\n\tif height == 0 {\n\t\tpeak_map\n\t} else {\n\t\tf(peak_map)"),
 ("M22 function removed: is_leaf renamed", P, "pub fn is_leaf(pos0: u64) -> bool {", "pub fn is_leaf_renamed(pos0: u64) -> bool {"),
 # benign changes: must NOT break anything
 ("B01 benign: comments + reformatting of peak_map_height", P, "\twhile peak_size != 0 {\n\t\tpeak_map <<= 1;\n\t\tif size >= peak_size {\n\t\t\tsize -= peak_size;\n\t\t\tpeak_map |= 1;\n\t\t}", "\twhile peak_size != 0 { /* loop */\n\t\tpeak_map <<= 1; // shift\n\t\tif size >= peak_size\n\t\t{ size -= peak_size;\n\n\t\t\tpeak_map |= 1; }"),
 ("B02 benign: local variable renamed in family (peak -> pk, height -> hh)", P, "\tlet (peak_map, height) = peak_map_height(pos0);\n\tlet peak = 1 << height;\n\tif (peak_map & peak) != 0 {\n\t\t(pos0 + 1, pos0 + 1 - 2 * peak)\n\t} else {\n\t\t(pos0 + 2 * peak, pos0 + 2 * peak - 1)", "\tlet (peak_map, hh) = peak_map_height(pos0);\n\tlet pk = 1 << hh;\n\tif (peak_map & pk) != 0 {\n\t\t(pos0 + 1, pos0 + 1 - 2 * pk)\n\t} else {\n\t\t(pos0 + 2 * pk, pos0 + 2 * pk - 1)"),
 ("B03 benign: loop variables of peak_map_height renamed (peak_size -> ps, peak_map -> pm)", P, None, None),
 ("B04 benign: parameter renamed in damp / literal written 1u64", C, "pub fn damp(actual: u64, goal: u64, damp_factor: u64) -> u64 {\n\t(actual + (damp_factor - 1) * goal) / damp_factor", "pub fn damp(a: u64, goal: u64, df: u64) -> u64 {\n\t(a + (df - 1u64) * goal) / df"),
]

def fresh():
    shutil.rmtree(SCR, ignore_errors=True)
    for f in FILES:
        os.makedirs(os.path.dirname(os.path.join(SCR, f)), exist_ok=True)
        shutil.copy(os.path.join("/repo", f), os.path.join(SCR, f))

def write(files):
    for n, c in files.items():
        p = os.path.join(GEN, n)
        if not (os.path.exists(p) and open(p).read() == c):
            open(p, "w").write(c)

def build():
    mods = ["GrinVerif.Props.XlatePmmr", "GrinVerif.Props.XlateCons", "GrinVerif.Props.XlateSeg", "GrinVerif.Props.XlateTx"]
    r = subprocess.run(["lake", "build"] + mods, cwd="/verif/lean", capture_output=True, text=True)
    out = r.stdout + r.stderr
    errs = re.findall(r"error: (\S+?\.lean):(\d+):(\d+): (.*)", out)
    return r.returncode, errs

def thm_at(path, line):
    best = "?"
    for i, l in enumerate(open(path).read().split("\n"), 1):
        m = re.match(r"\s*(theorem|example)\s*(\S*)", l)
        if m and i <= line:
            best = m.group(2) if m.group(1) == "theorem" else "example@%d" % i
    return best

only = sys.argv[1:]
try:
    for name, f, old, new in MUTS:
        if only and not any(name.startswith(o) for o in only): continue
        fresh()
        p = os.path.join(SCR, f)
        s = open(p).read()
        if old is None:   # B03: rename inside peak_map_height only
            a = s.index("pub fn peak_map_height("); b = s.index("pub fn peak_sizes_height(")
            body = s[a:b]
            body = re.sub(r"\bpeak_size\b", "ps", body); body = re.sub(r"\bpeak_map\b", "pm", body)
            s = s[:a] + body + s[b:]
        else:
            assert s.count(old) == 1, (name, s.count(old))
            s = s.replace(old, new)
        open(p, "w").write(s)
        files = rs2lean.generate(SCR)
        unt = [l for c in files.values() for l in c.split("\n") if l.startswith("-- UNTRANSLATABLE")]
        write(files)
        rc, errs = build()
        broken = []
        for ef, ln, col, msg in errs:
            path = ef if os.path.isabs(ef) else os.path.join("/verif/lean", ef)
            broken.append(f"{os.path.basename(ef)}:{thm_at(path, int(ln))}")
        seen = []
        for b in broken:
            if b not in seen: seen.append(b)
        print(f"{name}\n    build rc={rc}; untranslatable={len(unt)}; broken: {', '.join(seen) if seen else '-'}")
        for u in unt[:3]: print("      " + u[:160])
        sys.stdout.flush()
finally:
    write(rs2lean.generate("/repo"))
    rc, errs = build()
    print("restored; build rc =", rc)
    shutil.rmtree(SCR, ignore_errors=True)
