#!/usr/bin/env python3
"""Self-test of tools/rs2lean.py: translate suite.rs (synthetic functions covering every construct of
the supported subset), evaluate the translated Lean definitions and the real Rust (rustc -O,
overflow-checks off = the release semantics the translator claims) on the same inputs (edge values of
every integer type + pseudo-random values) and compare line by line.
Usage: python3 notes/xlate_selftest/run.py [--keep]   (needs rustc and the built Lean library; ~1 min).
Scratch files go to $VERIF_WORK (or this directory) /xlate_selftest_work, removed afterwards."""
import os, random, shutil, subprocess, sys
HERE = os.path.dirname(os.path.abspath(__file__))
sys.path.insert(0, os.path.join(HERE, "..", "..", "tools"))
import rs2lean
from rs2lean import Entry, World, prune, INT_TYPES

WORK = os.path.join(os.environ.get("VERIF_WORK", HERE), "xlate_selftest_work")
F = "suite.rs"
FNS = ["t_arith", "t_shift", "t_shift32", "t_u8", "t_cast", "t_castbool", "t_div", "t_div_guard", "t_sat", "t_bits",
       "t_bits32", "t_minmax", "t_checked", "t_match_opt", "t_tuple", "t_early", "t_loop", "t_loop_break", "t_vec",
       "t_shadow", "t_bool", "t_compound",
       # phase 2
       "h_recs", "h_list", "h_gen", "t_for_range", "t_for_list", "t_loop2", "t_iter_sum", "t_iter_misc", "t_scan",
       "t_index", "t_slice", "t_lastfirst", "t_set", "t_sip", "t_u128", "t_u128b", "t_try", "t_iflet",
       "t_matchstmt", "t_gen", "t_rev", "t_structlit", "h_iter", "t_incl", "h_bytes", "t_bytes",
       "h_fee", "h_lock", "h_verify",
       # phase 4
       "t_ret_for", "t_ret_loop", "t_ret_while", "t_try_loop", "t_assert", "t_rangec",
       # phase 5
       "h_kfm",
       # phase 6
       "t_litpat", "t_ntpat"]
METHODS = [("Nt", "low"), ("Nt", "opt"), ("Pt", "cap"), ("Pt", "off")]
HELPERS = [("Dn", "from_num"), ("Dn", "to_num"), ("Rec", "mk"), ("Sip", "new"), ("Sip", "round"), ("Sip", "hash"),
           ("Sip", "digest"), ("Sip", "bump")]      # translated, exercised through the `t_*` functions
SKIP_EVAL = {"h_kfm", "h_recs", "h_gen", "h_bytes", "h_iter", "h_fee", "h_lock", "h_verify"}                     # parameters / results that are not integers
WL = [Entry(F, None, f, f, "FnsSelftest", {1: 70}) for f in FNS] + \
     [Entry(F, t, m, f"{t}_{m}", "FnsSelftest") for t, m in METHODS + HELPERS] + \
     [Entry(F, "Hp", "node", "Hp_node", "FnsSelftest"),
      Entry(F, "Hp", "ext", "Hp_ext", "FnsSelftest", abstract=[("self.outside().len()", "olen", "usize")]),
      Entry(F, "Hp", "ext2", "Hp_ext2", "FnsSelftest"),      # inherits the abstracted parameter `olen`
      Entry(F, None, "t_rec", "t_rec", "FnsSelftest", rec_fuel=70),
      Entry(F, "Kf", "is_nrd", "Kf_is_nrd", "FnsSelftest"), Entry(F, "Kf", "weight", "Kf_weight", "FnsSelftest")]      # phase 4: direct recursion, fuel 70
# `t_result` is compared through a hand-written Lean wrapper (its struct literal has an untranslatable field)
EXTRA_HELPERS = [("Hp", "node"), ("Hp", "ext"), ("Hp", "ext2"), ("Kf", "is_nrd"), ("Kf", "weight")]
EDGES = [0, 1, 2, 3, 5, 7, 8, 31, 32, 63, 64, 65, 127, 128, 200, 255, 256, 65535, 65536, 2**31 - 1, 2**31,
         2**32 - 1, 2**32, 2**63 - 1, 2**63, 2**64 - 2, 2**64 - 1]


def values(ty, rnd, n):
    w = INT_TYPES[ty]
    vs = [v for v in EDGES if v < 2**w]
    return vs + [rnd.getrandbits(rnd.choice([3, 8, 16, 33, w])) % 2**w for _ in range(n)]


def main():
    shutil.rmtree(WORK, ignore_errors=True)
    os.makedirs(WORK)
    w = World(HERE, WL, type_files=[F], out_of_file={F: "FnsSelftest"})
    w.run()
    bad = [(e.rust_name, d) for e, st, d in w.report if st != "ok"]
    if bad:
        print("UNTRANSLATABLE in the self-test suite:", bad)
        return 1
    lean = rs2lean.render(w)["FnsSelftest.lean"]
    rnd = random.Random(20240607)
    rs_body, lean_body = [], []
    for e, st, rec in w.report:
        if (e.impl, e.fn) in HELPERS + EXTRA_HELPERS or e.fn in SKIP_EVAL:
            continue
        st_ = w.struct(e.impl) if e.impl else None
        selft = []
        if rec.has_self:
            for f in rec.self_field_names:
                syn = st_[1][int(f)] if st_[0] == "tuple" else dict(st_[1])[f]
                selft.append((f, rs2lean.Checker(w, F, e.impl).resolve_type(syn)))
        alltys = [t for _, t in selft] + [prune(b.ty) for b in rec.params]
        k = len(alltys)
        cols = [values(t, rnd, 40) for t in alltys]
        if k == 1:
            tuples = [(v,) for v in cols[0]]
        else:
            tuples = [tuple(rnd.choice(c) for c in cols) for _ in range(300)] + \
                     [(a, b) + tuple(c[0] for c in cols[2:]) for a in cols[0][:27] for b in cols[1][:27]]
        vars_ = [f"x{i}" for i in range(k)]
        # ---- Rust: static table + loop
        tab = ", ".join("(" + ", ".join(f"{v}u64" for v in tup) + ",)" for tup in tuples)
        rs_body.append(f"    static IN_{e.lean}: &[({'u64, ' * k})] = &[{tab}];")
        cast = [f"{v} as {t}" for v, t in zip(vars_, alltys)]
        ns = len(selft)
        if rec.has_self:
            if st_[0] == "tuple":
                recv = f"{e.impl}({cast[0]})"
            else:
                vals = dict((f, cast[i]) for i, (f, _) in enumerate(selft))
                recv = f"{e.impl} {{ " + ", ".join(f"{f}: {vals.get(f, '0')}" for f, _ in st_[1]) + " }"
            call = f"{recv}.{e.fn}(" + ", ".join(cast[ns:]) + ")"
        else:
            call = f"{e.fn}(" + ", ".join(cast) + ")"
        pat = "(" + ", ".join(vars_) + ",)"
        fmt = " ".join(["{}"] * k)
        rs_body.append(f"    for &{pat} in IN_{e.lean} {{ p(&format!(\"{e.lean} {fmt}\", {', '.join(vars_)}), "
                       f"std::panic::catch_unwind(|| show(&{call}))); }}")
        # ---- Lean: list + loop
        ltab = ", ".join("[" + ", ".join(str(v) for v in tup) + "]" for tup in tuples)
        args = " ".join(f"(r.getD {i} 0)" for i in range(k))
        lcall = f"toString ({e.lean} {args})"
        if rec.needs_ok:
            lcall = f"(if {e.lean}_ok {args} then {lcall} else \"panic\")"
        label = " ++ \" \" ++ ".join([f"\"{e.lean}\""] + [f"toString (r.getD {i} 0)" for i in range(k)])
        lean_body.append(f"#eval show IO Unit from do\n  for r in ([{ltab}] : List (List Nat)) do\n"
                         f"    IO.println ({label} ++ \" => \" ++ {lcall})")
    # hand-written wrappers around translated methods whose receiver cannot be built from integers by the translator
    KF_L = ("[(⟨Kf.Plain (r.getD 0 0)⟩ : Kern), ⟨Kf.Coinbase⟩, ⟨Kf.Locked (r.getD 1 0) (r.getD 0 0 % 1000)⟩, "
            "⟨Kf.Nrd (r.getD 0 0 ^^^ r.getD 1 0) 7⟩, ⟨Kf.Locked 5 (r.getD 1 0 % 777)⟩]")
    WT_L = ("(match r.getD 0 0 % 3 with | 0 => Wt.AsTx | 1 => Wt.AsLimited (r.getD 1 0) | _ => Wt.NoLimit)")
    for name, k, lean_expr in [("t_kf", 2, f"(h_fee {KF_L}, h_lock {KF_L})"),
                               ("t_kfm", 2, f"(h_kfm {KF_L} (r.getD 1 0))"),
                               ("t_wt", 3, f"(match h_verify {WT_L} (r.getD 2 0) 40000 with | some () => 1 | none => 0)"),
                               ("t_result", 3, "(unwrapD (Hp_node [r.getD 0 0, r.getD 1 0, r.getD 2 0, (r.getD 0 0) ^^^ (r.getD 1 0)] "
                                "((r.getD 2 0) ||| 255) (r.getD 0 0) ((r.getD 1 0) &&& 1))) ^^^ Hp_ext (r.getD 2 0) 3 ^^^ "
                                "Hp_ext2 ((r.getD 2 0) ||| 255) (r.getD 0 0) 3")]:
        cols = [values("u64", rnd, 40) for _ in range(k)]
        tuples = [tuple(rnd.choice(c) for c in cols) for _ in range(300)]
        vars_ = [f"x{i}" for i in range(k)]
        tab = ", ".join("(" + ", ".join(f"{v}u64" for v in tup) + ",)" for tup in tuples)
        rs_body.append(f"    static IN_{name}: &[({'u64, ' * k})] = &[{tab}];")
        pat = "(" + ", ".join(vars_) + ",)"
        fmt = " ".join(["{}"] * k)
        rs_body.append(f"    for &{pat} in IN_{name} {{ p(&format!(\"{name} {fmt}\", {', '.join(vars_)}), "
                       f"std::panic::catch_unwind(|| show(&{name}({', '.join(vars_)})))); }}")
        ltab = ", ".join("[" + ", ".join(str(v) for v in tup) + "]" for tup in tuples)
        label = " ++ \" \" ++ ".join([f"\"{name}\""] + [f"toString (r.getD {i} 0)" for i in range(k)])
        lean_body.append(f"#eval show IO Unit from do\n  for r in ([{ltab}] : List (List Nat)) do\n"
                         f"    IO.println ({label} ++ \" => \" ++ toString ({lean_expr}))")
    rs = ['#![allow(dead_code, unused_parens, arithmetic_overflow, unconditional_panic)]',
          'include!("' + os.path.join(HERE, "suite.rs") + '");',
          'trait Show { fn show(&self) -> String; }',
          'impl Show for u64 { fn show(&self) -> String { format!("{}", self) } }',
          'impl Show for u32 { fn show(&self) -> String { format!("{}", self) } }',
          'impl Show for u16 { fn show(&self) -> String { format!("{}", self) } }',
          'impl Show for u8 { fn show(&self) -> String { format!("{}", self) } }',
          'impl Show for usize { fn show(&self) -> String { format!("{}", self) } }',
          'impl Show for bool { fn show(&self) -> String { format!("{}", self) } }',
          'impl Show for Nt { fn show(&self) -> String { format!("{}", self.0) } }',
          'impl<A: Show, B: Show> Show for (A, B) { fn show(&self) -> String '
          '{ format!("({}, {})", self.0.show(), self.1.show()) } }',
          'impl<A: Show, B: Show, C: Show> Show for (A, B, C) { fn show(&self) -> String '
          '{ format!("({}, ({}, {}))", self.0.show(), self.1.show(), self.2.show()) } }',
          'impl<A: Show, B: Show, C: Show, D: Show> Show for (A, B, C, D) { fn show(&self) -> String '
          '{ format!("({}, ({}, ({}, {})))", self.0.show(), self.1.show(), self.2.show(), self.3.show()) } }',
          'impl<A: Show> Show for Option<A> { fn show(&self) -> String { match self '
          '{ Some(x) => format!("(some {})", x.show()), None => "none".to_string() } } }',
          'impl<A: Show> Show for Result<A, String> { fn show(&self) -> String { match self '
          '{ Ok(x) => format!("(some {})", x.show()), Err(_) => "none".to_string() } } }',
          'impl<A: Show> Show for Vec<A> { fn show(&self) -> String '
          '{ format!("[{}]", self.iter().map(|x| x.show()).collect::<Vec<_>>().join(", ")) } }',
          'fn show<T: Show>(x: &T) -> String { x.show() }',
          'fn p(l: &str, r: std::thread::Result<String>) { match r { Ok(s) => println!("{} => {}", l, s), '
          'Err(_) => println!("{} => panic", l) } }',
          'fn t_kf(a: u64, b: u64) -> (u64, u64) { let ks = vec![Kern { features: Kf::Plain { fee: a }, excess: String::new() }, '
          'Kern { features: Kf::Coinbase, excess: String::new() }, Kern { features: Kf::Locked { fee: b, lock: a % 1000 }, excess: String::new() }, '
          'Kern { features: Kf::Nrd { fee: a ^ b, rel: 7 }, excess: String::new() }, '
          'Kern { features: Kf::Locked { fee: 5, lock: b % 777 }, excess: String::new() }]; (h_fee(&ks), h_lock(&ks)) }',
          'fn t_kfm(a: u64, b: u64) -> u64 { let ks = vec![Kern { features: Kf::Plain { fee: a }, excess: String::new() }, '
          'Kern { features: Kf::Coinbase, excess: String::new() }, Kern { features: Kf::Locked { fee: b, lock: a % 1000 }, excess: String::new() }, '
          'Kern { features: Kf::Nrd { fee: a ^ b, rel: 7 }, excess: String::new() }, '
          'Kern { features: Kf::Locked { fee: 5, lock: b % 777 }, excess: String::new() }]; h_kfm(&ks, b) }',
          'fn t_wt(a: u64, b: u64, c: u64) -> u64 { let w = match a % 3 { 0 => Wt::AsTx, 1 => Wt::AsLimited(b), _ => Wt::NoLimit }; '
          'match h_verify(w, c, 40000) { Ok(()) => 1, Err(_) => 0 } }',
          'fn main() {', '    std::panic::set_hook(Box::new(|_| {}));'] + rs_body + ['}']
    open(os.path.join(WORK, "main.rs"), "w").write("\n".join(rs) + "\n")
    r = subprocess.run(["rustc", "-O", "-C", "overflow-checks=off", "-A", "warnings", "-o",
                        os.path.join(WORK, "suite"), os.path.join(WORK, "main.rs")], capture_output=True, text=True)
    if r.returncode != 0:
        print("rustc failed:\n" + r.stderr[-3000:])
        return 1
    rust_out = subprocess.run([os.path.join(WORK, "suite")], capture_output=True, text=True).stdout.strip().split("\n")
    body = lean.replace("end GV.Gen.Fns\n", "")
    body += ("instance : ToString (Option Nat) := "
             "⟨fun o => match o with | some x => s!\"(some {x})\" | none => \"none\"⟩\n")
    body += "\n".join(lean_body) + "\nend GV.Gen.Fns\n"
    lf = os.path.join(WORK, "Selftest.lean")
    open(lf, "w").write(body)
    r = subprocess.run(["lake", "env", "lean", lf], cwd=os.path.join(HERE, "..", "..", "lean"),
                       capture_output=True, text=True)
    lean_out = [l for l in r.stdout.strip().split("\n") if " => " in l]
    if r.returncode != 0 or len(lean_out) != len(rust_out):
        print("lean failed or line count differs:", r.returncode, len(lean_out), len(rust_out))
        print((r.stdout + r.stderr)[-3000:])
        return 1
    diffs = [(a, b) for a, b in zip(rust_out, lean_out) if a != b]
    per = {}
    for a in rust_out:
        per[a.split(" ")[0]] = per.get(a.split(" ")[0], 0) + 1
    panics = sum(1 for a in rust_out if a.endswith("=> panic"))
    print(f"{len(rust_out)} evaluations of {len(per)} functions compared "
          f"({panics} panics, identical on both sides); {len(diffs)} differences")
    for a, b in diffs[:20]:
        print("  RUST:", a, "\n  LEAN:", b)
    if not diffs and "--keep" not in sys.argv:
        shutil.rmtree(WORK, ignore_errors=True)
    return 1 if diffs else 0


if __name__ == "__main__":
    sys.exit(main())
