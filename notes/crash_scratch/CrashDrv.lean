import GrinVerif.Drv.CrashD
open GV GV.Drv
partial def loop (h : IO.FS.Stream) (out : IO.FS.Stream) (s : CrashD.St) (n ok bad : Nat) : IO Unit := do
  let line ← h.getLine
  if line.isEmpty then
    out.putStrLn s!"# lines={n} ok={ok} bad={bad}"
    return ()
  let line := line.trimAscii.toString
  if line.isEmpty || line.startsWith "#" then loop h out s n ok bad
  else
    let (lhs, impl) := match line.splitOn " => " with
      | [a, b] => (a, b)
      | [a] => (a, "")
      | a :: rest => (a, " => ".intercalate rest)
      | [] => ("", "")
    match splitWs lhs with
    | _ :: args =>
      let (s', v) := CrashD.handle s args impl.trimAscii.toString
      match v with
      | .ok => loop h out s' (n+1) (ok+1) bad
      | .fail m => out.putStrLn s!"FAIL {n+1} {lhs} model={m} impl={impl}"; loop h out s' (n+1) ok (bad+1)
      | .diff m => out.putStrLn s!"DIFF {n+1} {lhs} model={m} impl={impl}"; loop h out s' (n+1) ok (bad+1)
      | .unknown => out.putStrLn s!"UNK {n+1} {lhs}"; loop h out s' (n+1) ok (bad+1)
      | .note m => out.putStrLn s!"NOTE {n+1} {m}"; loop h out s' (n+1) (ok+1) bad
    | [] => loop h out s n ok bad
def main : IO Unit := do loop (← IO.getStdin) (← IO.getStdout) {} 0 0 0
