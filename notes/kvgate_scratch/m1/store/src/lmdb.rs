// Copyright 2021 The Grin Developers
//
// Licensed under the Apache License, Version 2.0 (the "License");
// you may not use this file except in compliance with the License.
// You may obtain a copy of the License at
//
//     http://www.apache.org/licenses/LICENSE-2.0
//
// Unless required by applicable law or agreed to in writing, software
// distributed under the License is distributed on an "AS IS" BASIS,
// WITHOUT WARRANTIES OR CONDITIONS OF ANY KIND, either express or implied.
// See the License for the specific language governing permissions and
// limitations under the License.

//! Storage of core types using LMDB.

use heed::types::Bytes;
use heed::{Database, Env, EnvOpenOptions, RoTxn, RwTxn, WithoutTls};
use std::cell::RefCell;
use std::collections::HashMap;
use std::marker::PhantomData;
use std::path::Path;
use std::rc::Rc;
use std::sync::atomic::{AtomicBool, AtomicU32, Ordering};
use std::sync::{mpsc, Arc, OnceLock};
use std::time::Duration;
use std::{fs, thread};

use crate::grin_core::global;
use crate::grin_core::ser::{self, DeserializationMode, ProtocolVersion};
use crate::util::RwLock;

/// number of bytes to grow the database by when needed
pub const ALLOC_CHUNK_SIZE_DEFAULT: usize = 134_217_728; //128 MB
/// And for test mode, to avoid too much disk allocation on windows
pub const ALLOC_CHUNK_SIZE_DEFAULT_TEST: usize = 1_048_576; //1 MB
/// Minimal percent of used space when resizing must be performed.
const RESIZE_PERCENT: f32 = 0.9;
/// Want to ensure that each resize gives us at least this %
/// of total space free
const RESIZE_MIN_TARGET_PERCENT: u128 = 65;

/// Main error type for this lmdb
#[derive(Clone, Eq, PartialEq, Debug, thiserror::Error)]
pub enum Error {
	/// Couldn't find what we were looking for
	#[error("DB Not Found Error: {0}")]
	NotFoundErr(String),
	/// Wraps an error originating from LMDB
	#[error("LMDB error: {0}")]
	LmdbErr(String),
	/// Wraps a serialization error for Writeable or Readable
	#[error("Serialization Error: {0}")]
	SerErr(ser::Error),
	/// File handling error
	#[error("File handling Error: {0}")]
	FileErr(String),
	/// Other error
	#[error("Other Error: {0}")]
	OtherErr(String),
}

impl From<heed::Error> for Error {
	fn from(e: heed::Error) -> Error {
		Error::LmdbErr(e.to_string())
	}
}

impl From<ser::Error> for Error {
	fn from(e: ser::Error) -> Error {
		Error::SerErr(e)
	}
}

/// unwraps the inner option by converting the none case to a not found error
pub fn option_to_not_found<T, F>(res: Result<Option<T>, Error>, field_name: F) -> Result<T, Error>
where
	F: Fn() -> String,
{
	match res {
		Ok(None) => Err(Error::NotFoundErr(field_name())),
		Ok(Some(o)) => Ok(o),
		Err(e) => Err(e),
	}
}

const DEFAULT_DB_VERSION: ProtocolVersion = ProtocolVersion(3);

/// Default environment.
pub const DEFAULT_ENV_NAME: &'static str = "lmdb";
/// Default multi-database environment without prefixes.
const DEFAULT_MULTI_DB_ENV_NAME: &'static str = "multi_lmdb";
/// Migration completion marker in the default database.
const MIGRATION_COMPLETE_KEY: &[u8] = b"__grin_migration_complete";
/// Prefix key separator.
pub const PREFIX_KEY_SEPARATOR: u8 = b':';

/// Mapping of database path to environment state.
static ENV_MAP: OnceLock<RwLock<HashMap<String, EnvState>>> = OnceLock::new();

thread_local! {
	static THREAD_TX_COUNTS: RefCell<HashMap<String, u32>> = RefCell::new(HashMap::new());
}

/// State of active database environment.
struct EnvState {
	env: Env<WithoutTls>,
	open_txs_count: AtomicU32,
	resizing: AtomicBool,
	resize_checking: AtomicBool,
	stores_count: AtomicU32,
}

/// LMDB-backed store facilitating data access and serialization. All writes
/// are done through a Batch abstraction providing atomicity.
pub struct Store {
	env: Env<WithoutTls>,
	env_path: String,
	pre_dbs: Arc<HashMap<u8, Database<Bytes, Bytes>>>,
	def_db: Database<Bytes, Bytes>,
	version: ProtocolVersion,
	alloc_chunk_size: usize,
}

impl Drop for Store {
	fn drop(&mut self) {
		{
			let mut w_map = ENV_MAP.get().unwrap().write();
			let stores_count = w_map
				.get(&self.env_path)
				.unwrap()
				.stores_count
				.load(Ordering::Relaxed);
			w_map
				.get_mut(&self.env_path)
				.unwrap()
				.stores_count
				.store(stores_count - 1, Ordering::Relaxed);
		}
		let no_stores = {
			ENV_MAP
				.get()
				.unwrap()
				.read()
				.get(&self.env_path)
				.unwrap()
				.stores_count
				.load(Ordering::Relaxed)
				== 0
		};
		if no_stores {
			let mut w_map = ENV_MAP.get().unwrap().write();
			w_map.remove(&self.env_path);
		}
	}
}

impl Store {
	/// Create a new LMDB env under the provided directory.
	/// Creates default environment named "multi_lmdb".
	/// Be aware of transactional semantics in lmdb
	/// (transactions are per environment, not per database).
	/// Data from non-default `env_name` and prefixes will be
	/// migrated into default multi db env file if needed.
	pub fn new(
		root_path: &str,
		env_name: Option<&str>,
		db_name: Option<&str>,
		prefixes: Vec<u8>,
		max_readers: Option<u32>,
		db_migration_prog_tx: Option<mpsc::Sender<i8>>,
	) -> Result<Store, Error> {
		let full_path = Path::new(root_path)
			.join(DEFAULT_MULTI_DB_ENV_NAME)
			.to_str()
			.unwrap()
			.to_string();
		fs::create_dir_all(&full_path).map_err(|e| {
			Error::FileErr(format!(
				"Unable to create {:?} to store data: {:?}",
				full_path, e
			))
		})?;

		let alloc_chunk_size = match global::is_production_mode() {
			true => ALLOC_CHUNK_SIZE_DEFAULT,
			false => ALLOC_CHUNK_SIZE_DEFAULT_TEST,
		};

		// Environment setup.
		let env_map = ENV_MAP.get_or_init(|| RwLock::new(HashMap::new()));
		let has_env = {
			let r_env_map = env_map.read();
			r_env_map.contains_key(&full_path)
		};
		if !has_env {
			let env = unsafe {
				let mut options = EnvOpenOptions::new().read_txn_without_tls();
				let mut env_options = options.max_dbs(24);
				if let Some(max_readers) = max_readers {
					env_options = env_options.max_readers(max_readers);
				}
				env_options.open(&full_path)?
			};
			debug!("DB Mapsize is {}", env.info().map_size);
			let mut w_env_map = env_map.write();
			w_env_map.insert(
				full_path.clone(),
				EnvState {
					env,
					open_txs_count: AtomicU32::new(0),
					resizing: AtomicBool::new(false),
					resize_checking: AtomicBool::new(false),
					stores_count: AtomicU32::new(1),
				},
			);
		} else {
			let mut w_env_map = env_map.write();
			let stores_count = w_env_map
				.get(&full_path)
				.unwrap()
				.stores_count
				.load(Ordering::Relaxed);
			w_env_map
				.get_mut(&full_path)
				.unwrap()
				.stores_count
				.store(stores_count + 1, Ordering::Relaxed);
		}

		// Database setup.
		let s = {
			let r_env_map = env_map.read();
			let env = r_env_map.get(&full_path).unwrap().env.clone();
			let mut write = env.write_txn()?;
			let def_name = db_name.unwrap_or(DEFAULT_ENV_NAME);
			let def_db = env.create_database(&mut write, Some(def_name))?;
			let mut dbs_map = HashMap::<u8, Database<Bytes, Bytes>>::new();
			for p in prefixes {
				let db = env.create_database(&mut write, Some(p.to_string().as_str()))?;
				dbs_map.insert(p, db);
			}
			write.commit()?;

			let s = Store {
				env: env.clone(),
				env_path: full_path.clone(),
				pre_dbs: Arc::new(dbs_map),
				def_db,
				version: DEFAULT_DB_VERSION,
				alloc_chunk_size,
			};
			s
		};

		// Migrate to default environment if needed.
		let env_name = env_name.unwrap_or(DEFAULT_ENV_NAME);
		if env_name != DEFAULT_MULTI_DB_ENV_NAME {
			let migrate_from = Path::new(root_path).join(env_name);
			if migrate_from.exists() {
				let delete_old_db_file = || -> Result<(), Error> {
					match fs::remove_dir_all(&migrate_from) {
						Ok(_) => Ok(()),
						Err(e) => {
							return Err(Error::FileErr(format!(
								"Can not remove old DB file: {:?}",
								e
							)));
						}
					}
				};
				if s.migration_complete()? {
					if let Err(e) = delete_old_db_file() {
						return Err(e);
					}
				} else {
					let _ = s.clear();
					match s.migrate_to_default_env(db_name, &migrate_from, db_migration_prog_tx) {
						Ok(_) => {
							if let Err(e) = delete_old_db_file() {
								return Err(e);
							}
						}
						Err(e) => {
							error!("DB {} migration error: {:?}", env_name, e);
							match s.clear() {
								Ok(_) => {}
								Err(e) => {
									error!(
										"Can not clear new DB after unsuccessful migration: {:?}",
										e
									)
								}
							}
							return Err(e);
						}
					}
				}
			}
		}

		Ok(s)
	}

	/// Check if migration has already completed successfully.
	fn migration_complete(&self) -> Result<bool, Error> {
		let read = self.env.read_txn()?;
		Ok(self.def_db.get(&read, MIGRATION_COMPLETE_KEY)?.is_some())
	}

	/// Mark migration as successfully completed.
	fn set_migration_complete(&self, write: &mut RwTxn<'_>) -> Result<(), Error> {
		self.def_db.put(write, MIGRATION_COMPLETE_KEY, b"1")?;
		Ok(())
	}

	/// Migrate database from provided path to default environment.
	fn migrate_to_default_env(
		&self,
		from_name: Option<&str>,
		from_path: &Path,
		db_migration_prog_tx: Option<mpsc::Sender<i8>>,
	) -> Result<(), Error> {
		info!("Migrating DB {:?}, please wait...", from_path);

		if let Some(migration_prog_tx) = &db_migration_prog_tx {
			let _ = migration_prog_tx.send(0i8);
		}

		let from_env = unsafe {
			let mut options = EnvOpenOptions::new().read_txn_without_tls();
			let env_options = options.max_dbs(24);
			env_options.open(from_path)?
		};
		let from_used = env_size(&from_env);
		let to_used = env_size(&self.env);
		let to_map_size = self.env.info().map_size;

		// Leave headroom so the migrated env is not immediately above the resize threshold.
		let used = to_used.saturating_add(from_used) as u128;
		let required = ((used * 100 + RESIZE_MIN_TARGET_PERCENT - 1) / RESIZE_MIN_TARGET_PERCENT)
			.min(usize::MAX as u128) as usize;
		let required = round_size_to_chunk(required, self.alloc_chunk_size);

		if required > to_map_size {
			unsafe {
				self.env.resize(required)?;
			}
		}
		let db_from = {
			let mut write = from_env.write_txn()?;
			let db: Database<Bytes, Bytes> = from_env.create_database(&mut write, from_name)?;
			write.commit()?;
			db
		};
		let mut write_to = self.env.write_txn()?;
		let read_from = from_env.read_txn()?;
		let mut count = 0;
		let total = db_from.iter(&read_from)?.count();
		let mut prev_prog = 0;
		for (index, kv) in db_from.iter(&read_from)?.enumerate() {
			if let Some(migration_prog_tx) = &db_migration_prog_tx {
				let prog = 100 * index / total;
				if prev_prog != prog && prog != 100 {
					prev_prog = prog;
					let _ = migration_prog_tx.send(prog as i8);
				}
			}
			let (k, v) = kv?;
			if k.len() > 1 && k[1] == PREFIX_KEY_SEPARATOR {
				let db_name = k.split_at(1).0;
				if let Some(db) = self.pre_dbs.get(&db_name[0]) {
					let key = k.split_at(2).1;
					db.put(&mut write_to, key, &v)?;
					count += 1;
				} else {
					warn!("Migration: unknown DB key: {}", db_name[0]);
				}
			} else {
				self.def_db.put(&mut write_to, k, &v)?;
				count += 1;
			}
		}
		self.set_migration_complete(&mut write_to)?;
		write_to.commit()?;

		if let Some(migration_prog_tx) = &db_migration_prog_tx {
			let _ = migration_prog_tx.send(100i8);
		}

		info!("Migrated {} records from {:?}", count, from_path);
		Ok(())
	}

	/// Get number of active environment transactions.
	fn open_txs_count(&self) -> u32 {
		ENV_MAP
			.get()
			.unwrap()
			.read()
			.get(&self.env_path)
			.unwrap()
			.open_txs_count
			.load(Ordering::Relaxed)
	}

	/// Try to acquire the resize check guard.
	fn start_resize_checking(&self) -> bool {
		ENV_MAP
			.get()
			.unwrap()
			.read()
			.get(&self.env_path)
			.unwrap()
			.resize_checking
			.compare_exchange(false, true, Ordering::AcqRel, Ordering::Acquire)
			.is_ok()
	}

	/// Release the resize check guard.
	fn finish_resize_checking(&self) {
		ENV_MAP
			.get()
			.unwrap()
			.read()
			.get(&self.env_path)
			.unwrap()
			.resize_checking
			.store(false, Ordering::Release);
	}

	/// Set flag if environment is waiting for resize.
	fn set_resizing(&self, resizing: bool) {
		ENV_MAP
			.get()
			.unwrap()
			.read()
			.get(&self.env_path)
			.unwrap()
			.resizing
			.store(resizing, Ordering::Release);
	}

	/// Resize database environment if needed.
	fn maybe_resize(&self) {
		if !self.start_resize_checking() {
			return;
		}

		let (resize, new_size) = needs_resize(&self.env, self.alloc_chunk_size);
		if !resize {
			self.finish_resize_checking();
			return;
		}

		let env_path = self.env_path.clone();
		let env = self.env.clone();

		self.set_resizing(true);

		// Resize immediately or at another thread to not interrupt current
		// transaction waiting all open transactions to be closed.
		if self.open_txs_count() != 0 {
			debug!("Waiting txs to be closed before DB {} resize", env_path);
			thread::spawn(move || {
				loop {
					let txs_count = ENV_MAP
						.get()
						.unwrap()
						.read()
						.get(&env_path)
						.unwrap()
						.open_txs_count
						.load(Ordering::Relaxed);
					if txs_count == 0 {
						debug!("Start resizing DB {}", env_path);
						break;
					}
					thread::sleep(Duration::from_millis(100));
				}

				unsafe {
					match env.resize(new_size) {
						Ok(_) => debug!("End resizing DB {}", env_path),
						Err(e) => error!("Resize DB {} error: {:?}", env_path, e),
					}
				}

				let mut w_env_map = ENV_MAP.get().unwrap().write();
				let env_state = w_env_map.get_mut(&env_path).unwrap();
				env_state.resizing.store(false, Ordering::Release);
				env_state.resize_checking.store(false, Ordering::Release);
			});
		} else {
			debug!("Start immediate resizing DB {}", env_path);
			unsafe {
				match env.resize(new_size) {
					Ok(_) => debug!("End resizing DB {}", env_path),
					Err(e) => error!("Resize DB {} error: {:?}", env_path, e),
				}
			}
			self.set_resizing(false);
			self.finish_resize_checking();
		}
	}

	/// Clear all data from database environment.
	fn clear(&self) -> Result<(), Error> {
		let mut w = self.env.write_txn()?;
		self.def_db.clear(&mut w)?;
		for db in self.pre_dbs.values() {
			db.clear(&mut w)?;
		}
		w.commit()?;
		Ok(())
	}

	/// Protocol version for the store.
	pub fn protocol_version(&self) -> ProtocolVersion {
		self.version
	}

	/// Get database from provided key or return default.
	fn get_db(&self, db_key: Option<u8>) -> Result<&Database<Bytes, Bytes>, Error> {
		match db_key {
			Some(db) => {
				if let Some(db) = self.pre_dbs.get(&db) {
					Ok(db)
				} else {
					Err(Error::OtherErr("db for provided key not found".to_string()))
				}
			}
			None => Ok(&self.def_db),
		}
	}

	/// Gets a value from the database, provided its key.
	/// Deserializes the retrieved data using the provided function.
	fn get_with<F, T>(
		&self,
		db_key: Option<u8>,
		key: &[u8],
		read: &RoTxn,
		deserialize: F,
	) -> Result<Option<T>, Error>
	where
		F: Fn(&[u8], &[u8]) -> Result<T, Error>,
	{
		let db = self.get_db(db_key)?;
		let res: Option<&[u8]> = db.get(read, key)?;
		match res {
			None => Ok(None),
			Some(res) => deserialize(key, res).map(Some),
		}
	}

	/// Gets a `Readable` value from the database, provided its key.
	/// Note: Creates a new read transaction so will *not* see any uncommitted data.
	pub fn get_ser<T: ser::Readable>(
		&self,
		db_key: Option<u8>,
		key: &[u8],
		deser_mode: Option<DeserializationMode>,
	) -> Result<Option<T>, Error> {
		let _tx_counter = self.enter_tx()?;

		let res = {
			let d = match deser_mode {
				Some(d) => d,
				_ => DeserializationMode::default(),
			};
			match self.env.read_txn() {
				Ok(read) => self.get_with(db_key, key, &read, |_, mut data| {
					ser::deserialize(&mut data, self.protocol_version(), d).map_err(From::from)
				}),
				Err(e) => Err(Error::from(e)),
			}
		};
		res
	}

	/// Whether the key exists at the provided database key.
	pub fn exists(&self, db_key: Option<u8>, key: &[u8]) -> Result<bool, Error> {
		let _tx_counter = self.enter_tx()?;

		let res = {
			match self.env.read_txn() {
				Ok(read) => {
					let db_res = self.get_db(db_key);
					match db_res {
						Ok(db) => {
							let res = db.get(&read, key);
							match res {
								Ok(r) => Ok(r.is_some()),
								Err(e) => Err(Error::from(e)),
							}
						}
						Err(e) => Err(Error::from(e)),
					}
				}
				Err(e) => Err(Error::from(e)),
			}
		};
		res
	}

	/// Produces an iterator from the provided database key.
	pub fn iter<'a, F, T>(
		&self,
		db_key: Option<u8>,
		deserialize: F,
	) -> Result<DatabaseIterator<'a, F, T>, Error>
	where
		F: Fn(&[u8], &[u8]) -> Result<T, Error>,
	{
		let tx_counter = self.enter_tx()?;

		let res = {
			match self.env.clone().static_read_txn() {
				Ok(read) => {
					let db_res = self.get_db(db_key);
					match db_res {
						Ok(db) => DatabaseIterator::new(
							Arc::new(db.clone()),
							Some(tx_counter),
							read,
							deserialize,
						),
						Err(e) => Err(Error::from(e)),
					}
				}
				Err(e) => Err(Error::from(e)),
			}
		};
		res
	}

	/// Builds a new batch to be used with this store.
	pub fn batch(&self) -> Result<Batch<'_>, Error> {
		self.maybe_resize();
		Batch::new(self)
	}

	/// Increment the open-tx counter, blocking during resize unless this thread already holds a tx.
	fn enter_tx(&self) -> Result<TxCounter, Error> {
		let start = std::time::Instant::now();
		loop {
			let mut map = ENV_MAP.get().unwrap().write();
			let state = map.get_mut(&self.env_path).unwrap();
			let nested_tx = THREAD_TX_COUNTS.with(|txs| {
				txs.borrow()
					.get(&self.env_path)
					.is_some_and(|count| *count > 0)
			});
			if !state.resizing.load(Ordering::Acquire) || nested_tx {
				state.open_txs_count.fetch_add(1, Ordering::Relaxed);
				THREAD_TX_COUNTS.with(|txs| {
					let mut txs = txs.borrow_mut();
					*txs.entry(self.env_path.clone()).or_insert(0) += 1;
				});
				return Ok(TxCounter {
					env_path: self.env_path.clone(),
					_not_send: PhantomData,
				});
			}
			drop(map);
			if start.elapsed() > Duration::from_secs(5) {
				return Err(Error::OtherErr("busy resizing".to_string()));
			}
			thread::sleep(Duration::from_millis(10));
		}
	}
}

/// Environment transactions counter, allows to decrement value on drop.
pub struct TxCounter {
	env_path: String,
	_not_send: PhantomData<Rc<()>>,
}

impl Drop for TxCounter {
	fn drop(&mut self) {
		THREAD_TX_COUNTS.with(|txs| {
			let mut txs = txs.borrow_mut();
			if let Some(count) = txs.get_mut(&self.env_path) {
				*count -= 1;
				if *count == 0 {
					txs.remove(&self.env_path);
				}
			}
		});
		let mut w_env_map = ENV_MAP.get().unwrap().write();
		let env_state = w_env_map.get_mut(&self.env_path).unwrap();
		let open_txs_count = env_state.open_txs_count.load(Ordering::Relaxed);
		env_state
			.open_txs_count
			.store(open_txs_count - 1, Ordering::Relaxed);
	}
}

/// Batch to write multiple Writeables to the database in an atomic manner.
pub struct Batch<'a> {
	store: &'a Store,
	write: RwTxn<'a>,
	#[allow(dead_code)]
	tx_counter: Option<TxCounter>,
}

impl<'a> Batch<'a> {
	/// Creates a new batch for provided store.
	pub fn new(store: &'a Store) -> Result<Batch<'a>, Error> {
		let tx_counter = store.enter_tx()?;
		let write = store.env.write_txn()?;
		Ok(Batch {
			store,
			write,
			tx_counter: Some(tx_counter),
		})
	}

	/// Writes a single key/value pair to the provided database key.
	pub fn put(&mut self, db_key: Option<u8>, key: &[u8], value: &[u8]) -> Result<(), Error> {
		let db = self.store.get_db(db_key)?;
		let w = &mut self.write;
		db.put(w, key, value)?;
		Ok(())
	}

	/// Writes a single key and its `Writeable` value to the provided database key.
	/// Encapsulates serialization using the (default) version configured on the store instance.
	pub fn put_ser<W: ser::Writeable>(
		&mut self,
		db_key: Option<u8>,
		key: &[u8],
		value: &W,
	) -> Result<(), Error> {
		self.put_ser_with_version(db_key, key, value, self.store.protocol_version())
	}

	/// Protocol version used by this batch.
	pub fn protocol_version(&self) -> ProtocolVersion {
		self.store.protocol_version()
	}

	/// Writes a single key and its `Writeable` value to the provided database key.
	/// Encapsulates serialization using the specified protocol version.
	pub fn put_ser_with_version<W: ser::Writeable>(
		&mut self,
		db_key: Option<u8>,
		key: &[u8],
		value: &W,
		version: ProtocolVersion,
	) -> Result<(), Error> {
		let ser_value = ser::ser_vec(value, version);
		match ser_value {
			Ok(data) => self.put(db_key, key, &data),
			Err(err) => Err(err.into()),
		}
	}

	/// Low-level access for retrieving data by key.
	/// Takes a function for flexible deserialization.
	fn get_with<F, T>(
		&self,
		db_key: Option<u8>,
		key: &[u8],
		deserialize: F,
	) -> Result<Option<T>, Error>
	where
		F: Fn(&[u8], &[u8]) -> Result<T, Error>,
	{
		let read = self.write.nested_read_txn()?;
		self.store.get_with(db_key, key, &read, deserialize)
	}

	/// Whether the provided key exists.
	/// This is in the context of the current write transaction.
	pub fn exists(&self, db_key: Option<u8>, key: &[u8]) -> Result<bool, Error> {
		let read = self.write.nested_read_txn()?;
		let db = self.store.get_db(db_key)?;
		let res = db.get(&read, key)?;
		Ok(res.is_some())
	}

	/// Produces an iterator from the provided database key.
	pub fn iter<F, T>(
		&'a self,
		db_key: Option<u8>,
		deserialize: F,
	) -> Result<DatabaseIterator<'a, F, T>, Error>
	where
		F: Fn(&[u8], &[u8]) -> Result<T, Error>,
	{
		let res = {
			match self.write.nested_read_txn() {
				Ok(read) => {
					let db_res = self.store.get_db(db_key);
					match db_res {
						Ok(db) => {
							DatabaseIterator::new(Arc::new(db.clone()), None, read, deserialize)
						}
						Err(e) => Err(Error::from(e)),
					}
				}
				Err(e) => Err(Error::from(e)),
			}
		};
		res
	}

	/// Gets a `Readable` value from the database by provided key and deserialization strategy.
	pub fn get_ser<T: ser::Readable>(
		&self,
		db_key: Option<u8>,
		key: &[u8],
		deser_mode: Option<DeserializationMode>,
	) -> Result<Option<T>, Error> {
		let d = match deser_mode {
			Some(d) => d,
			_ => DeserializationMode::default(),
		};
		self.get_with(db_key, key, |_, mut data| {
			match ser::deserialize(&mut data, self.protocol_version(), d) {
				Ok(res) => Ok(res),
				Err(e) => Err(From::from(e)),
			}
		})
	}

	/// Deletes a key/value pair from the database.
	pub fn delete(&mut self, db_key: Option<u8>, key: &[u8]) -> Result<(), Error> {
		let db = self.store.get_db(db_key)?;
		db.delete(&mut self.write, key)?;
		Ok(())
	}

	/// Writes the batch to database.
	pub fn commit(self) -> Result<(), Error> {
		#[cfg(grin_verif)]
		crate::verif_hooks::crash_point("lmdb:before-commit");

		self.write.commit()?;

		#[cfg(grin_verif)]
		crate::verif_hooks::crash_point("lmdb:after-commit");

		Ok(())
	}

	/// Creates a child of this batch. It will be merged with its parent on
	/// commit, abandoned otherwise.
	pub fn child(&mut self) -> Result<Batch<'_>, Error> {
		let res = {
			match self.store.env.nested_write_txn(&mut self.write) {
				Ok(write) => Ok(Batch {
					store: self.store,
					write,
					tx_counter: None,
				}),
				Err(e) => Err(Error::from(e)),
			}
		};
		res
	}
}

/// An iterator based on database key.
/// Caller is responsible for deserialization of the data.
pub struct DatabaseIterator<'a, F, T>
where
	F: Fn(&[u8], &[u8]) -> Result<T, Error>,
{
	db: Arc<Database<Bytes, Bytes>>,
	read: Arc<RoTxn<'a, WithoutTls>>,
	keys: Vec<Vec<u8>>,
	skip_cur: usize,
	skip_total: usize,
	done: bool,
	deserialize: F,
	#[allow(dead_code)]
	tx_counter: Option<TxCounter>,
}

impl<F, T> Iterator for DatabaseIterator<'_, F, T>
where
	F: Fn(&[u8], &[u8]) -> Result<T, Error>,
{
	type Item = Result<T, Error>;

	fn next(&mut self) -> Option<Self::Item> {
		loop {
			if self.done {
				return None;
			} else if let Some(k) = self.keys.iter().skip(self.skip_cur).next() {
				self.skip_total += 1;
				self.skip_cur += 1;
				match self.db.get(&self.read, k) {
					Ok(v) => {
						if let Some(v) = v {
							return match (self.deserialize)(k, v) {
								Ok(v) => Some(Ok(v)),
								Err(e) => {
									error!("db iter: error deserializing: {}", e);
									Some(Err(Error::from(e)))
								}
							};
						}
					}
					Err(e) => {
						return {
							error!("db iter: error read value: {}", e);
							Some(Err(Error::from(e)))
						}
					}
				}
			} else if let Err(e) = self.load_next_keys() {
				error!("db iter: error read keys: {}", e);
				self.done = true;
				return Some(Err(e));
			}
		}
	}
}

impl<'a, F, T> DatabaseIterator<'a, F, T>
where
	F: Fn(&[u8], &[u8]) -> Result<T, Error>,
{
	/// Initialize a new prefix iterator.
	pub fn new(
		db: Arc<Database<Bytes, Bytes>>,
		tx_counter: Option<TxCounter>,
		read: RoTxn<'a, WithoutTls>,
		deserialize: F,
	) -> Result<DatabaseIterator<'a, F, T>, Error> {
		// load keys before constructing tx_counter to avoid double-decrementing open_txs_count on error
		let keys = Self::read_key_page(&db, &read, 0)?;
		let done = keys.is_empty();
		Ok(DatabaseIterator {
			db,
			read: Arc::new(read),
			keys,
			skip_cur: 0,
			skip_total: 0,
			done,
			deserialize,
			tx_counter,
		})
	}

	fn load_next_keys(&mut self) -> Result<(), Error> {
		self.keys = Self::read_key_page(&self.db, &self.read, self.skip_total)?;
		self.skip_cur = 0;
		self.done = self.keys.is_empty();
		Ok(())
	}

	fn read_key_page(
		db: &Database<Bytes, Bytes>,
		read: &RoTxn<'a, WithoutTls>,
		skip: usize,
	) -> Result<Vec<Vec<u8>>, Error> {
		let iter = db.iter(read)?;
		iter.move_between_keys()
			.skip(skip)
			.take(10000)
			.map(|kv| kv.map(|(k, _)| k.to_vec()).map_err(Error::from))
			.collect::<Result<Vec<Vec<u8>>, Error>>()
	}
}

/// Get environment size.
fn env_size(env: &Env<WithoutTls>) -> usize {
	let info = env.info();
	let stat = env.stat();
	stat.page_size as usize * info.last_page_number
}

/// Round size proportionally to chunk size.
fn round_size_to_chunk(size: usize, chunk_size: usize) -> usize {
	let rem = size % chunk_size;
	if rem == 0 {
		size
	} else {
		size + (chunk_size - rem)
	}
}

/// Determines whether the environment needs a resize based on a simple percentage threshold.
pub fn needs_resize(env: &Env<WithoutTls>, alloc_chunk_size: usize) -> (bool, usize) {
	let env_info = env.info();
	let size_used = env_size(env);
	trace!("DB map size: {}", env_info.map_size);
	trace!("Space used: {}", size_used);
	trace!("Space remaining: {}", env_info.map_size - size_used);
	let resize_percent = RESIZE_PERCENT;
	trace!(
		"Percent used: {:.*}  Percent threshold: {:.*}",
		4,
		size_used as f64 / env_info.map_size as f64,
		4,
		resize_percent
	);

	let resize = if size_used as f32 / env_info.map_size as f32 > resize_percent
		|| env_info.map_size < alloc_chunk_size
	{
		trace!("Resize threshold met (percent-based)");
		true
	} else {
		trace!("Resize threshold not met (percent-based)");
		false
	};

	let new_size = if resize {
		if env_info.map_size < alloc_chunk_size {
			alloc_chunk_size
		} else {
			let mut tot = env_info.map_size - (env_info.map_size % alloc_chunk_size);
			while size_used as f32 / tot as f32 > RESIZE_MIN_TARGET_PERCENT as f32 / 100.0 {
				tot += alloc_chunk_size;
			}
			tot
		}
	} else {
		env_info.map_size
	};

	if resize {
		debug!("Resizing DB to {} from {}", new_size, env_info.map_size);
	}

	(resize, new_size)
}
