import GrinVerif.Props.C18
#print axioms GV.Props.C18.op_during_pending_resize_returns_spec
#print axioms GV.Props.C18.code_op_during_pending_resize_returns_spec
#print axioms GV.Props.C18.gated_txns_are_counted
#print axioms GV.Props.C18.excluded_shapes_witness
#print axioms GV.Props.C18.shape_is_the_modelled_gate
#print axioms GV.Props.C18.gate_shape_ok
#print axioms GV.Props.C18.read_your_writes
