/// Ill-formed UTF-8: every one of these must make a string field refuse (`CorruptedData`) wherever
/// it sits in the string. Lone / stray bytes, truncated sequences, a lead byte followed by a
/// non-continuation byte, overlong encodings, UTF-16 surrogates, code points above U+10FFFF, the
/// 5- and 6-byte forms of the original UTF-8.
const BAD_UTF8: [&[u8]; 30] = [
	// bytes that never occur / lone continuation bytes
	&[0xff], &[0xfe], &[0x80], &[0xbf], &[0x80, 0x80],
	// truncated lead bytes (2-, 3-, 4-byte sequences cut short)
	&[0xc2], &[0xdf], &[0xe2], &[0xe2, 0x82], &[0xf0], &[0xf0, 0x9f], &[0xf0, 0x9f, 0x9a],
	// a lead byte followed by something that is not a continuation byte
	&[0xc3, 0x28], &[0xe2, 0x28, 0xa1], &[0xe2, 0x82, 0x28], &[0xf0, 0x28, 0x8c, 0xbc], &[0xf0, 0x90, 0x8c, 0x28],
	// overlong encodings of U+0000, U+007F, U+07FF, U+FFFF
	&[0xc0, 0x80], &[0xc1, 0xbf], &[0xe0, 0x80, 0x80], &[0xe0, 0x9f, 0xbf], &[0xf0, 0x80, 0x80, 0x80], &[0xf0, 0x8f, 0xbf, 0xbf],
	// UTF-16 surrogates U+D800, U+DFFF and a CESU-8 surrogate pair
	&[0xed, 0xa0, 0x80], &[0xed, 0xbf, 0xbf], &[0xed, 0xa0, 0xbd, 0xed, 0xb8, 0x80],
	// above U+10FFFF, and the 5- / 6-byte forms
	&[0xf4, 0x90, 0x80, 0x80], &[0xf5, 0x80, 0x80, 0x80], &[0xf8, 0x88, 0x80, 0x80, 0x80], &[0xfc, 0x84, 0x80, 0x80, 0x80, 0x80],
];

/// well-formed boundary cases of the same classes: the last code point of each length, the neighbours
/// of the surrogate gap, U+10FFFF — these must be ACCEPTED and come back byte for byte
const GOOD_UTF8: [&[u8]; 9] = [
	&[0x7f], &[0xc2, 0x80], &[0xdf, 0xbf], &[0xe0, 0xa0, 0x80], &[0xed, 0x9f, 0xbf], &[0xee, 0x80, 0x80],
	&[0xef, 0xbf, 0xbf], &[0xf0, 0x90, 0x80, 0x80], &[0xf4, 0x8f, 0xbf, 0xbf],
];

/// `head ++ len-prefixed string ++ tail`, for every ill-formed sequence at the start, in the middle, at
/// the end and alone: `T`'s reader must refuse each (an accepted one that re-encodes differently is
/// an oracle failure of its own, printed by `dec_case`); and for the well-formed boundary strings it
/// must accept and re-encode identically.
fn string_field_cases<T: Ty>(cx: &mut Ctx, head: &[u8], tail: &[u8], versions: &[u32]) {
	let assemble = |s: &[u8]| {
		let mut m = head.to_vec();
		m.extend_from_slice(&(s.len() as u64).to_be_bytes());
		m.extend_from_slice(s);
		m.extend_from_slice(tail);
		m
	};
	for bad in BAD_UTF8.iter() {
		let mut places: Vec<Vec<u8>> = vec![bad.to_vec()];
		let mut s = b"a".to_vec();
		s.extend_from_slice(bad);
		places.push(s);
		let mut s = bad.to_vec();
		s.push(b'a');
		places.push(s);
		let mut s = b"MW/Grin ".to_vec();
		s.extend_from_slice(bad);
		s.extend_from_slice(" 5.4 \u{e9}".as_bytes());
		places.push(s);
		for (k, s) in places.iter().enumerate() {
			let v = versions.get(k % versions.len().max(1)).cloned().unwrap_or(1);
			let m = assemble(s);
			dec_case::<T>(cx, v, false, 'A', &m, None, Expect::Reject, "invalid-utf8");
			cx.stat(format!("{} string field ill-formed UTF-8 cases", T::NAME));
		}
	}
	for good in GOOD_UTF8.iter() {
		let mut s = b"x".to_vec();
		s.extend_from_slice(good);
		s.push(b'y');
		for s in [good.to_vec(), s].iter() {
			let m = assemble(s);
			if dec_case::<T>(cx, 1, false, 'A', &m, None, Expect::Any, "valid-utf8-boundary").is_none() {
				cx.oracle_fail(format!("{} does not decode from its own encoding: a well-formed UTF-8 string field ({}) is refused: {} [version 1]", T::NAME, hex(s), hex(&m)));
			}
		}
	}
	// the empty string, on purpose
	cx.corner(&format!("{}:empty-string-field", T::NAME));
	if dec_case::<T>(cx, 1, false, 'A', &assemble(&[]), None, Expect::Any, "empty-string").is_none() {
		cx.oracle_fail(format!("{} does not decode from its own encoding: an empty string field is refused: {} [version 1]", T::NAME, hex(&assemble(&[]))));
	}
}

fn messages(cx: &mut Ctx) {
	for (name, real) in [
		("max_peer_addrs", grin_p2p::types::MAX_PEER_ADDRS as u64),
		("max_locators", grin_p2p::types::MAX_LOCATORS as u64),
		("capabilities_all", Capabilities::all().bits() as u64),
		("msg_header_len", MsgHeader::LEN as u64),
	]
	.iter()
	{
		cx.out.line(&format!("ser const {}", name), &real.to_string());
	}
	msg_headers(cx);
	let n = if cx.thorough { 200 } else { 36 };
	// PeerAddr
	for i in 0..n {
		let a = gen_addr(&mut cx.rng, i as u64);
		roundtrip_all(cx, 'A', false, &a, true);
		if let Some(b) = own_enc(cx, &a, 1) {
			generic_mutations::<PeerAddr>(cx, 1, false, 'A', &b, 19, 6);
		}
		// every tag byte other than 0 is read as V6
		for _ in 0..2 {
			let t = cx.rng.range(2, 255) as u8;
			let mut m = vec![t, cx.rng.next() as u8 | 0x20];
			m.extend_from_slice(&cx.rng.bytes(17));
			dec_case::<PeerAddr>(cx, 1, false, 'A', &m, None, Expect::Reject, "unknown-address-tag");
		}
	}
	for a in odd_addrs().iter() {
		roundtrip_all(cx, 'A', false, a, true);
	}
	// Hand / Shake
	for i in 0..n {
		let h = Hand {
			version: pver(&mut cx.rng),
			capabilities: caps_of(&mut cx.rng),
			nonce: pick_u64(&mut cx.rng),
			genesis: hash32(&mut cx.rng),
			total_difficulty: Difficulty::from_num(pick_u64(&mut cx.rng)),
			sender_addr: gen_addr(&mut cx.rng, i as u64),
			receiver_addr: gen_addr(&mut cx.rng, (i / 6) as u64),
			user_agent: user_agent(&mut cx.rng, i),
		};
		if h.user_agent.is_empty() {
			cx.corner("Hand:empty-user-agent");
		}
		roundtrip_all(cx, 'A', false, &h, true);
		let s = Shake {
			version: pver(&mut cx.rng),
			capabilities: caps_of(&mut cx.rng),
			genesis: hash32(&mut cx.rng),
			total_difficulty: Difficulty::from_num(pick_u64(&mut cx.rng)),
			user_agent: user_agent(&mut cx.rng, i + 1),
		};
		if s.user_agent.is_empty() {
			cx.corner("Shake:empty-user-agent");
		}
		roundtrip_all(cx, 'A', false, &s, true);
		let (hb, sb) = match (own_enc(cx, &h, 1), own_enc(cx, &s, 1)) {
			(Some(hb), Some(sb)) => (hb, sb),
			_ => continue,
		};
		if h.user_agent.len() < 100 {
			generic_mutations::<Hand>(cx, 1, false, 'A', &hb, 10, 16);
			generic_mutations::<Shake>(cx, 3, false, 'A', &sb, 10, 16);
		}
		// capability bits outside the defined flags
		for bits in [0x80u32, 0xffff_ffff, 0x8000_0001, 1 << cx.rng.range(7, 31)].iter() {
			match (patched(&hb, 4, &bits.to_be_bytes()), patched(&sb, 4, &bits.to_be_bytes())) {
				(Some(mh), Some(ms)) => {
					dec_case::<Hand>(cx, 1, false, 'A', &mh, None, Expect::Any, "unknown-capability-bits");
					dec_case::<Shake>(cx, 1, false, 'A', &ms, None, Expect::Any, "unknown-capability-bits");
				}
				_ => layout_fail(cx, "Hand / Shake", &hb, 1),
			}
			dec_case::<GetPeerAddrs>(cx, 1, false, 'A', &bits.to_be_bytes(), None, Expect::Any, "unknown-capability-bits");
		}
		// a user agent that is not UTF-8 / longer than one read may be: in the Shake AND in the Hand
		let bad = BAD_UTF8[i % BAD_UTF8.len()];
		let s_ua_off = sb.len().checked_sub(32 + s.user_agent.len() + 8);
		let h_ua_off = hb.len().checked_sub(32 + h.user_agent.len() + 8);
		match (s_ua_off.and_then(|o| sb.get(..o)), sb.get(sb.len().saturating_sub(32)..), h_ua_off.and_then(|o| hb.get(..o)), hb.get(hb.len().saturating_sub(32)..)) {
			(Some(s_head), Some(s_tail), Some(h_head), Some(h_tail)) => {
				let with_ua = |head: &[u8], len: u64, body: &[u8], tail: &[u8]| {
					let mut m = head.to_vec();
					m.extend_from_slice(&len.to_be_bytes());
					m.extend_from_slice(body);
					m.extend_from_slice(tail);
					m
				};
				let mut ua = vec![b'a'];
				ua.extend_from_slice(bad);
				dec_case::<Shake>(cx, 1, false, 'A', &with_ua(s_head, ua.len() as u64, &ua, s_tail), None, Expect::Reject, "invalid-utf8");
				dec_case::<Hand>(cx, 1, false, 'A', &with_ua(h_head, ua.len() as u64, &ua, h_tail), None, Expect::Reject, "invalid-utf8");
				dec_case::<Shake>(cx, 1, false, 'A', &with_ua(s_head, 100_001, &vec![b'a'; 200], &[]), None, Expect::Reject, "string-over-cap");
				dec_case::<Hand>(cx, 1, false, 'A', &with_ua(h_head, 100_001, &vec![b'a'; 200], &[]), None, Expect::Reject, "string-over-cap");
				if i == 0 {
					// the whole ill-formed UTF-8 catalogue in every position of the string, both messages
					string_field_cases::<Shake>(cx, s_head, s_tail, &[1, 2, 3, 1000]);
					string_field_cases::<Hand>(cx, h_head, h_tail, &[1, 2, 3, 1000]);
				}
			}
			_ => layout_fail(cx, "Hand / Shake", &sb, 1),
		}
		// GetPeerAddrs, Ping, Pong, TxHashSet*, SegmentRequest, PeerError
		let g = GetPeerAddrs { capabilities: caps_of(&mut cx.rng) };
		roundtrip_all(cx, 'A', false, &g, true);
		let pi = Ping { total_difficulty: Difficulty::from_num(pick_u64(&mut cx.rng)), height: pick_u64(&mut cx.rng) };
		roundtrip_all(cx, 'A', false, &pi, true);
		let po = Pong { total_difficulty: Difficulty::from_num(pick_u64(&mut cx.rng)), height: pick_u64(&mut cx.rng) };
		roundtrip_all(cx, 'A', false, &po, true);
		let tr = TxHashSetRequest { hash: hash32(&mut cx.rng), height: pick_u64(&mut cx.rng) };
		roundtrip_all(cx, 'A', false, &tr, true);
		// the first archives announce a zero-length / one-byte attachment on purpose
		let ta = TxHashSetArchive {
			hash: hash32(&mut cx.rng),
			height: pick_u64(&mut cx.rng),
			bytes: match i {
				0 | 1 => 0,
				2 => 1,
				_ => pick_u64(&mut cx.rng),
			},
		};
		match ta.bytes {
			0 => cx.corner("TxHashSetArchive:0-bytes-attachment"),
			1 => cx.corner("TxHashSetArchive:1-byte-attachment"),
			_ => {}
		}
		roundtrip_all(cx, 'A', false, &ta, true);
		let sr = SegmentRequest { block_hash: hash32(&mut cx.rng), identifier: gen_seg_id(&mut cx.rng) };
		roundtrip_all(cx, 'A', false, &sr, true);
		let pe = PeerError { code: pick_u64(&mut cx.rng) as u32, message: user_agent(&mut cx.rng, i + 2) };
		if pe.message.is_empty() {
			cx.corner("PeerError:empty-message");
		}
		roundtrip_all(cx, 'A', false, &pe, true);
		if i < 8 {
			if let (Some(bpi), Some(bta), Some(bsr), Some(bpe)) = (own_enc(cx, &pi, 1), own_enc(cx, &ta, 1), own_enc(cx, &sr, 1), own_enc(cx, &pe, 1)) {
				generic_mutations::<Ping>(cx, 1, false, 'A', &bpi, 16, 2);
				generic_mutations::<TxHashSetArchive>(cx, 1, false, 'A', &bta, 48, 2);
				generic_mutations::<SegmentRequest>(cx, 1, false, 'A', &bsr, 41, 2);
				generic_mutations::<PeerError>(cx, 1, false, 'A', &bpe, 12, 6);
			}
			let mut m = pe.code.to_be_bytes().to_vec();
			m.extend_from_slice(&(bad.len() as u64).to_be_bytes());
			m.extend_from_slice(bad);
			dec_case::<PeerError>(cx, 1, false, 'A', &m, None, Expect::Reject, "invalid-utf8");
		}
		if i == 0 {
			string_field_cases::<PeerError>(cx, &pe.code.to_be_bytes(), &[], &[1, 3]);
		}
	}
	// user agents / messages of the greatest length one read may have (100 000 bytes) and one more:
	// the first must round-trip, the second is written by the writer and refused by the reader
	for (len, ok) in [(100_000usize, true), (100_001, false)].iter() {
		let ua = "u".repeat(*len);
		let h = Hand {
			version: ProtocolVersion(1000),
			capabilities: Capabilities::default(),
			nonce: 1,
			genesis: hash32(&mut cx.rng),
			total_difficulty: Difficulty::from_num(1),
			sender_addr: gen_addr(&mut cx.rng, 0),
			receiver_addr: gen_addr(&mut cx.rng, 1),
			user_agent: ua.clone(),
		};
		let s = Shake {
			version: ProtocolVersion(1000),
			capabilities: Capabilities::default(),
			genesis: hash32(&mut cx.rng),
			total_difficulty: Difficulty::from_num(1),
			user_agent: ua.clone(),
		};
		let pe = PeerError { code: 7, message: ua };
		let exp = if *ok { Expect::Valid } else { Expect::Reject };
		let what = if *ok { "string-at-cap" } else { "string-over-cap" };
		if *ok {
			cx.corner("Hand:maximal-user-agent(100000 bytes)");
			cx.corner("Shake:maximal-user-agent(100000 bytes)");
			cx.corner("PeerError:maximal-message(100000 bytes)");
		}
		if let Some(b) = own_enc(cx, &h, 1) {
			dec_case::<Hand>(cx, 1, false, 'A', &b, Some(&h), exp, what);
		}
		if let Some(b) = own_enc(cx, &s, 1) {
			dec_case::<Shake>(cx, 1, false, 'A', &b, Some(&s), exp, what);
		}
		if let Some(b) = own_enc(cx, &pe, 1) {
			dec_case::<PeerError>(cx, 1, false, 'A', &b, Some(&pe), exp, what);
		}
	}
	// PeerAddrs: counts around MAX_PEER_ADDRS
	for (k, cnt) in [0usize, 1, 2, 7, 255, 256, 257, 300].iter().enumerate() {
		let peers: Vec<PeerAddr> = (0..*cnt).map(|j| gen_addr(&mut cx.rng, (j + k) as u64)).collect();
		let pa = PeerAddrs { peers };
		match cnt {
			0 => cx.corner("PeerAddrs:0-addrs"),
			1 => cx.corner("PeerAddrs:1-addr"),
			256 => cx.corner("PeerAddrs:maximal(256 addrs)"),
			_ => {}
		}
		let b = match own_enc(cx, &pa, 1) {
			Some(b) => b,
			None => continue,
		};
		if *cnt <= 256 {
			roundtrip_all(cx, 'A', false, &pa, *cnt <= 7);
		} else {
			// the writer does not refuse; the reader does
			dec_case::<PeerAddrs>(cx, 1, false, 'A', &b, None, Expect::Reject, "count-over-max-peer-addrs");
		}
		for c in [*cnt as u32 + 1, 257, 65536, u32::MAX].iter() {
			let exp = if *c > 256 { Expect::Reject } else { Expect::Any };
			match patched(&b, 0, &c.to_be_bytes()) {
				Some(m) => {
					dec_case::<PeerAddrs>(cx, 1, false, 'A', &m, None, exp, if *c > 256 { "count-over-max-peer-addrs" } else { "count-vs-content" });
				}
				None => layout_fail(cx, "PeerAddrs", &b, 1),
			}
		}
		if *cnt >= 1 && *cnt <= 7 {
			if let Some(m) = patched(&b, 0, &(*cnt as u32 - 1).to_be_bytes()) {
				dec_case::<PeerAddrs>(cx, 1, false, 'A', &m, None, Expect::Any, "count-vs-content");
			}
			generic_mutations::<PeerAddrs>(cx, 1, false, 'A', &b, 10, 10);
		}
	}
	{
		let pa = PeerAddrs { peers: odd_addrs() };
		roundtrip_all(cx, 'A', false, &pa, true);
	}
	// Locator: counts around MAX_LOCATORS, and the u8 count of the writer
	for cnt in [0usize, 1, 2, 19, 20, 21, 255, 256, 276].iter() {
		// over the limit the hashes are a fixed pattern so that the probe line names the whole value
		let l = Locator {
			hashes: (0..*cnt)
				.map(|j| if *cnt <= 20 { hash32(&mut cx.rng) } else { Hash::from_vec(&[(j % 256) as u8; 32]) })
				.collect(),
		};
		match cnt {
			0 => cx.corner("Locator:0-hashes"),
			1 => cx.corner("Locator:1-hash"),
			20 => cx.corner("Locator:maximal(20 hashes)"),
			_ => {}
		}
		if *cnt <= 20 {
			roundtrip_all(cx, 'A', false, &l, true);
			let b = match own_enc(cx, &l, 1) {
				Some(b) => b,
				None => continue,
			};
			let count_byte = b.first().cloned().unwrap_or(0);
			for c in [21u8, 22, 128, 255].iter() {
				if let Some(mut m) = patched(&b, 0, &[*c]) {
					m.extend_from_slice(&vec![0u8; 32 * 255]);
					dec_case::<Locator>(cx, 1, false, 'A', &m, None, Expect::Reject, "count-over-max-locators");
				}
			}
			if *cnt > 0 {
				if let Some(m) = patched(&b, 0, &[count_byte.wrapping_sub(1)]) {
					dec_case::<Locator>(cx, 1, false, 'A', &m, None, Expect::Any, "count-vs-content");
				}
			}
			if let Some(m) = patched(&b, 0, &[count_byte.wrapping_add(1)]) {
				dec_case::<Locator>(cx, 1, false, 'A', &m, None, Expect::Any, "count-vs-content");
			}
		} else {
			let b = match enc_case(cx, 1, 'A', &l) {
				Ok(b) => b,
				Err(_) => continue,
			};
			let head = hex(b.get(..34).unwrap_or(&b));
			let count_byte = b.first().cloned().unwrap_or(0);
			let value = format!("Locator {{ hashes: [h_0 .. h_{}] }} with h_j = 32 bytes of value j mod 256; encoding = {}… ({} bytes)", cnt - 1, head, b.len());
			match dec_full::<Locator>(&b, 1) {
				Err(e) => cx.out.raw(&format!(
					"#KNOWN-PROBE C10 locator-count-not-checked-by-writer: {}: written with count byte {:02x} and refused by Locator::read ({})",
					value, count_byte, e
				)),
				Ok((d, consumed)) => cx.out.raw(&format!(
					"#KNOWN-PROBE C10 locator-count-not-checked-by-writer: {}: written with count byte {:02x} (len as u8) and read back as {} hashes leaving {} bytes unread",
					value, count_byte, d.hashes.len(), b.len().saturating_sub(consumed)
				)),
			}
		}
	}
	// BanReason: all reasons, unknown discriminants, short reads
	for r in ALL_REASONS.iter() {
		let br = BanReason { ban_reason: *r };
		cx.corner("BanReason:each-of-the-8-reasons");
		roundtrip_all(cx, 'A', false, &br, true);
	}
	for x in [8i32, 9, 255, 256, i32::MAX, -1, i32::MIN, 1 << 24].iter() {
		dec_case::<BanReason>(cx, 1, false, 'A', &x.to_be_bytes(), None, Expect::Reject, "unknown-ban-reason");
	}
	for l in 0..4usize {
		for fill in [0u8, 1, 7, 0xff].iter() {
			if l == 0 {
				cx.corner("BanReason:0-byte-body(accepted as None: known finding)");
			}
			dec_case::<BanReason>(cx, 1, false, 'A', &vec![*fill; l], None, Expect::Any, "short-read");
		}
	}
	dec_case::<BanReason>(cx, 2, false, 'A', &[0, 0, 0, 5, 9, 9], None, Expect::Any, "trailing");
	// Headers: writer only (there is no `Readable for Headers`; the codec streams it: C19)
	for chain in ['A', 'M'].iter() {
		for cnt in [0usize, 1, 2, 5].iter() {
			set_env(*chain, false);
			let hs: Vec<BlockHeader> = (0..*cnt).map(|_| gen_header(&mut cx.rng, *chain)).collect();
			let toks: Vec<String> = hs.iter().map(|h| header_tokens(h)).collect();
			let msg = Headers { headers: hs };
			match cnt {
				0 => cx.corner("Headers:0-headers"),
				1 => cx.corner("Headers:1-header"),
				_ => {}
			}
			for v in [1u32, 3].iter() {
				set_env(*chain, false);
				let eb = enc_at(&msg, *v);
				let lhs = format!("ser enc Headers {} {} {}{}{}", v, chain, cnt, if *cnt > 0 { " " } else { "" }, toks.join(" "));
				cx.out.line(&lhs, &format!("{} none", show_enc(&eb)));
				let b = match eb {
					Ok(b) => b,
					Err(e) => {
						cx.oracle_fail(format!("Headers cannot be encoded: {} headers ({}) [version {}]", cnt, e, v));
						continue;
					}
				};
				let mut expect = Some((*cnt as u16).to_be_bytes().to_vec());
				for h in &msg.headers {
					expect = match (expect, enc_at(h, *v)) {
						(Some(mut e), Ok(hb)) => {
							e.extend_from_slice(&hb);
							Some(e)
						}
						_ => None,
					};
				}
				if expect.as_ref() != Some(&b) {
					cx.oracle_fail(format!("Headers re-encodes differently: encoding is not u16 count then the headers: {} [version {}]", hex(&b), v));
				}
			}
		}
	}
	{
		// `headers.len() as u16`: 65536 headers are written with a count of 0
		set_env('A', false);
		let h = gen_header(&mut cx.rng, 'A');
		let msg = Headers { headers: vec![h.clone(); 65536] };
		if let (Ok(b), Ok(hb)) = (enc_at(&msg, 1), enc_at(&h, 1)) {
			if b.get(..2) == Some(&[0u8, 0][..]) && b.len() > 2 {
				cx.out.raw(&format!(
					"#KNOWN-PROBE C10 headers-count-not-checked-by-writer: Headers {{ headers: 65536 copies of the header {} }} is written with count bytes {} (len as u16) followed by {} bytes of headers",
					hex(&hb),
					hex(b.get(..2).unwrap_or(&[])),
					b.len() - 2
				));
			}
		}
	}
}

