/// the corners of the size space, counted for `#STAT empties`
fn seg_corners<T: Item>(cx: &mut Ctx, nh: usize, nl: usize, np: usize, origin: &str) {
	let n = T::SEG_NAME;
	match np {
		0 => cx.corner(&format!("{}:proof-0-hashes({})", n, origin)),
		1 => cx.corner(&format!("{}:proof-1-hash({})", n, origin)),
		_ => {}
	}
	if nh == 0 && nl == 0 {
		cx.corner(&format!("{}:0-hashes-0-leaves({})", n, origin));
	}
	if nh == 0 && nl >= 1 {
		cx.corner(&format!("{}:0-hashes-k-leaves({})", n, origin));
	}
	if nh >= 1 && nl == 0 {
		cx.corner(&format!("{}:k-hashes-0-leaves-fully-pruned({})", n, origin));
	}
	if nh == 1 && nl == 0 {
		cx.corner(&format!("{}:1-hash-0-leaves({})", n, origin));
	}
	if nh == 0 && nl == 1 {
		cx.corner(&format!("{}:0-hashes-1-leaf({})", n, origin));
	}
	if nh == 0 && nl >= 1 && np == 0 {
		cx.corner(&format!("{}:whole-MMR-in-one-segment(0 hashes, k leaves, empty proof)({})", n, origin));
	}
}

/// everything that is done with one honest segment value
fn segment_cases<T: Item>(cx: &mut Ctx, s: &Segment<T>, i: usize, perturb: bool)
where
	Segment<T>: Ty,
{
	let (_, _, hs, _, ld, pf) = s.clone().parts();
	let (nh, nl) = (hs.len(), ld.len());
	cx.stat(format!(
		"{} hashes {} leaves {} proof {}",
		T::SEG_NAME,
		match nh { 0 => "0", 1 => "1", 2..=5 => "2-5", _ => ">5" },
		match nl { 0 => "0", 1 => "1", 2..=8 => "2-8", 9..=64 => "9-64", _ => ">64" },
		match pf.size() { 0 => "0", 1 => "1", 2..=5 => "2-5", _ => ">5" }
	));
	if nl > 64 {
		// big segments: one decode per wire format, no perturbations (line size)
		for v in [1u32, 1000].iter() {
			set_env('A', true);
			if let Some(b) = own_enc(cx, s, *v) {
				dec_case::<Segment<T>>(cx, *v, true, 'A', &b, Some(s), Expect::Valid, "valid");
			}
		}
		return;
	}
	roundtrip_all(cx, 'A', true, s, nl <= 8);
	if !perturb {
		return;
	}
	for v in [1u32, 2, 1000].iter() {
		set_env('A', true);
		let p = match SegParts::of(cx, s, *v, vec![], vec![]) {
			Some(p) => p,
			None => continue,
		};
		let bytes = p.bytes();
		match enc_at(s, *v) {
			Ok(real) if real == bytes => {}
			other => cx.oracle_fail(format!(
				"{} re-encodes differently: its encoding is not id, count, positions, hashes, count, positions, leaves, proof: writer {} assembled {} [version {}]",
				T::SEG_NAME,
				show_enc(&other),
				shown(&bytes),
				v
			)),
		}
		seg_mutations::<Segment<T>>(cx, *v, &p);
		if nl <= 12 {
			generic_mutations::<Segment<T>>(cx, *v, true, 'A', &bytes, 6, 10);
		}
		if T::SEG_NAME != "OutputSegment" && i % 2 == 1 {
			let resp = SegmentResponse { block_hash: hash32(&mut cx.rng), segment: s.clone() };
			if *v == 1 {
				roundtrip_all(cx, 'A', true, &resp, nl <= 2);
			}
			if let Some(pr) = SegParts::of(cx, s, *v, resp.block_hash.as_bytes().to_vec(), vec![]) {
				seg_mutations::<SegmentResponse<T>>(cx, *v, &pr);
			}
		}
	}
}

fn segments_of<T>(cx: &mut Ctx, n: usize, big: usize)
where
	T: Item + PMMRable<E = T> + std::fmt::Debug,
	Segment<T>: Ty,
{
	for i in 0..n {
		// (pruned-subtree hashes, leaves, proof hashes): every list empty / singleton on purpose
		let (nh, nl, np) = match i % 14 {
			0 => (0, 0, 0),
			1 => (1, 1, 1),
			2 => (0, 2, 3),
			3 => (5, 0, 0), // fully pruned, empty proof
			4 => (cx.rng.below(12) as usize, cx.rng.below(20) as usize, cx.rng.below(10) as usize),
			5 => (2, 8, 2),
			6 => (40, if T::SEG_NAME == "RangeProofSegment" { 12 } else { 64 }, 20),
			7 => (3, big, 7),
			8 => (0, 1 + cx.rng.below(8) as usize, 0), // the whole MMR in one segment: empty proof
			9 => (1, 0, 1),                            // fully pruned: the one hash from_pmmr keeps
			10 => (0, 1, 0),                           // one leaf, nothing else
			11 => (1 + cx.rng.below(6) as usize, 0, 1), // k hashes, no leaves
			12 => (0, 0, 1),
			_ => (1, 0, 0),
		};
		let style = cx.rng.next();
		let s: Segment<T> = match gen_segment(cx, nh, nl, np, style) {
			Some(s) => s,
			None => continue,
		};
		seg_corners::<T>(cx, nh, nl, np, "from_parts");
		segment_cases(cx, &s, i, true);
	}
	// honest segments over in-memory MMRs, proofs by `SegmentProof::generate` (no decoder involved in
	// making the value): 1, 2, 3, … leaves, every height up to 3, every index. idx 0 with
	// n <= 2^height is the whole MMR in one segment, whose proof is EMPTY.
	let sizes: &[u64] = if cx.thorough { &[1, 2, 3, 4, 5, 6, 7, 8, 9, 11, 16, 21] } else if T::SEG_NAME == "RangeProofSegment" { &[1, 2, 3, 5] } else { &[1, 2, 3, 4, 5, 7, 8] };
	for (k, n_leaves) in sizes.iter().enumerate() {
		for s in honest_segments_of::<T>(cx, *n_leaves, 3) {
			let (_, _, hs, _, ld, pf) = s.clone().parts();
			seg_corners::<T>(cx, hs.len(), ld.len(), pf.size(), "from_pmmr");
			let small = pf.size() <= 1 || *n_leaves <= 3;
			segment_cases(cx, &s, k, small && (cx.thorough || T::SEG_NAME == "OutputSegment" || pf.size() == 0));
		}
	}
}

fn segments(cx: &mut Ctx) {
	cx.out.line("ser const max_segment_read_items", "1000000");
	honest_pool(cx);
	// identifiers and proofs on their own
	for i in 0..(if cx.thorough { 200 } else { 40 }) {
		let id = gen_seg_id(&mut cx.rng);
		roundtrip_all(cx, 'A', false, &id, true);
		if let Some(b) = own_enc(cx, &id, 1) {
			generic_mutations::<SegmentIdentifier>(cx, 1, false, 'A', &b, 9, 3);
		}
		// 0 and 1 hashes first, deliberately; then the rest
		let np = match i {
			0 | 1 => 0usize,
			2 | 3 => 1,
			_ => *cx.rng.pick(&[0usize, 1, 2, 10, 33]),
		};
		let hs: Vec<Hash> = (0..np).map(|_| hash32(&mut cx.rng)).collect();
		let pf = match proof_for(cx, &hs) {
			Some(pf) => pf,
			None => continue,
		};
		match np {
			0 => cx.corner("SegmentProof:0-hashes(reader)"),
			1 => cx.corner("SegmentProof:1-hash(reader)"),
			_ => {}
		}
		roundtrip_all(cx, 'A', false, &pf, true);
		if let Some(pb) = own_enc(cx, &pf, 1) {
			for c in [np as u64 + 1, 1_000_000, 1_000_001, u64::MAX].iter() {
				let exp = if *c > 1_000_000 { Expect::Reject } else { Expect::Any };
				match patched(&pb, 0, &c.to_be_bytes()) {
					Some(m) => {
						dec_case::<SegmentProof>(cx, 1, false, 'A', &m, None, exp, "count-over-cap");
					}
					None => layout_fail(cx, "SegmentProof", &pb, 1),
				}
			}
			generic_mutations::<SegmentProof>(cx, 1, false, 'A', &pb, 8, 4);
		}
	}
	// the honest proofs of the pool (made by `SegmentProof::generate`), the empty one first
	let pool: Vec<SegmentProof> = HONEST_PROOFS.with(|p| p.borrow().values().flat_map(|v| v.iter().take(2).cloned()).collect());
	for pf in pool.iter() {
		match pf.size() {
			0 => cx.corner("SegmentProof:0-hashes(from_pmmr)"),
			1 => cx.corner("SegmentProof:1-hash(from_pmmr)"),
			_ => {}
		}
		roundtrip_all(cx, 'A', false, pf, true);
	}
	let n = if cx.thorough { 56 } else { 16 };
	let big = if cx.thorough { 2000 } else { 300 };
	segments_of::<OutputIdentifier>(cx, n, big);
	segments_of::<TxKernel>(cx, n, big / 2);
	segments_of::<RangeProof>(cx, n, 20);
	// OutputSegmentResponse
	for i in 0..(if cx.thorough { 24 } else { 8 }) {
		let style = cx.rng.next();
		// i = 0: no hashes, one leaf, EMPTY proof; i = 4: one hash, one leaf, one proof hash
		let s: Segment<OutputIdentifier> = match gen_segment(cx, i % 4, 1 + i % 5, i % 3, style) {
			Some(s) => s,
			None => continue,
		};
		if i % 3 == 0 {
			cx.corner("OutputSegmentResponse:proof-0-hashes");
		}
		let r = OutputSegmentResponse {
			response: SegmentResponse { block_hash: hash32(&mut cx.rng), segment: s.clone() },
			output_bitmap_root: hash32(&mut cx.rng),
		};
		roundtrip_all(cx, 'A', false, &r, true);
		if let Some(p) = SegParts::of(cx, &s, 1, r.response.block_hash.as_bytes().to_vec(), r.output_bitmap_root.as_bytes().to_vec()) {
			seg_mutations::<OutputSegmentResponse>(cx, 1, &p);
			generic_mutations::<OutputSegmentResponse>(cx, 1, false, 'A', &p.bytes(), 8, 8);
		}
	}
	// honest whole-MMR output segments (empty proof) inside the two response messages
	for n_leaves in [1u64, 2, 4].iter() {
		for s in honest_segments_of::<OutputIdentifier>(cx, *n_leaves, 2) {
			let (_, _, _, _, _, pf) = s.clone().parts();
			if pf.size() > 1 {
				continue;
			}
			cx.corner(if pf.size() == 0 { "OutputSegmentResponse:proof-0-hashes(from_pmmr)" } else { "OutputSegmentResponse:proof-1-hash(from_pmmr)" });
			let r = OutputSegmentResponse {
				response: SegmentResponse { block_hash: hash32(&mut cx.rng), segment: s },
				output_bitmap_root: hash32(&mut cx.rng),
			};
			roundtrip_all(cx, 'A', false, &r, true);
		}
	}
	// a leaf position of u64::MAX cannot be written: `1 + pos` wraps to 0 (release arithmetic), which the reader refuses
	if let Some(pf) = proof_for(cx, &[]) {
		let s: Segment<OutputIdentifier> = Segment::from_parts(
			SegmentIdentifier { height: 0, idx: 0 },
			vec![],
			vec![],
			vec![u64::MAX],
			vec![OutputIdentifier::gen(&mut cx.rng, 0)],
			pf,
		);
		if let Ok(b) = enc_at(&s, 1) {
			cx.out.line(&format!("ser enc OutputSegment 1 A {}", seg_tokens(&s)), &format!("{} none", hex(&b)));
			dec_case::<Segment<OutputIdentifier>>(cx, 1, false, 'A', &b, None, Expect::Any, "pos-u64max-wraps");
		}
	}
}

// ---------------------------------------------------------------------------------------------
