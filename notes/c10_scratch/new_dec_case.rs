/// Print one `ser dec` line and evaluate the oracles. Returns the decoded value.
/// Nothing in here can take the harness down: the decoder, every re-encoding and every hash run
/// under `catch`; a failure is printed as `#ORACLE-FAIL C10 …` with the object and the run goes on.
fn dec_case<T: Ty>(
	cx: &mut Ctx,
	v: u32,
	nrd: bool,
	chain: char,
	bytes: &[u8],
	orig: Option<&T>,
	expect: Expect,
	what: &str,
) -> Option<T> {
	set_env(chain, nrd);
	cx.flush_gen_fails();
	let lhs = format!(
		"ser dec {} {} {} {} {}",
		T::NAME,
		v,
		if nrd { 1 } else { 0 },
		chain,
		hex(bytes)
	);
	match dec_full::<T>(bytes, v) {
		Err(en) if en.starts_with("panic(") => {
			cx.out.line(&lhs, "panic");
			cx.oracle_fail(format!("decoder of {} panicked {} on {} [version {}]", T::NAME, en, shown(bytes), v));
			if expect == Expect::Valid {
				cx.oracle_fail(format!("{} does not decode from its own encoding: {} ({}) [version {}]", T::NAME, shown(bytes), en, v));
			}
			cx.stat(format!("{} v{} {} panic", T::NAME, v, what));
			None
		}
		Err(en) => {
			cx.out.line(&lhs, &format!("err {}", en));
			cx.stat(format!("{} v{} {} err:{}", T::NAME, v, what, en));
			if expect == Expect::Valid {
				cx.oracle_fail(format!("{} does not decode from its own encoding: {} ({}) [version {}]", T::NAME, shown(bytes), en, v));
			}
			None
		}
		Ok((x, consumed)) => {
			let consumed = consumed.min(bytes.len());
			let eaten = bytes.get(..consumed).unwrap_or(bytes);
			let e1 = enc_at(&x, 1);
			let e2 = enc_at(&x, 2);
			let e3 = enc_at(&x, 3);
			let hs = match hash_of(&x) {
				Ok(h) => h,
				Err(m) => {
					cx.oracle_fail(format!("{} hash computation of the decoded value failed {}: {} [version {}]", T::NAME, m, shown(bytes), v));
					None
				}
			};
			cx.out.line(
				&lhs,
				&format!(
					"ok {} {} {} {} {}",
					consumed,
					show_enc(&e1),
					show_enc(&e2),
					show_enc(&e3),
					hs.clone().unwrap_or_else(|| "none".to_string())
				),
			);
			cx.stat(format!("{} v{} {} ok", T::NAME, v, what));
			// canonical form: what was accepted re-encodes to exactly the bytes consumed
			let ev = enc_at(&x, v);
			match &ev {
				Ok(re) if re[..] == *eaten => {}
				Ok(re) => {
					let layout = catch(AssertUnwindSafe(|| x.segs(v))).unwrap_or_default();
					if only_proof_len_differs(eaten, re, &layout) {
						cx.out.raw(&format!(
							"#KNOWN-PROBE C10 rangeproof-length-normalised: {} v{} accepts a range proof length field != 675 and re-encodes it as 675 ({} bytes in, {} bytes out)",
							T::NAME, v, consumed, re.len()
						));
						cx.stat(format!("{} v{} probe:rangeproof-length-normalised", T::NAME, v));
					} else {
						let tags = catch(AssertUnwindSafe(|| T::known_noncanon(eaten, re, &x, v))).unwrap_or_default();
						if tags.is_empty() {
							let kind = if expect == Expect::Valid { "its own encoding" } else { "an accepted non-canonical encoding" };
							cx.oracle_fail(format!(
								"{} re-encodes differently ({}): in={} out={} [version {}]",
								T::NAME,
								kind,
								shown(eaten),
								shown(re),
								v
							));
						}
						for t in tags {
							let shown = if consumed <= 400 {
								hex(eaten)
							} else {
								format!("{}… (first 80 of {} bytes; the whole input is on the preceding `ser dec` line)", hex(eaten.get(..80).unwrap_or(eaten)), consumed)
							};
							cx.out.raw(&format!(
								"#KNOWN-PROBE C10 {}: {} v{} accepts a non-canonical encoding and re-encodes it differently ({} bytes in, {} bytes out): {}",
								t, T::NAME, v, consumed, re.len(), shown
							));
							cx.stat(format!("{} v{} probe:{}", T::NAME, v, t));
						}
					}
				}
				Err(e) => {
					cx.oracle_fail(format!(
						"{} re-encodes differently: the decoded value cannot be re-encoded at its own version ({}): {} [version {}]",
						T::NAME,
						e,
						shown(bytes),
						v
					));
				}
			}
			if expect == Expect::Reject {
				cx.oracle_fail(format!("{} canonical-form violation ({}) accepted: {} [version {}]", T::NAME, what, shown(bytes), v));
			}
			if let (Some(o), Expect::Valid) = (orig, expect) {
				if consumed != bytes.len() {
					cx.oracle_fail(format!("{} decodes from its own encoding leaving {} of {} bytes unread: {} [version {}]", T::NAME, bytes.len() - consumed, bytes.len(), shown(bytes), v));
				}
				let same = catch(AssertUnwindSafe(|| o.same(&x, v)));
				if same != Ok(true) {
					let tags = catch(AssertUnwindSafe(|| o.known_differs(&x, v))).unwrap_or_default();
					if tags.is_empty() {
						cx.oracle_fail(format!("{} decodes from its own encoding to a different value: {} [version {}]", T::NAME, shown(bytes), v));
					}
					for t in tags {
						cx.out.raw(&format!(
							"#KNOWN-PROBE C10 {}: {} v{} written and read back is not the value that was written: {}",
							t, T::NAME, v, if bytes.len() <= 400 { hex(bytes) } else { format!("{}… (first 80 of {} bytes; the whole encoding is on the preceding `ser dec` line)", hex(bytes.get(..80).unwrap_or(bytes)), bytes.len()) }
						));
						cx.stat(format!("{} v{} probe:{}", T::NAME, v, t));
					}
				}
				if T::HASH_STABLE {
					match hash_of(o) {
						Ok(ho) if ho == hs => {}
						Ok(ho) => cx.oracle_fail(format!("{} hash differs across encode/decode: {:?} -> {:?} on {} [version {}]", T::NAME, ho, hs, shown(bytes), v)),
						Err(m) => cx.oracle_fail(format!("{} hash computation failed {}: {} [version {}]", T::NAME, m, shown(bytes), v)),
					}
				}
			}
			Some(x)
		}
	}
}

/// `ser enc` line: the model must produce the same bytes / error from the described value
fn enc_case<T: Ty>(cx: &mut Ctx, v: u32, chain: char, x: &T) -> Result<Vec<u8>, String> {
	set_env(chain, true);
	cx.flush_gen_fails();
	let e = enc_at(x, v);
	let d = catch(AssertUnwindSafe(|| x.describe())).unwrap_or_else(|_| UNDESCRIBABLE.to_string());
	if d.contains(UNDESCRIBABLE) {
		// the value cannot be taken apart (its own writer failed): no line for the model, but not silent
		cx.oracle_fail(format!("{} cannot be described field by field, its writer failed: {} [version {}]", T::NAME, show_enc(&e), v));
		cx.stat(format!("{} v{} enc undescribable", T::NAME, v));
		return e;
	}
	let lhs = format!("ser enc {} {} {} {}", T::NAME, v, chain, d);
	let hs = match hash_of(x) {
		Ok(h) => h,
		Err(m) => {
			cx.oracle_fail(format!("{} hash computation failed {}: {} [version {}]", T::NAME, m, d, v));
			None
		}
	};
	cx.out.line(
		&lhs,
		&format!(
			"{} {}",
			show_enc(&e),
			hs.unwrap_or_else(|| "none".to_string())
		),
	);
	cx.stat(format!("{} v{} enc {}", T::NAME, v, if e.is_ok() { "ok" } else { "err" }));
	if let Err(en) = &e {
		if en.starts_with("panic(") {
			cx.oracle_fail(format!("encoder of {} panicked {} on {} [version {}]", T::NAME, en, d, v));
		}
	}
	e
}

/// valid value: `enc` line + decode at every version + hash stays the same at every version
fn roundtrip_all<T: Ty>(cx: &mut Ctx, chain: char, nrd: bool, x: &T, with_enc_line: bool) {
	let h0 = match hash_of(x) {
		Ok(h) => h,
		Err(m) => {
			cx.oracle_fail(format!("{} hash computation failed {}", T::NAME, m));
			None
		}
	};
	for v in VERSIONS.iter() {
		let e = if with_enc_line {
			enc_case(cx, *v, chain, x)
		} else {
			set_env(chain, nrd);
			enc_at(x, *v)
		};
		match e {
			Ok(bytes) => {
				if let Some(d) = dec_case::<T>(cx, *v, nrd, chain, &bytes, Some(x), Expect::Valid, "valid") {
					if T::HASH_STABLE && hash_of(&d).ok().flatten() != h0 {
						cx.oracle_fail(format!("{} hash differs between versions (identity hash depends on protocol version {}): {}", T::NAME, v, shown(&bytes)));
					}
				}
			}
			Err(en) => {
				// writers that legitimately refuse (CommitOnly inputs below version 3) say so through
				// `writer_may_refuse`; anything else is an honest value that cannot be written
				if !x.writer_may_refuse(*v) {
					let d = catch(AssertUnwindSafe(|| x.describe())).unwrap_or_else(|_| UNDESCRIBABLE.to_string());
					cx.oracle_fail(format!("{} cannot be encoded: {} ({}) [version {}]", T::NAME, d, en, v));
				}
				cx.stat(format!("{} v{} valid enc-err:{}", T::NAME, v, en));
			}
		}
	}
}

