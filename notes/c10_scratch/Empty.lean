import GrinVerif.Props.C10Msg
import GrinVerif.Props.C10
namespace GV.Props.C10Msg
open GV GV.Ser GV.SerSeg GV.SerMsg

theorem hashesWF_nil : HashesWF [] := ⟨fun _ h => (List.not_mem_nil h).elim, Nat.zero_le _⟩

theorem hashesWF_singleton (h : Bytes) (hl : h.length = HASH_SIZE) : HashesWF [h] :=
  ⟨fun x hx => by simp only [List.mem_singleton] at hx; subst hx; exact hl,
   by simp only [List.length_singleton]; decide⟩

theorem segProof_empty_roundtrip (rest : Bytes) :
    encSegProof [] = [0, 0, 0, 0, 0, 0, 0, 0] ∧ decSegProof (encSegProof [] ++ rest) = .ok ([], rest) :=
  ⟨by decide, decSegProof_enc [] hashesWF_nil rest⟩

theorem segProof_singleton_roundtrip (h : Bytes) (hl : h.length = HASH_SIZE) (rest : Bytes) :
    decSegProof (encSegProof [h] ++ rest) = .ok ([h], rest) :=
  decSegProof_enc [h] (hashesWF_singleton h hl) rest

theorem posOK_nil : PosOK 0 [] := (posOK_zero_iff []).mpr ⟨List.Pairwise.nil, fun _ h => (List.not_mem_nil h).elim⟩

theorem segment_whole_mmr_roundtrip {α : Type} (p : Parser α) (w : α → Bytes) (id : SegId) (hid : id.WF)
    (lp : List Nat) (ld : List α) (hl : lp.length = ld.length) (hpo : PosOK 0 lp)
    (hc : ld.length ≤ MAX_SEGMENT_READ_ITEMS)
    (hrt : ∀ x ∈ ld, ∀ rest, p (w x ++ rest) = .ok (x, rest)) (rest : Bytes) :
    decSegment p (encSegment w { id := id, hashPos := [], hashes := [], leafPos := lp, leafData := ld, proof := [] } ++ rest)
      = .ok ({ id := id, hashPos := [], hashes := [], leafPos := lp, leafData := ld, proof := [] }, rest) :=
  decSegment_enc p w _ ⟨hid, rfl, posOK_nil, hashesWF_nil, hl, hpo, hc, hashesWF_nil⟩ hrt rest

theorem segment_fully_pruned_roundtrip {α : Type} (p : Parser α) (w : α → Bytes) (id : SegId) (hid : id.WF)
    (hp : List Nat) (hs : List Bytes) (hl : hp.length = hs.length) (hpo : PosOK 0 hp) (hh : HashesWF hs)
    (rest : Bytes) :
    decSegment p (encSegment w { id := id, hashPos := hp, hashes := hs, leafPos := [], leafData := [], proof := [] } ++ rest)
      = .ok ({ id := id, hashPos := hp, hashes := hs, leafPos := [], leafData := [], proof := [] }, rest) :=
  decSegment_enc p w _ ⟨hid, hl, hpo, hh, rfl, posOK_nil, Nat.zero_le _, hashesWF_nil⟩
    (fun _ h => (List.not_mem_nil h).elim) rest

theorem segment_empty_roundtrip {α : Type} (p : Parser α) (w : α → Bytes) (id : SegId) (hid : id.WF) (rest : Bytes) :
    decSegment p (encSegment w { id := id, hashPos := [], hashes := [], leafPos := [], leafData := [], proof := [] } ++ rest)
      = .ok ({ id := id, hashPos := [], hashes := [], leafPos := [], leafData := [], proof := [] }, rest) :=
  segment_fully_pruned_roundtrip p w id hid [] [] rfl posOK_nil hashesWF_nil rest

example : encSegment encOutputId
    ({ id := { height := 0, idx := 0 }, hashPos := [], hashes := [], leafPos := [], leafData := [], proof := [] } : Segment OutputId)
      = List.replicate 33 0 := by decide

theorem bitmapSegment_single_chunk_empty_proof_roundtrip (idx : Nat) (hidx : idx < 2^63)
    (b : BitmapBlock) (hb : b.WF) (h1 : b.nChunks = 1) (rest : Bytes) :
    decBitmapSegment (encBitmapSegment { id := { height := 0, idx := idx }, blocks := [b], proof := [] } ++ rest)
      = .ok ({ id := { height := 0, idx := idx }, blocks := [b], proof := [] }, rest) := by
  apply decBitmapSegment_enc
  refine ⟨⟨by simp only; decide, by simp only; omega⟩, ⟨1, ?_⟩, ?_, hashesWF_nil⟩
  · have h1' : ¬ (18446744073709551616 ≤ idx) := by omega
    have h2 : ¬ (9223372036854775808 ≤ idx) := by omega
    simp [validateBlocks, leafOffset, nChunksOf, maxChunks, MAX_BITMAP_SEGMENT_HEIGHT, h1, h1', h2]
  · intro x hx
    simp only [List.mem_singleton] at hx
    subst hx
    exact hb

/-- the all-zero single chunk is such a block -/
example : ({ nChunks := 1, v := 0 } : BitmapBlock).WF ∧ ({ nChunks := 1, v := 0 } : BitmapBlock).nChunks = 1 :=
  ⟨⟨by decide, Nat.pow_pos (by omega)⟩, rfl⟩

theorem locator_empty_roundtrip (rest : Bytes) :
    encLocator [] = [0] ∧ decLocator (encLocator [] ++ rest) = .ok ([], rest) :=
  ⟨by decide, decLocator_enc [] ⟨Nat.zero_le _, fun _ h => (List.not_mem_nil h).elim⟩ rest⟩

theorem peerAddrs_empty_roundtrip (rest : Bytes) :
    encPeerAddrs [] = [0, 0, 0, 0] ∧ decPeerAddrs (encPeerAddrs [] ++ rest) = .ok ([], rest) :=
  ⟨by decide, decPeerAddrs_enc [] ⟨Nat.zero_le _, fun _ h => (List.not_mem_nil h).elim⟩ rest⟩

theorem headers_empty_encoding {α : Type} (hw : α → Bytes) : encHeaders hw [] = [0, 0] := by
  rw [encHeaders_small hw [] (by simp only [List.length_nil]; decide)]
  simp only [List.length_nil, writeMulti, List.map_nil, List.flatten_nil, List.append_nil]
  decide

theorem stringWF_nil : StringWF [] := ⟨Nat.zero_le _, rfl⟩

theorem hand_empty_user_agent_roundtrip (h : Hand) (hwf : h.WF) (rest : Bytes) :
    ({ h with userAgent := [] } : Hand).WF ∧
    decHand (encHand { h with userAgent := [] } ++ rest) = .ok (({ h with userAgent := [] } : Hand).norm, rest) := by
  have hw : ({ h with userAgent := [] } : Hand).WF := by
    obtain ⟨a, b, c, d, e, f, g, _⟩ := hwf
    exact ⟨a, b, c, d, e, f, g, stringWF_nil⟩
  exact ⟨hw, decHand_enc _ hw rest⟩

theorem shake_empty_user_agent_roundtrip (s : Shake) (hwf : s.WF) (rest : Bytes) :
    decShake (encShake { s with userAgent := [] } ++ rest) = .ok ({ s with userAgent := [] }, rest) := by
  obtain ⟨a, b, c, d, _⟩ := hwf
  exact decShake_enc { s with userAgent := [] } ⟨a, b, c, d, stringWF_nil⟩ rest

theorem peerError_empty_message_roundtrip (code : Nat) (h : code < 2^32) (rest : Bytes) :
    decPeerError (encPeerError { code := code, message := [] } ++ rest) = .ok ({ code := code, message := [] }, rest) :=
  decPeerError_enc _ ⟨h, stringWF_nil⟩ rest

theorem string_max_length_roundtrip (s : Bytes) (hl : s.length = MAX_FIXED_READ) (hu : validUtf8 s = true) (rest : Bytes) :
    decString (writeBytes s ++ rest) = .ok (s, rest) := decString_write s ⟨Nat.le_of_eq hl, hu⟩ rest

end GV.Props.C10Msg

namespace GV.Props.C10
open GV GV.Ser

theorem txBody_empty_roundtrip (c : Cfg) (rest : Bytes) :
    ({ inputs := .commitOnly [], outputs := [], kernels := [] } : TxBody).WF c
    ∧ encTxBody c.key c.ver .full { inputs := .commitOnly [], outputs := [], kernels := [] } = .ok (List.replicate 24 0)
    ∧ decTxBody c (List.replicate 24 0 ++ rest)
        = .ok (({ inputs := .commitOnly [], outputs := [], kernels := [] } : TxBody).norm c, rest) := by
  have hwf : ({ inputs := .commitOnly [], outputs := [], kernels := [] } : TxBody).WF c := by
    refine ⟨?_, fun _ h => (List.not_mem_nil h).elim, List.Pairwise.nil, fun _ h => (List.not_mem_nil h).elim, List.Pairwise.nil,
      Nat.zero_le _, Nat.zero_le _, Nat.zero_le _, Nat.zero_le _⟩
    simp only [Inputs.WF]
    split
    · trivial
    · exact ⟨fun _ h => (List.not_mem_nil h).elim, List.Pairwise.nil⟩
  have henc : encTxBody c.key c.ver .full { inputs := .commitOnly [], outputs := [], kernels := [] }
      = .ok (List.replicate 24 0) := by
    simp [encTxBody, encInputs, Inputs.len, writeMulti]
    decide
  exact ⟨hwf, henc, decTxBody_enc c _ _ henc hwf rest⟩

end GV.Props.C10
