/-! Feasibility probe for DESIGN Appendix A.1 -/

def popcount : Nat → Nat
  | 0 => 0
  | n+1 => (n+1) % 2 + popcount ((n+1) / 2)
decreasing_by omega

/-- trailing one bits -/
def t1 : Nat → Nat
  | 0 => 0
  | n+1 => if (n+1) % 2 = 1 then 1 + t1 ((n+1)/2) else 0
decreasing_by omega

def mmr (n : Nat) : Nat := 2*n - popcount n

def greedy : Nat → Nat → Nat → Nat × Nat
  | 0, s, pm => (pm, s)
  | k+1, s, pm =>
    if s ≥ 2^(k+1) - 1 then greedy k (s - (2^(k+1) - 1)) (2*pm+1)
    else greedy k s (2*pm)

theorem popcount_le (n : Nat) : popcount n ≤ n := by
  induction n using Nat.strongRecOn with
  | _ n ih =>
    cases n with
    | zero => simp [popcount]
    | succ m =>
      rw [popcount]
      have := ih ((m+1)/2) (by omega)
      omega

theorem t1_le_popcount (n : Nat) : t1 n ≤ popcount n := by
  induction n using Nat.strongRecOn with
  | _ n ih =>
    cases n with
    | zero => simp [t1, popcount]
    | succ m =>
      rw [t1, popcount]
      have := ih ((m+1)/2) (by omega)
      split <;> omega

/-- popcount of 2^k + m for m < 2^k -/
theorem popcount_add_pow (k m : Nat) (h : m < 2^k) : popcount (2^k + m) = 1 + popcount m := by
  induction k generalizing m with
  | zero =>
    have : m = 0 := by simpa using h
    subst this; simp [popcount]
  | succ k ih =>
    have hp : 2^(k+1) = 2 * 2^k := by rw [Nat.pow_succ]; omega
    have hpos : 0 < 2^k := Nat.pow_pos (by omega)
    have e1 : 2^(k+1) + m = (2^(k+1) + m - 1) + 1 := by omega
    rw [e1, popcount, ← e1]
    have hdiv : (2^(k+1) + m) / 2 = 2^k + m/2 := by omega
    have hmod : (2^(k+1) + m) % 2 = m % 2 := by omega
    rw [hdiv, hmod, ih (m/2) (by omega)]
    cases m with
    | zero => simp [popcount]
    | succ m' => rw [popcount]; omega

theorem mmr_add_pow (k m : Nat) (h : m < 2^k) : mmr (2^k + m) = (2^(k+1) - 1) + mmr m := by
  unfold mmr
  rw [popcount_add_pow k m h]
  have := popcount_le m
  have hp : 2^(k+1) = 2 * 2^k := by rw [Nat.pow_succ]; omega
  have hpos : 0 < 2^k := Nat.pow_pos (by omega)
  omega

theorem t1_add_mul (k a m : Nat) (h : m < 2^k) : t1 (a * 2^(k+1) + m) = t1 m := by
  induction k generalizing m with
  | zero =>
    have : m = 0 := by simpa using h
    subst this
    cases ha : a * 2 ^ (0+1) + 0 with
    | zero => simp [t1]
    | succ n =>
      rw [t1]
      have : (n+1) % 2 = 0 := by rw [← ha]; omega
      simp [this, t1]
  | succ k ih =>
    have hp : 2^(k+1+1) = 2 * 2^(k+1) := by rw [Nat.pow_succ]; omega
    have hp' : 2^(k+1) = 2 * 2^k := by rw [Nat.pow_succ]; omega
    have hA : a * 2^(k+1+1) = 2 * (a * 2^(k+1)) := by rw [hp]; ac_rfl
    cases hn : a * 2 ^ (k+1+1) + m with
    | zero =>
      have : m = 0 := by omega
      subst this; simp [t1]
    | succ n =>
      rw [t1]
      have hdiv : (n+1) / 2 = a * 2^(k+1) + m/2 := by rw [← hn, hA]; omega
      have hmod : (n+1) % 2 = m % 2 := by rw [← hn, hA]; omega
      rw [hdiv, hmod, ih (m/2) (by omega)]
      cases m with
      | zero => simp [t1]
      | succ m' => rw [t1]

theorem greedy_spec (k : Nat) : ∀ (m pm h : Nat), m < 2^k → h ≤ t1 (pm * 2^k + m) →
    greedy k (mmr m + h) pm = (pm * 2^k + m, h) := by
  induction k with
  | zero =>
    intro m pm h hm _
    have : m = 0 := by simpa using hm
    subst this
    simp [greedy, mmr, popcount]
  | succ k ih =>
    intro m pm h hm hh
    have hp : 2^(k+1) = 2 * 2^k := by rw [Nat.pow_succ]; omega
    have hpos : 0 < 2^k := Nat.pow_pos (by omega)
    have hP : pm * 2^(k+1) = 2 * (pm * 2^k) := by rw [hp]; ac_rfl
    rw [greedy]
    by_cases hb : 2^k ≤ m
    · -- bit k set
      obtain ⟨m', rfl⟩ : ∃ m', m = 2^k + m' := ⟨m - 2^k, by omega⟩
      have hm' : m' < 2^k := by omega
      rw [mmr_add_pow k m' hm']
      have hge : 2 ^ (k + 1) - 1 + mmr m' + h ≥ 2 ^ (k + 1) - 1 := by omega
      rw [if_pos hge]
      have e : 2 ^ (k + 1) - 1 + mmr m' + h - (2 ^ (k + 1) - 1) = mmr m' + h := by omega
      have hn : (2*pm+1) * 2^k + m' = pm * 2^(k+1) + (2^k + m') := by
        rw [hP, Nat.add_mul]; rw [Nat.mul_assoc]; omega
      rw [e, ih m' (2*pm+1) h hm' (by rw [hn]; exact hh), hn]
    · -- bit k unset
      have hm' : m < 2^k := by omega
      have ht : t1 (pm * 2^(k+1) + m) = t1 m := t1_add_mul k pm m hm'
      have h1 := t1_le_popcount m
      have h2 := popcount_le m
      have hlt : ¬ (mmr m + h ≥ 2^(k+1) - 1) := by unfold mmr; omega
      rw [if_neg hlt]
      have hn : (2*pm) * 2^k + m = pm * 2^(k+1) + m := by rw [hP, Nat.mul_assoc]
      rw [ih m (2*pm) h hm' (by rw [hn]; exact hh), hn]
