import GrinVerif.Lemmas.DesegInv
namespace GV.Deseg
set_option profiler true
theorem t3 (s : St) : s.applyNextSegments = s := by
  unfold St.applyNextSegments
  sorry
end GV.Deseg
