import GrinVerif.Model.Deseg
import GrinVerif.Lemmas.SegForest
import GrinVerif.Lemmas.SegDsg
namespace GV.Deseg
open GV GV.Pmmr GV.Seg

example (h N : Nat) : nextRequiredKernel h N 5 = none := by
  unfold nextRequiredKernel
  simp only []
  trace_state
  sorry
end GV.Deseg
