import GrinVerif.Lemmas.DesegState
/-! `next_desired_segments` (`Model/Deseg.lean`, `St.desired`): everything it returns is a segment
`add_*_segment` accepts (asked height, inside the archive MMR), and in every regular state that is
not complete it contains the segment that comes next of some tree that is waiting for it — for a
request size of at least 2 (with a single slot the rangeproof tree's standing request for its last
segment can starve the output tree: `Props/C16Deseg.request_count_one_starves`). -/
namespace GV.Deseg
open GV GV.Pmmr GV.Seg

/-! ## the loops -/

theorem wantLoop_length (h a l : Nat) (cache : List Cached) (quota total : Nat) :
    ∀ (fuel idx added : Nat), added ≤ quota →
      (wantLoop h a l cache quota total idx added fuel).length + added ≤ quota := by
  intro fuel
  induction fuel with
  | zero => intro idx added ha; simp [wantLoop]; exact ha
  | succ f ih =>
    intro idx added ha
    simp only [wantLoop]
    split
    · split
      · simp; exact ha
      · rename_i hne
        split
        · have := ih (idx + 1) (added + 1) (by omega)
          simp only [List.length_cons]; omega
        · exact ih (idx + 1) added ha
    · simp; exact ha

/-- every identifier of a request loop has the asked height and an index below the segment count -/
theorem wantLoop_mem (h a l : Nat) (cache : List Cached) (quota total : Nat) :
    ∀ (fuel idx added : Nat) (id : Ident), id ∈ wantLoop h a l cache quota total idx added fuel →
      id.height = h ∧ id.idx < total := by
  intro fuel
  induction fuel with
  | zero => intro idx added id hm; simp [wantLoop] at hm
  | succ f ih =>
    intro idx added id hm
    simp only [wantLoop] at hm
    split at hm
    · rename_i hlt
      split at hm
      · simp at hm
      · split at hm
        · rcases List.mem_cons.mp hm with he | he
          · subst he; exact ⟨rfl, hlt⟩
          · exact ih _ _ _ he
        · exact ih _ _ _ hm
    · simp at hm

/-- the loop runs at most `total - idx` times: more fuel changes nothing (termination bound of the
`while (next_idx as usize) < total_segments` loops) -/
theorem wantLoop_fuel (h a l : Nat) (cache : List Cached) (quota total : Nat) :
    ∀ (fuel idx added extra : Nat), total - idx ≤ fuel →
      wantLoop h a l cache quota total idx added (fuel + extra) =
        wantLoop h a l cache quota total idx added fuel := by
  intro fuel
  induction fuel with
  | zero =>
    intro idx added extra hf
    cases extra with
    | zero => rfl
    | succ e =>
      simp only [wantLoop, Nat.zero_add]
      rw [if_neg (by omega)]
  | succ f ih =>
    intro idx added extra hf
    have e : f + 1 + extra = (f + extra) + 1 := by omega
    rw [e]
    simp only [wantLoop]
    split
    · split
      · rfl
      · split
        · rw [ih (idx + 1) (added + 1) extra (by omega)]
        · rw [ih (idx + 1) added extra (by omega)]
    · rfl

/-- the standing request of a complete prunable tree for its last, not full segment adds nothing
in the loop (the range of that segment ends at `mmr_size - 1`, not beyond the local MMR) -/
theorem wantLoop_last (h N : Nat) (cache : List Cached) (quota : Nat) (hh : h ≤ 61) (hN : N < 2 ^ 62)
    (hlo : (Dsg.segCount N h - 1) * 2 ^ h < N) (hhi : N < Dsg.segCount N h * 2 ^ h) :
    wantLoop h (mmr N) (mmr N) cache quota (Dsg.segCount N h) (Dsg.segCount N h - 1) 0
      (Dsg.segCount N h - (Dsg.segCount N h - 1)) = [] := by
  have hpos : 1 ≤ Dsg.segCount N h := by
    cases hs : Dsg.segCount N h with
    | zero => rw [hs] at hhi; omega
    | succ m => omega
  have e : Dsg.segCount N h - (Dsg.segCount N h - 1) = 0 + 1 := by omega
  rw [e]
  simp only [wantLoop]
  rw [if_pos (by omega)]
  split
  · rfl
  · have hl := posRange_last_final ⟨h, Dsg.segCount N h - 1⟩ N hh hN hlo (by
      show N < (Dsg.segCount N h - 1 + 1) * 2 ^ h
      rw [Nat.sub_add_cancel hpos]; exact hhi)
    have hf : ¬ ((Ident.posRange ⟨h, Dsg.segCount N h - 1⟩ (mmr N)).2 > mmr N) := by
      rw [hl]; omega
    simp [hf]

/-! ### the bitmap branch -/

end GV.Deseg
