import GrinVerif.Lemmas.DesegRun
/-! The ghost log of the desegmenter model: every application that changed a local MMR was the
application of *the* segment that contains the first missing leaf, started where the previous
one ended, and ended at the end of that segment (further, by whole segments, when a completely
pruned segment carried its first unpruned parent).  So what is applied does not depend on the
arrival order, and without jumps the applied segments are `0, 1, 2, …` — at completion exactly
the canonical partition of the archive MMR, each index once, in order. -/
namespace GV.Deseg
open GV GV.Pmmr GV.Seg

/-- `Canon prunable h N g log n`: starting from `g` leaves, the applications in `log` (newest
first) lead to `n` leaves, each one being the segment of height `h` that contains the first
missing leaf -/
inductive Canon (prunable : Bool) (h N g : Nat) : List Cached → Nat → Prop
  | nil : Canon prunable h N g [] g
  | cons (c : Cached) (rest : List Cached) (prev : Nat) :
      Canon prunable h N g rest prev → prev < N → c.id.height = h → c.id.idx = prev / 2 ^ h →
      Canon prunable h N g (c :: rest)
        (min ((c.id.idx + 1 + (if prunable then c.jump else 0)) * 2 ^ h) N)

theorem div_of_bounds (idx n h : Nat) (h1 : idx * 2 ^ h ≤ n) (h2 : n < (idx + 1) * 2 ^ h) :
    n / 2 ^ h = idx := by
  have hp := pow_pos' h
  apply Nat.div_eq_of_lt_le
  · rw [Nat.mul_comm] at h1; rw [Nat.mul_comm]; exact h1
  · rw [Nat.mul_comm] at h2; rw [Nat.mul_comm]; exact h2

/-- `apply_*_segment` keeps the log canonical -/
theorem applySeg_canon (prunable : Bool) (h N g : Nat) (t : Tree) (c : Cached) (hc : c.id.height = h)
    (hs : t.size = mmr t.leaves) (hle : t.leaves ≤ N) (hl : Canon prunable h N g t.log t.leaves) :
    Canon prunable h N g (applySeg prunable (mmr N) t c).1.log (applySeg prunable (mmr N) t c).1.leaves := by
  by_cases hin : segLo c ≤ nLeaves t.size ∧ nLeaves t.size < segHi c (nLeaves (mmr N))
  · rw [applySeg_in prunable (mmr N) t c hin]
    simp only [nLeaves_mmr, segLo, segHi, hc] at hin ⊢
    have hin' : c.id.idx * 2 ^ h ≤ t.leaves ∧ t.leaves < min ((c.id.idx + 1) * 2 ^ h) N := hin
    have hlt : t.leaves < (c.id.idx + 1) * 2 ^ h ∧ t.leaves < N := Nat.lt_min.mp hin'.2
    have hd := div_of_bounds c.id.idx t.leaves h hin'.1 hlt.1
    have key := Canon.cons (prunable := prunable) (g := g) c t.log t.leaves hl hlt.2 hc hd.symm
    have e : Tree.leaves ⟨insertionToPmmrIndex (min ((c.id.idx + 1 + if prunable = true then c.jump else 0) * 2 ^ h) N),
        t.cache, c :: t.log⟩ = min ((c.id.idx + 1 + if prunable = true then c.jump else 0) * 2 ^ h) N := by
      unfold Tree.leaves insertionToPmmrIndex; simp only [nLeaves_mmr]
    rw [e]
    exact key
  · rw [applySeg_out prunable (mmr N) t c hin]
    exact hl

theorem applyList_canon (prunable gen : Bool) (h N g : Nat) : ∀ (l : List Cached) (m : Nat) (t : Tree),
    TreeOk gen h N t → (∀ c ∈ l, c.id.height = h) → Consec m l → Reach h N m t.leaves →
    Canon prunable h N g t.log t.leaves →
    Canon prunable h N g (applyList prunable (mmr N) t l).1.log (applyList prunable (mmr N) t l).1.leaves := by
  intro l
  induction l with
  | nil => intro m t _ _ _ _ hl; exact hl
  | cons c cs ih =>
    intro m t ok hl hcs hr hcan
    obtain ⟨hci, hcs'⟩ := hcs
    have hc := hl c List.mem_cons_self
    obtain ⟨a1, _, _, a4, _⟩ := applySeg_ok prunable gen h N t c ok hc (by rw [hci]; exact hr)
    have k1 := applySeg_canon prunable h N g t c hc ok.size_eq ok.leaves_le hcan
    simp only [applyList]
    exact ih (m + 1) _ a1 (fun x hx => hl x (List.mem_cons_of_mem _ hx)) hcs' (by rw [← hci]; exact a4) k1

theorem applyTree_canon (prunable gen : Bool) (h N g : Nat) (next : Option Nat) (t : Tree)
    (ok : TreeOk gen h N t) (hn : ∀ m, next = some m → Reach h N m t.leaves)
    (hl : Canon prunable h N g t.log t.leaves) :
    Canon prunable h N g (applyTree prunable (mmr N) next t).1.log
      (applyTree prunable (mmr N) next t).1.leaves := by
  unfold applyTree
  cases next with
  | none =>
    simp only
    split
    · exact hl
    · exact hl
  | some m =>
    simp only
    obtain ⟨i1, i2, i3⟩ := takeBatch_spec batchSize t.cache m
    have ok' : TreeOk gen h N { t with cache := (takeBatch t.cache m batchSize).2 } :=
      ⟨fun c hc => ok.own c (i2 c hc), ok.pos⟩
    exact applyList_canon prunable gen h N g _ m _ ok' (fun c hc => ok.own c (i1 c hc)) i3 (hn m rfl) hl

/-- the logs of all four trees are canonical (`gO`, `gK`: leaves of the local output / rangeproof
and kernel MMRs when the desegmenter was created) -/
structure LogOk (No Nk gO gK : Nat) (s : St) : Prop where
  bm : Canon false s.hB (Dsg.expectedChunks No) 0 s.bm.log s.bm.leaves
  out : Canon true s.hO No gO s.out.log s.out.leaves
  rp : Canon true s.hR No gO s.rp.log s.rp.leaves
  ker : Canon false s.hK Nk gK s.ker.log s.ker.leaves

theorem applyBitmapSeg_canon (h C k : Nat) (t : Tree) (c : Cached) (rest : List Cached)
    (hh : h ≤ 61) (hC : C < 2 ^ 62) (p : Pos false h C t.leaves (some k))
    (hc : c.id.height = h) (hi : c.id.idx = k) (he : c.extra = 0)
    (hl : Canon false h C 0 t.log t.leaves) :
    Canon false h C 0 (applyBitmapSeg (mmr C) t c rest).log (applyBitmapSeg (mmr C) t c rest).leaves := by
  have hp := pow_pos' h
  have hlt := p.lt_of_some
  have hn : t.leaves = k * 2 ^ h := by
    generalize hl' : t.leaves = n at p
    cases p with
    | boundary k hk => rfl
    | genesis hg _ => cases hg
  have hu : c.id.unprunedSize (mmr C) = min (2 ^ h) (C - k * 2 ^ h) := by
    rw [unprunedSize_mmr c.id C (by omega) (by rw [hc, hi]; omega), hc, hi]
  have hd : c.id.idx = t.leaves / 2 ^ h := by
    rw [hi, hn, Nat.mul_div_cancel _ hp]
  have key := Canon.cons (prunable := false) (g := 0) c t.log t.leaves hl hlt hc hd
  have e : (applyBitmapSeg (mmr C) t c rest).leaves = min ((c.id.idx + 1 + 0) * 2 ^ h) C := by
    unfold applyBitmapSeg Tree.leaves insertionToPmmrIndex
    simp only [nLeaves_mmr, hu, he, hi]
    show t.leaves + min (2 ^ h) (C - k * 2 ^ h) + 0 = _
    rw [hn, Nat.add_zero, Nat.add_zero, Nat.succ_mul]; omega
  rw [e]
  exact key

/-- `apply_next_segments` keeps the logs canonical -/
theorem applyWith_log (No Nk gO gK : Nat) (s : St) (hi : Inv No Nk s) (hl : LogOk No Nk gO gK s)
    (nB nO nR nK : Option Nat) (hn : NextOk No Nk s nB nO nR nK) :
    LogOk No Nk gO gK (s.applyNextWith nB nO nR nK) := by
  obtain ⟨par, bm, clean, out, rp, ker, noMis, fin⟩ := hi
  obtain ⟨lb, lo, lr, lk⟩ := hl
  have hcs := chunks_small No par.NoS
  obtain ⟨ob, pb⟩ := bm.pos'
  have hnb := hn.b ob pb
  subst hnb
  cases nB with
  | some k =>
    simp only [St.applyNextWith]
    cases hr : removeFirstIdx s.bm.cache k with
    | none => exact ⟨lb, lo, lr, lk⟩
    | some pr =>
      obtain ⟨c, rest⟩ := pr
      obtain ⟨hc, hci, hrest⟩ := removeFirstIdx_mem _ _ _ _ hr
      simp only
      have hbs : s.bmSize = mmr (Dsg.expectedChunks No) := par.bms
      have key := applyBitmapSeg_canon s.hB (Dsg.expectedChunks No) k s.bm c rest par.hB hcs pb
        (bm.own c hc) hci (clean c hc) lb
      rw [← hbs] at key
      exact ⟨key, lo, lr, lk⟩
  | none =>
    simp only [St.applyNextWith]
    have hso : s.outSize = mmr No := par.out
    have hsk : s.kerSize = mmr Nk := par.ker
    have ka := applyTree_canon true true s.hO No gO nO s.out out hn.o lo
    have kb := applyTree_canon true true s.hR No gO nR s.rp rp hn.r lr
    have kc := applyTree_canon false true s.hK Nk gK nK s.ker ker hn.k lk
    rw [← hso] at ka kb
    rw [← hsk] at kc
    exact ⟨lb, ka, kb, kc⟩

theorem step_log (No Nk gO gK : Nat) (s : St) (op : Op) (hi : Inv No Nk s) (hl : LogOk No Nk gO gK s) :
    LogOk No Nk gO gK (s.step op) := by
  cases op with
  | add k x =>
    obtain ⟨a, b, c, d, _, _, _, l1, l2, l3, l4⟩ := add_sizes s k x
    obtain ⟨p1, _⟩ := add_params s k x
    obtain ⟨lb, lo, lr, lk⟩ := hl
    have eB : (s.addSegment k x).1.hB = s.hB := p1 .bitmap
    have eO : (s.addSegment k x).1.hO = s.hO := p1 .output
    have eR : (s.addSegment k x).1.hR = s.hR := p1 .rangeproof
    have eK : (s.addSegment k x).1.hK = s.hK := p1 .kernel
    refine ⟨?_, ?_, ?_, ?_⟩
    · show Canon false (s.addSegment k x).1.hB _ 0 (s.addSegment k x).1.bm.log (s.addSegment k x).1.bm.leaves
      unfold Tree.leaves; rw [eB, l1, a]; exact lb
    · show Canon true (s.addSegment k x).1.hO _ gO (s.addSegment k x).1.out.log (s.addSegment k x).1.out.leaves
      unfold Tree.leaves; rw [eO, l2, b]; exact lo
    · show Canon true (s.addSegment k x).1.hR _ gO (s.addSegment k x).1.rp.log (s.addSegment k x).1.rp.leaves
      unfold Tree.leaves; rw [eR, l3, c]; exact lr
    · show Canon false (s.addSegment k x).1.hK _ gK (s.addSegment k x).1.ker.log (s.addSegment k x).1.ker.leaves
      unfold Tree.leaves; rw [eK, l4, d]; exact lk
  | apply => exact applyWith_log No Nk gO gK s hi hl _ _ _ _ (nextOk No Nk s hi)
  | want n =>
    obtain ⟨lb, lo, lr, lk⟩ := hl
    exact ⟨lb, lo, lr, lk⟩

/-- **every history keeps the logs canonical** -/
theorem run_log (No Nk gO gK : Nat) : ∀ (ops : List Op) (s : St), Inv No Nk s → CleanOps ops →
    LogOk No Nk gO gK s → LogOk No Nk gO gK (s.run ops) := by
  intro ops
  induction ops with
  | nil => intro s _ _ hl; exact hl
  | cons op rest ih =>
    intro s hi hc hl
    have hc' : CleanOps rest := fun k x hm => hc k x (List.mem_cons_of_mem _ hm)
    have hi' : Inv No Nk (s.step op) := run_inv No Nk [op] s hi (fun k x hm => by
      simp only [List.mem_singleton] at hm; exact hc k x (by rw [hm]; exact List.mem_cons_self))
    exact ih _ hi' hc' (step_log No Nk gO gK s op hi hl)

theorem new_log (hB hO hR hK outSize kerSize gO gK No Nk : Nat) :
    LogOk No Nk (nLeaves gO) (nLeaves gK) (St.new hB hO hR hK outSize kerSize gO gK) := by
  refine ⟨?_, Canon.nil, Canon.nil, Canon.nil⟩
  have : Tree.leaves (St.new hB hO hR hK outSize kerSize gO gK).bm = 0 := by
    show nLeaves 0 = 0
    rw [← Co.mmr_zero, nLeaves_mmr]
  rw [this]
  exact Canon.nil


end GV.Deseg
