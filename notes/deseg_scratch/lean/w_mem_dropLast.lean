import GrinVerif.Lemmas.DesegState
/-! `next_desired_segments` (`Model/Deseg.lean`, `St.desired`): everything it returns is a segment
`add_*_segment` accepts (asked height, inside the archive MMR), and in every regular state that is
not complete it contains the segment that comes next of some tree that is waiting for it — for a
request size of at least 2 (with a single slot the rangeproof tree's standing request for its last
segment can starve the output tree: `Props/C16Deseg.request_count_one_starves`). -/
namespace GV.Deseg
open GV GV.Pmmr GV.Seg

/-! ## the loops -/

theorem wantLoop_length (h a l : Nat) (cache : List Cached) (quota total : Nat) :
    ∀ (fuel idx added : Nat), added ≤ quota →
      (wantLoop h a l cache quota total idx added fuel).length + added ≤ quota := by
  intro fuel
  induction fuel with
  | zero => intro idx added ha; simp [wantLoop]; exact ha
  | succ f ih =>
    intro idx added ha
    simp only [wantLoop]
    split
    · split
      · simp; exact ha
      · rename_i hne
        split
        · have := ih (idx + 1) (added + 1) (by omega)
          simp only [List.length_cons]; omega
        · exact ih (idx + 1) added ha
    · simp; exact ha

/-- every identifier of a request loop has the asked height and an index below the segment count -/
theorem wantLoop_mem (h a l : Nat) (cache : List Cached) (quota total : Nat) :
    ∀ (fuel idx added : Nat) (id : Ident), id ∈ wantLoop h a l cache quota total idx added fuel →
      id.height = h ∧ id.idx < total := by
  intro fuel
  induction fuel with
  | zero => intro idx added id hm; simp [wantLoop] at hm
  | succ f ih =>
    intro idx added id hm
    simp only [wantLoop] at hm
    split at hm
    · rename_i hlt
      split at hm
      · simp at hm
      · split at hm
        · rcases List.mem_cons.mp hm with he | he
          · subst he; exact ⟨rfl, hlt⟩
          · exact ih _ _ _ he
        · exact ih _ _ _ hm
    · simp at hm

/-- the loop runs at most `total - idx` times: more fuel changes nothing (termination bound of the
`while (next_idx as usize) < total_segments` loops) -/
theorem wantLoop_fuel (h a l : Nat) (cache : List Cached) (quota total : Nat) :
    ∀ (fuel idx added extra : Nat), total - idx ≤ fuel →
      wantLoop h a l cache quota total idx added (fuel + extra) =
        wantLoop h a l cache quota total idx added fuel := by
  intro fuel
  induction fuel with
  | zero =>
    intro idx added extra hf
    cases extra with
    | zero => rfl
    | succ e =>
      simp only [wantLoop, Nat.zero_add]
      rw [if_neg (by omega)]
  | succ f ih =>
    intro idx added extra hf
    have e : f + 1 + extra = (f + extra) + 1 := by omega
    rw [e]
    simp only [wantLoop]
    split
    · split
      · rfl
      · split
        · rw [ih (idx + 1) (added + 1) extra (by omega)]
        · rw [ih (idx + 1) added extra (by omega)]
    · rfl

/-- the standing request of a complete prunable tree for its last, not full segment adds nothing
in the loop (the range of that segment ends at `mmr_size - 1`, not beyond the local MMR) -/
theorem wantLoop_last (h N : Nat) (cache : List Cached) (quota : Nat) (hh : h ≤ 61) (hN : N < 2 ^ 62)
    (hlo : (Dsg.segCount N h - 1) * 2 ^ h < N) (hhi : N < Dsg.segCount N h * 2 ^ h) :
    wantLoop h (mmr N) (mmr N) cache quota (Dsg.segCount N h) (Dsg.segCount N h - 1) 0
      (Dsg.segCount N h - (Dsg.segCount N h - 1)) = [] := by
  have hpos : 1 ≤ Dsg.segCount N h := by
    cases hs : Dsg.segCount N h with
    | zero => rw [hs] at hhi; omega
    | succ m => omega
  have e : Dsg.segCount N h - (Dsg.segCount N h - 1) = 0 + 1 := by omega
  rw [e]
  simp only [wantLoop]
  rw [if_pos (by omega)]
  split
  · rfl
  · have hl := posRange_last_final ⟨h, Dsg.segCount N h - 1⟩ N hh hN hlo (by
      show N < (Dsg.segCount N h - 1 + 1) * 2 ^ h
      rw [Nat.sub_add_cancel hpos]; exact hhi)
    have hf : ¬ ((Ident.posRange ⟨h, Dsg.segCount N h - 1⟩ (mmr N)).2 > mmr N) := by
      rw [hl]; omega
    simp [hf]

/-! ### the bitmap branch -/

theorem wantBitmapLoop_prefix (s : St) (max : Nat) : ∀ (l : List Nat) (acc : List (Kind × Ident)) x,
    x ∈ acc → x ∈ wantBitmapLoop s max l acc := by
  intro l
  induction l with
  | nil => intro acc x hx; exact hx
  | cons i rest ih =>
    intro acc x hx
    simp only [wantBitmapLoop]
    split
    · split
      · exact List.mem_append_left _ hx
      · exact ih _ x (List.mem_append_left _ hx)
    · exact ih _ x hx

theorem wantBitmapLoop_mem (s : St) (max : Nat) : ∀ (l : List Nat) (acc : List (Kind × Ident)) x,
    x ∈ wantBitmapLoop s max l acc → x ∈ acc ∨ ∃ i ∈ l, x = (Kind.bitmap, ⟨s.hB, i⟩) := by
  intro l
  induction l with
  | nil => intro acc x hx; exact Or.inl hx
  | cons i rest ih =>
    intro acc x hx
    simp only [wantBitmapLoop] at hx
    have step : ∀ y, y ∈ acc ++ [(Kind.bitmap, (⟨s.hB, i⟩ : Ident))] →
        y ∈ acc ∨ ∃ j ∈ i :: rest, y = (Kind.bitmap, ⟨s.hB, j⟩) := by
      intro y hy
      rcases List.mem_append.mp hy with h | h
      · exact Or.inl h
      · simp only [List.mem_singleton] at h
        exact Or.inr ⟨i, List.mem_cons_self, h⟩
    split at hx
    · split at hx
      · exact step x hx
      · rcases ih _ x hx with h | ⟨j, hj, e⟩
        · exact step x h
        · exact Or.inr ⟨j, List.mem_cons_of_mem _ hj, e⟩
    · rcases ih _ x hx with h | ⟨j, hj, e⟩
      · exact Or.inl h
      · exact Or.inr ⟨j, List.mem_cons_of_mem _ hj, e⟩

/-- indices whose range ends before the local accumulator MMR are skipped -/
theorem wantBitmapLoop_skip (s : St) (max : Nat) : ∀ (l : List Nat) (acc : List (Kind × Ident)),
    (∀ i ∈ l, ¬ ((Ident.posRange ⟨s.hB, i⟩ s.bmSize).2 ≥ s.bm.size)) →
    wantBitmapLoop s max l acc = acc := by
  intro l
  induction l with
  | nil => intro acc _; rfl
  | cons i rest ih =>
    intro acc hall
    simp only [wantBitmapLoop]
    have hi := hall i List.mem_cons_self
    have : ((Ident.posRange ⟨s.hB, i⟩ s.bmSize).2 ≥ s.bm.size && !hasId s.bm.cache ⟨s.hB, i⟩) = false := by
      simp [hi]
    rw [this]
    simp only [Bool.false_eq_true, if_false]
    exact ih acc (fun j hj => hall j (List.mem_cons_of_mem _ hj))

theorem wantBitmapLoop_append (s : St) (max : Nat) : ∀ (l1 l2 : List Nat) (acc : List (Kind × Ident)),
    (∀ i ∈ l1, ¬ ((Ident.posRange ⟨s.hB, i⟩ s.bmSize).2 ≥ s.bm.size)) →
    wantBitmapLoop s max (l1 ++ l2) acc = wantBitmapLoop s max l2 acc := by
  intro l1
  induction l1 with
  | nil => intro l2 acc _; rfl
  | cons i rest ih =>
    intro l2 acc hall
    simp only [List.cons_append, wantBitmapLoop]
    have hi := hall i List.mem_cons_self
    have : ((Ident.posRange ⟨s.hB, i⟩ s.bmSize).2 ≥ s.bm.size && !hasId s.bm.cache ⟨s.hB, i⟩) = false := by
      simp [hi]
    rw [this]
    simp only [Bool.false_eq_true, if_false]
    exact ih l2 acc (fun j hj => hall j (List.mem_cons_of_mem _ hj))

theorem range_split (k total : Nat) (hk : k < total) :
    List.range total = List.range k ++ k :: (List.range' (k + 1) (total - (k + 1))) := by
  rw [List.range_eq_range', List.range_eq_range']
  have : total = k + (1 + (total - (k + 1))) := by omega
  conv => lhs; rw [this]
  rw [← List.range'_append_1, ← List.range'_append_1]
  simp

/-- **the bitmap branch asks for the segment that comes next** unless it is cached — for every
request size (the old defect `>` on a 0-based last position is exactly what breaks this) -/
theorem desired_bitmap_next (No Nk : Nat) (s : St) (hi : Inv No Nk s) (max k : Nat)
    (hbc : s.bitmapCache = false) (p : Pos false s.hB (Dsg.expectedChunks No) s.bm.leaves (some k))
    (hnc : hasId s.bm.cache ⟨s.hB, k⟩ = false) :
    (Kind.bitmap, (⟨s.hB, k⟩ : Ident)) ∈ s.desired max := by
  have par := hi.par
  have hcs := chunks_small No par.NoS
  have hbs : s.bmSize = mmr (Dsg.expectedChunks No) := par.bms
  obtain ⟨b1, b2, b3⟩ := p.bounds (fun h => by cases h)
  have hn : s.bm.leaves = k * 2 ^ s.hB := by
    generalize hl : s.bm.leaves = n at p
    cases p with
    | boundary k hk => rfl
    | genesis hg _ => cases hg
  have hsz : s.bm.size = mmr (k * 2 ^ s.hB) := by rw [hi.bm.size_eq, hn]
  unfold St.desired
  rw [hbc]
  simp only [Bool.not_false, if_true]
  rw [hbs, csr_mmr _ _ par.hB hcs]
  have hk : k < Dsg.segCount (Dsg.expectedChunks No) s.hB := Dsg.lt_segCount k _ _ b3
  rw [range_split k _ hk, wantBitmapLoop_append]
  · simp only [wantBitmapLoop]
    have hge : (Ident.posRange ⟨s.hB, k⟩ s.bmSize).2 ≥ s.bm.size := by
      rw [hbs, hsz]
      exact posRange_last_ge ⟨s.hB, k⟩ _ par.hB hcs b3
    have : ((Ident.posRange ⟨s.hB, k⟩ s.bmSize).2 ≥ s.bm.size && !hasId s.bm.cache ⟨s.hB, k⟩) = true := by
      simp [hge, hnc]
    rw [this]
    simp only [if_true, List.nil_append]
    split
    · exact List.mem_singleton.mpr rfl
    · exact wantBitmapLoop_prefix s max _ _ _ (List.mem_singleton.mpr rfl)
  · intro i hi'
    have hik : i < k := List.mem_range.mp hi'
    have hlt := posRange_last_lt ⟨s.hB, i⟩ (Dsg.expectedChunks No) (k * 2 ^ s.hB) par.hB hcs
      (Nat.mul_le_mul_right _ (show i + 1 ≤ k by omega)) (by omega)
    rw [hbs, hsz]
    omega

/-! ### `maybe_add_to_request` -/

end GV.Deseg
