import GrinVerif.Lemmas.DesegState
namespace GV.Deseg
open GV GV.Pmmr GV.Seg
theorem wantLoop_length' (h a l : Nat) (cache : List Cached) (quota total : Nat) :
    ∀ (fuel idx added : Nat), added ≤ quota →
      (wantLoop h a l cache quota total idx added fuel).length + added ≤ quota := by sorry
set_option profiler true
theorem x2 (h a : Nat) (t : Tree) (next : Option Nat) (q : Nat) :
    (wantTree h a t next q).length ≤ q := by
  unfold wantTree
  cases next with
  | none => exact Nat.zero_le _
  | some n =>
    show (wantLoop h a t.size t.cache q _ n 0 _).length ≤ q
    generalize Ident.countSegmentsRequired a h = total
    have := wantLoop_length' h a t.size t.cache q total (total - n) n 0 (Nat.zero_le _)
    omega
end GV.Deseg
