import GrinVerif.Lemmas.DesegState
namespace GV.Deseg
open GV GV.Pmmr GV.Seg
set_option profiler true
theorem x1 (h a : Nat) (t : Tree) (n : Nat) (q : Nat) :
    wantTree h a t (some n) q = [] := by
  unfold wantTree
  sorry
end GV.Deseg
