import sys,re,subprocess,time
path=sys.argv[1]; limit=int(sys.argv[2]) if len(sys.argv)>2 else 25
s=open(path).read()
# declaration starts: lines beginning with 'theorem ' / 'def ' / 'structure ' possibly preceded by doc comment
starts=[m.start() for m in re.finditer(r'^(?:/--|theorem |def |structure |inductive )', s, re.M)]
# merge doc comments with following decl
cuts=[]
i=0
lines=s
for st in starts:
    cuts.append(st)
names=[]
prev=None
good=0
for idx,c in enumerate(cuts[1:]+[len(s)]):
    seg=s[cuts[idx]:c]
    if seg.startswith('/--'): continue
    m=re.match(r'(theorem|def|structure|inductive) (\S+)', seg)
    name=m.group(2) if m else '?'
    ns=re.findall(r'^namespace (\S+)', s[:c], re.M)
    body=s[:c]
    if not body.rstrip().endswith('end '+ns[-1]):
        body=body+"\nend "+ns[-1]+"\n"
    open('/verif/notes/deseg_scratch/lean/_bis.lean','w').write(body)
    t=time.time()
    try:
        r=subprocess.run(['lake','env','lean','/verif/notes/deseg_scratch/lean/_bis.lean'],cwd='/verif/lean',capture_output=True,text=True,timeout=limit)
        dt=time.time()-t
        errs=[l for l in r.stdout.splitlines() if 'error' in l]
        print(f'{name}: {dt:.1f}s', ('ERR: '+errs[0][:200]) if errs else '')
        if errs:
            print('\n'.join(r.stdout.splitlines()[:40])); break
    except subprocess.TimeoutExpired:
        print(f'{name}: TIMEOUT'); break
