#!/usr/bin/env python3
"""rs2lean: translate a whitelisted set of pure arithmetic Rust functions of /repo into Lean 4
definitions with release-build integer semantics (python3 stdlib only).

Plug-in interface for tools/gen_tables.py:  generate(REPO, die) -> {filename: content}
(re-exported by tools/gen_fns.py).  Standalone:  python3 tools/rs2lean.py [--repo R] [--out DIR] [--print]

Documentation of the subset and the semantics: /verif/notes/xlate.md.
A whitelisted function that is missing or uses an unsupported construct is NOT fatal: a comment
`-- UNTRANSLATABLE <fn>: <reason>` is emitted in place of the definition, so only the Props/Xlate*
module that mentions it stops building."""
import os, re, sys


class Unsupported(Exception):
    pass


# =============================================================================================
# 1. Lexer
# =============================================================================================

_INT_SUFFIX = r"(?:[iu](?:8|16|32|64|128|size))"
_TOK = re.compile(r"""
  (?P<ws>\s+)
 |(?P<lcomment>//[^\n]*)
 |(?P<rawstr>b?r(?P<hashes>\#*)".*?"(?P=hashes))
 |(?P<str>b?"(?:\\.|[^"\\])*")
 |(?P<char>b?'(?:\\(?:x[0-9a-fA-F]{2}|u\{[0-9a-fA-F_]+\}|.)|[^'\\])')
 |(?P<lifetime>'[A-Za-z_][A-Za-z0-9_]*)
 |(?P<num>0x[0-9a-fA-F_]+""" + _INT_SUFFIX + r"""?|0b[01_]+""" + _INT_SUFFIX + r"""?|0o[0-7_]+""" + _INT_SUFFIX + r"""?
          |[0-9][0-9_]*(?:\.[0-9][0-9_]*)?(?:[eE][+-]?[0-9_]+)?(?:[iuf](?:8|16|32|64|128|size))?)
 |(?P<ident>r\#[A-Za-z_][A-Za-z0-9_]*|[A-Za-z_][A-Za-z0-9_]*)
 |(?P<punct><<=|>>=|\.\.\.|\.\.=|::|->|=>|==|!=|<=|>=|&&|\|\||\+=|-=|\*=|/=|%=|\^=|&=|\|=|<<|>>|\.\.|[-+*/%^!&|=<>@.,;:\#$?~\[\](){}])
""", re.X | re.S)


class Tok:
    __slots__ = ("kind", "text", "pos")

    def __init__(self, kind, text, pos):
        self.kind, self.text, self.pos = kind, text, pos

    def __repr__(self):
        return f"{self.kind}:{self.text}"


def lex(src):
    """Token list (comments, whitespace dropped). Kinds: num, ident, punct, str, char, lifetime."""
    toks, i, n = [], 0, len(src)
    while i < n:
        if src.startswith("/*", i):  # nested block comments
            depth, j = 1, i + 2
            while j < n and depth:
                if src.startswith("/*", j):
                    depth += 1; j += 2
                elif src.startswith("*/", j):
                    depth -= 1; j += 2
                else:
                    j += 1
            i = j
            continue
        if toks and toks[-1].text == "." and src[i].isdigit():  # tuple index `.0` (never a float)
            m = re.compile(r"[0-9]+").match(src, i)
            toks.append(Tok("num", m.group(0), i)); i = m.end(); continue
        m = _TOK.match(src, i)
        if not m:
            raise Unsupported(f"lexer: unexpected character {src[i]!r} at offset {i}")
        k = m.lastgroup
        if k == "hashes":
            k = "rawstr"
        if k not in ("ws", "lcomment"):
            toks.append(Tok("str" if k == "rawstr" else k, m.group(0), i))
        i = m.end()
    return toks


# =============================================================================================
# 2. Item scanner: functions, consts, structs, enums with their containers
# =============================================================================================

_OPEN = {"(": ")", "[": "]", "{": "}"}


def skip_group(toks, i):
    """toks[i] is an opening bracket; index just after the matching closer."""
    stack = [toks[i].text]
    i += 1
    while stack:
        if i >= len(toks):
            raise Unsupported("unbalanced brackets")
        t = toks[i]
        if t.kind == "punct":
            if t.text in _OPEN:
                stack.append(t.text)
            elif t.text in (")", "]", "}"):
                if _OPEN[stack[-1]] != t.text:
                    raise Unsupported("mismatched brackets")
                stack.pop()
        i += 1
    return i


class Item:
    """kind: fn | const | struct | enum; container: tuple of ('mod',n)/('impl',ty,trait)/('trait',n)"""

    def __init__(self, kind, name, container, lo, hi, toks, test=False):
        self.kind, self.name, self.container, self.lo, self.hi, self.toks, self.test = \
            kind, name, container, lo, hi, toks, test

    def impl_type(self):
        for c in reversed(self.container):
            if c[0] == "impl":
                return c[1]
        return None

    def impl_trait(self):
        for c in reversed(self.container):
            if c[0] == "impl":
                return c[2]
        return None

    def in_mod(self):
        return any(c[0] == "mod" for c in self.container)


def scan_items(toks):
    items = []
    stack = []          # containers
    i, n = 0, len(toks)
    pending_test = False

    def is_test():
        return any(len(c) > 3 and c[3] for c in stack) or any(c[0] == "mod" and c[-1] is True for c in stack)

    while i < n:
        t = toks[i]
        if t.text == "#":
            j = i + 1
            if j < n and toks[j].text == "!":
                j += 1
            if j < n and toks[j].text == "[":
                e = skip_group(toks, j)
                txt = "".join(x.text for x in toks[j:e])
                if "cfg(test)" in txt:
                    pending_test = True
                i = e
                continue
            i += 1
            continue
        if t.text == "}":
            if stack:
                stack.pop()
            i += 1
            pending_test = False
            continue
        if t.kind != "ident":
            i += 1
            continue
        w = t.text
        if w in ("pub", "unsafe", "async", "default", "extern", "crate"):
            i += 1
            if w == "pub" and i < n and toks[i].text == "(":
                i = skip_group(toks, i)
            if w == "extern" and i < n and toks[i].kind == "str":
                i += 1
            continue
        if w == "mod" and i + 2 < n and toks[i + 1].kind == "ident":
            if toks[i + 2].text == "{":
                stack.append(("mod", toks[i + 1].text, pending_test))
                pending_test = False
                i += 3
            else:
                i += 3
            continue
        if w in ("impl", "trait"):
            j = i + 1
            depth = 0
            segs, trait_name, cur = [], None, []
            while j < n and not (toks[j].text == "{" and depth == 0):
                x = toks[j]
                if x.text == "<":
                    depth += 1
                elif x.text == ">":
                    depth -= 1
                elif x.text == ">>":
                    depth -= 2
                elif x.text == "->" or x.text == ";":
                    pass
                elif depth == 0 and x.kind == "ident":
                    if x.text == "for":
                        trait_name = cur[-1] if cur else "?"
                        cur = []
                    elif x.text == "where":
                        # rest is bounds; stop collecting
                        k = j
                        while k < n and toks[k].text != "{":
                            k += 1
                        j = k
                        break
                    else:
                        cur.append(x.text)
                j += 1
            name = cur[-1] if cur else "?"
            if w == "impl":
                stack.append(("impl", name, trait_name))
            else:
                stack.append(("trait", name))
            pending_test = False
            i = j + 1
            continue
        if w == "fn" and i + 1 < n and toks[i + 1].kind == "ident":
            name = toks[i + 1].text
            j = i + 2
            depth = 0
            # find body `{` or `;` at bracket depth 0
            while j < n:
                x = toks[j]
                if x.text in ("(", "["):
                    j = skip_group(toks, j)
                    continue
                if x.text == "{" or x.text == ";":
                    break
                j += 1
            if j < n and toks[j].text == "{":
                e = skip_group(toks, j)
            else:
                e = j + 1
            testflag = pending_test or any(c[0] == "mod" and c[2] for c in stack)
            items.append(Item("fn", name, tuple(stack), i, e, toks, testflag))
            pending_test = False
            i = e
            continue
        if w == "const" and i + 2 < n and toks[i + 1].kind == "ident" and toks[i + 2].text == ":":
            j = i
            while j < n and toks[j].text != ";":
                if toks[j].text in _OPEN:
                    j = skip_group(toks, j)
                else:
                    j += 1
            items.append(Item("const", toks[i + 1].text, tuple(stack), i, j + 1, toks,
                              any(c[0] == "mod" and c[2] for c in stack)))
            i = j + 1
            pending_test = False
            continue
        if w in ("struct", "enum") and i + 1 < n and toks[i + 1].kind == "ident":
            j = i + 2
            while j < n and toks[j].text not in ("{", "(", ";"):
                j += 1
            if j < n and toks[j].text in ("{", "("):
                e = skip_group(toks, j)
                if toks[j].text == "(":
                    while e < n and toks[e].text != ";":
                        e += 1
                    e += 1
            else:
                e = j + 1
            items.append(Item(w, toks[i + 1].text, tuple(stack), i, e, toks,
                              any(c[0] == "mod" and c[2] for c in stack)))
            i = e
            pending_test = False
            continue
        if w in ("use", "static", "type"):
            j = i
            while j < n and toks[j].text != ";":
                if toks[j].text in _OPEN:
                    j = skip_group(toks, j)
                else:
                    j += 1
            i = j + 1
            pending_test = False
            continue
        # macro invocation at item level: name ! (...) ; / name ! {...}
        if i + 2 < n and toks[i + 1].text == "!" and toks[i + 2].text in _OPEN:
            i = skip_group(toks, i + 2)
            pending_test = False
            continue
        if i + 3 < n and toks[i + 1].text == "!" and toks[i + 2].kind == "ident" and toks[i + 3].text in _OPEN:
            e = skip_group(toks, i + 3)   # macro_rules! name { ... }
            if w == "macro_rules":
                items.append(Item("macro", toks[i + 2].text, tuple(stack), i + 3, e, toks,
                                  any(c[0] == "mod" and c[2] for c in stack)))
            i = e
            pending_test = False
            continue
        i += 1
    return items


# =============================================================================================
# 3. AST + parser (recursive descent, precedence climbing)
# =============================================================================================

class N:
    """AST node: kind + attributes.  `ty` is filled by the type checker."""

    def __init__(self, kind, **kw):
        self.kind = kind
        self.ty = None
        self.__dict__.update(kw)

    def __repr__(self):
        return f"N({self.kind})"


INT_TYPES = {"u8": 8, "u16": 16, "u32": 32, "u64": 64, "usize": 64, "u128": 128}

_BINPREC = [  # lowest to highest; each level: (ops, assoc)
    (("||",), "l"), (("&&",), "l"), (("==", "!=", "<", ">", "<=", ">="), "n"), (("|",), "l"), (("^",), "l"),
    (("&",), "l"), (("<<", ">>"), "l"), (("+", "-"), "l"), (("*", "/", "%"), "l"),
]
_ASSIGN_OPS = ("=", "+=", "-=", "*=", "/=", "%=", "<<=", ">>=", "|=", "&=", "^=")


class Parser:
    def __init__(self, toks, lo, hi, macros=None):
        self.t = toks
        self.i = lo
        self.hi = hi
        self.macros = macros or {}
        self.expansions = 0
        self.tol = False      # tolerant mode (tools/gen_pipeshape.py): unsupported constructs become opaque nodes

    # --- token helpers
    def peek(self, k=0):
        j = self.i + k
        return self.t[j] if j < self.hi else Tok("eof", "<eof>", -1)

    def at(self, text):
        return self.peek().text == text and self.peek().kind in ("punct", "ident")

    def eat(self, text):
        if self.at(text):
            self.i += 1
            return True
        return False

    def expect(self, text):
        if not self.eat(text):
            raise Unsupported(f"parse: expected `{text}` but found `{self.peek().text}`")

    def ident(self):
        t = self.peek()
        if t.kind != "ident":
            raise Unsupported(f"parse: expected identifier, found `{t.text}`")
        self.i += 1
        return t.text

    # --- types
    def close_angle(self):
        t = self.peek()
        if t.text == ">":
            self.i += 1
        elif t.text == ">>":      # split `>>`
            self.t = list(self.t)
            self.t[self.i] = Tok("punct", ">", t.pos)
        elif t.text == ">=" or t.text == ">>=":
            raise Unsupported("parse: `>=` after a generic argument")
        else:
            raise Unsupported(f"parse: expected `>` found `{t.text}`")

    def type_(self):
        """-> syntactic type: ('name', [segments], [args]) | ('tuple', [..]) | ('ref', t)"""
        if self.eat("&"):
            if self.peek().kind == "lifetime":
                self.i += 1
            if self.at("mut"):
                self.i += 1
                return ("refmut", self.type_())
            return ("ref", self.type_())
        if self.eat("("):
            elems = []
            while not self.at(")"):
                elems.append(self.type_())
                if not self.eat(","):
                    break
            self.expect(")")
            return ("tuple", elems)
        if self.eat("["):
            el = self.type_()
            if self.eat(";"):
                self.binary(0, True)      # array length: not tracked (an array is translated as a List)
            self.expect("]")
            return ("name", ["Vec"], [el])
        if self.at("impl") or self.at("dyn"):
            self.i += 1
        if self.at("<"):                  # `<u64>::…` qualified path written as a type
            self.i += 1
            inner = self.type_()
            self.close_angle()
            return inner
        segs = [self.ident()]
        args = []
        while True:
            if self.at("::") and self.peek(1).kind == "ident":
                self.i += 1
                segs.append(self.ident())
                continue
            if self.at("<"):
                self.i += 1
                while True:
                    if self.peek().kind == "lifetime":
                        self.i += 1
                    elif self.peek().kind == "ident" and self.peek(1).text == "=":
                        an = self.ident()
                        self.i += 1
                        args.append(("assoc", an, self.type_()))
                    else:
                        args.append(self.type_())
                    if not self.eat(","):
                        break
                self.close_angle()
            break
        return ("name", segs, args)

    # --- patterns
    def pattern(self):
        alts = [self.pattern1()]
        while self.eat("|"):
            alts.append(self.pattern1())
        return alts[0] if len(alts) == 1 else N("por", alts=alts)

    def pattern1(self):
        t = self.peek()
        if self.eat("("):
            elems = []
            while not self.at(")"):
                elems.append(self.pattern())
                if not self.eat(","):
                    break
            self.expect(")")
            if len(elems) == 1:
                return elems[0]
            return N("ptuple", elems=elems)
        if self.eat("&"):
            return self.pattern1()
        if self.tol:
            if t.kind in ("str", "char") or (t.kind == "num") or (t.text == "-" and self.peek(1).kind == "num"):
                if t.text == "-":
                    self.i += 1
                txt = self.peek().text
                self.i += 1
                if self.at("..=") or self.at(".."):
                    self.i += 1
                    if self.peek().kind in ("num", "char", "str", "ident") or self.at("-"):
                        self.pattern1()
                return N("popaque", text=txt)
            if t.text == "[":
                self.i = skip_group(self.t, self.i)
                return N("popaque", text="[..]")
            if t.text == "..":
                self.i += 1
                return N("pwild")
            if t.kind == "ident" and t.text == "box":
                self.i += 1
                return self.pattern1()
        if t.kind == "num":
            self.i += 1
            return N("plit", value=parse_int(t.text)[0], suffix=parse_int(t.text)[1])
        if t.kind != "ident":
            raise Unsupported(f"parse: unsupported pattern starting with `{t.text}`")
        if t.text == "_":
            self.i += 1
            return N("pwild")
        mut = False
        if self.at("mut"):
            self.i += 1
            mut = True
        if self.at("ref"):
            if not self.tol:
                raise Unsupported("`ref` patterns are not supported")
            self.i += 1
            self.eat("mut")
        segs = [self.ident()]
        while self.at("::"):
            self.i += 1
            if self.tol and self.at("<"):
                self.i += 1
                while True:
                    self.type_()
                    if not self.eat(","):
                        break
                self.close_angle()
                continue
            segs.append(self.ident())
        if self.tol and self.at("@"):
            self.i += 1
            inner = self.pattern1()
            return N("pident", name=segs[0], mut=mut, sub=inner)
        if self.at("("):
            self.i += 1
            args = []
            while not self.at(")"):
                args.append(self.pattern())
                if not self.eat(","):
                    break
            self.expect(")")
            return N("pctor", path=segs, args=args)
        if self.at("{"):
            self.i += 1
            fields, rest_ = [], False
            while not self.at("}"):
                if self.eat(".."):
                    rest_ = True
                    break
                fn_ = self.ident()
                if self.eat(":"):
                    fields.append((fn_, self.pattern()))
                else:
                    fields.append((fn_, N("pident", name=fn_, mut=False)))
                if not self.eat(","):
                    break
            self.expect("}")
            return N("pstruct", path=segs, fields=fields, rest=rest_)
        if len(segs) == 1 and (segs[0][0].islower() or segs[0][0] == "_") and segs[0] != "None":
            return N("pident", name=segs[0], mut=mut)
        return N("ppath", path=segs)

    # --- blocks / statements
    def block(self):
        self.expect("{")
        items = []
        tail = None
        while not self.at("}"):
            if self.eat(";"):
                continue
            if self.tol and self.at("#") and self.peek(1).text in ("[", "!"):
                self.i += 1
                self.eat("!")
                self.i = skip_group(self.t, self.i)
                continue
            if self.at("let"):
                self.i += 1
                pat = self.pattern()
                ty = None
                if self.eat(":"):
                    ty = self.type_()
                init = None
                els = None
                if self.eat("="):
                    init = self.expr()
                    if self.tol and self.at("else"):
                        self.i += 1
                        els = self.block()
                self.expect(";")
                items.append(N("let", pat=pat, tyann=ty, init=init, els=els))
                continue
            if self.peek().kind == "ident" and self.peek().text in ("fn", "struct", "enum", "const", "static",
                                                                    "use", "impl", "trait", "mod", "type") \
                    and not (self.peek().text in ("const", "static", "type", "use") and self.peek(1).text in ("(", ".", "::") and False):
                if not self.tol:
                    raise Unsupported(f"nested item `{self.peek().text}` in a function body")
                # skip the nested item: up to `;` or the end of its `{..}` body
                while not (self.at(";") or self.at("{")):
                    if self.peek().kind == "punct" and self.peek().text in ("(", "["):
                        self.i = skip_group(self.t, self.i)
                    else:
                        self.i += 1
                if self.at("{"):
                    self.i = skip_group(self.t, self.i)
                else:
                    self.i += 1
                continue
            if self.peek().kind == "lifetime":
                if not self.tol:
                    raise Unsupported("loop labels are not supported")
                self.i += 1
                self.expect(":")
            e = self.expr(stmt=True)
            if self.eat(";"):
                items.append(N("expr", e=e, semi=True))
            elif self.at("}"):
                tail = e
            elif e.kind in ("if", "match", "while", "block", "for", "whilelet") or \
                    (e.kind == "macrocall" and e.delim == "{"):
                items.append(N("expr", e=e, semi=False))
            else:
                raise Unsupported(f"parse: expected `;` or `}}` after expression, found `{self.peek().text}`")
        self.expect("}")
        # a trailing block-like expression statement without `;` is the tail
        return N("block", items=items, tail=tail)

    # --- expressions
    def expr(self, stmt=False, nostruct=False):
        if self.at("return"):
            self.i += 1
            v = None
            if not (self.at(";") or self.at("}") or self.at(",") or self.at(")")):
                v = self.expr(nostruct=nostruct)
            return N("return", value=v)
        if self.at("break"):
            self.i += 1
            if self.peek().kind == "lifetime" or not (self.at(";") or self.at("}") or self.at(",")):
                if not self.tol:
                    raise Unsupported("`break` with a label or a value is not supported")
                if self.peek().kind == "lifetime":
                    self.i += 1
                v = None
                if not (self.at(";") or self.at("}") or self.at(",")):
                    v = self.expr(nostruct=nostruct)
                return N("break", value=v)
            return N("break")
        if self.at("continue"):
            self.i += 1
            if self.peek().kind == "lifetime":
                if not self.tol:
                    raise Unsupported("`continue` with a label is not supported")
                self.i += 1
            return N("continue")
        lhs = self.range_expr(nostruct)
        t = self.peek()
        if t.kind == "punct" and t.text in _ASSIGN_OPS:
            self.i += 1
            rhs = self.expr(nostruct=nostruct)
            return N("assign", target=lhs, op=t.text, value=rhs)
        return lhs

    def range_expr(self, nostruct):
        if self.at(".."):
            self.i += 1
            rhs = None if (self.at("]") or self.at(")")) else self.binary(0, nostruct)
            return N("range", lo=None, hi=rhs, inclusive=False)
        lhs = self.binary(0, nostruct)
        if self.at("..") or self.at("..="):
            inc = self.peek().text == "..="
            self.i += 1
            rhs = None if (self.at("]") or self.at(")") or self.at("{")) else self.binary(0, nostruct)
            return N("range", lo=lhs, hi=rhs, inclusive=inc)
        return lhs

    def binary(self, level, nostruct):
        if level == len(_BINPREC):
            return self.cast(nostruct)
        ops, assoc = _BINPREC[level]
        lhs = self.binary(level + 1, nostruct)
        first = True
        while self.peek().kind == "punct" and self.peek().text in ops:
            if assoc == "n" and not first:
                raise Unsupported("chained comparison")
            op = self.peek().text
            self.i += 1
            rhs = self.binary(level + 1, nostruct)
            lhs = N("bin", op=op, l=lhs, r=rhs)
            first = False
        return lhs

    def cast(self, nostruct):
        e = self.unary(nostruct)
        while self.at("as"):
            self.i += 1
            e = N("cast", e=e, to=self.type_())
        return e

    def unary(self, nostruct):
        t = self.peek()
        if t.kind == "punct" and t.text in ("!", "-", "*", "&"):
            self.i += 1
            mutb = False
            if t.text == "&" and self.at("mut"):
                # strict mode (phase 7): only meaningful as `p = &mut p[a..]` on an out-slice parameter and as the
                # argument `&mut buf` of a function with an out-slice parameter; elsewhere `&mut x` reads as `x`
                self.i += 1
                mutb = True
            return N("un", op=t.text, e=self.unary(nostruct), mutb=mutb)
        if t.kind == "punct" and t.text == "&&":
            self.i += 1
            return N("un", op="&", e=N("un", op="&", e=self.unary(nostruct)))
        return self.postfix(nostruct)

    def args(self):
        self.expect("(")
        a = []
        while not self.at(")"):
            a.append(self.expr())
            if not self.eat(","):
                break
        self.expect(")")
        return a

    def postfix(self, nostruct):
        e = self.primary(nostruct)
        while True:
            if self.at("?"):
                self.i += 1
                e = N("try", e=e)
                continue
            if self.at("["):
                self.i += 1
                ix = self.expr()
                self.expect("]")
                e = N("index", e=e, i=ix)
                continue
            if self.at("(") and e.kind == "path":
                e = N("call", path=e.path, args=self.args())
                continue
            if self.tol and self.at("(") and e.kind in ("paren", "field", "index", "call", "mcall", "callx"):
                e = N("callx", f=e, args=self.args())
                continue
            if self.at("."):
                nxt = self.peek(1)
                if nxt.kind == "num":
                    self.i += 2
                    e = N("field", e=e, name=nxt.text)
                    continue
                if nxt.kind == "ident":
                    self.i += 2
                    tf = None
                    if self.at("::"):
                        self.i += 1
                        self.expect("<")
                        tf = []
                        while True:
                            tf.append(self.type_())
                            if not self.eat(","):
                                break
                        self.close_angle()
                    if self.at("("):
                        e = N("mcall", recv=e, name=nxt.text, args=self.args(), turbofish=tf)
                    else:
                        e = N("field", e=e, name=nxt.text)
                    continue
            break
        return e

    def primary(self, nostruct):
        t = self.peek()
        if t.kind == "num":
            self.i += 1
            if self.tol:
                try:
                    v, suf = parse_int(t.text)
                except Unsupported:
                    return N("opaque", text=t.text)
                return N("lit", value=v, suffix=suf)
            v, suf = parse_int(t.text)
            return N("lit", value=v, suffix=suf)
        if t.kind in ("str", "char"):
            if self.tol:
                self.i += 1
                return N("opaque", text=t.text)
            if t.kind == "str":
                self.i += 1
                return N("strlit", text=t.text)     # only accepted inside the payload of `Err(..)` (dropped)
            raise Unsupported("string / char literals are not supported")
        if t.kind == "punct":
            if t.text == "(":
                self.i += 1
                elems = []
                trailing = False
                while not self.at(")"):
                    elems.append(self.expr())
                    trailing = False
                    if not self.eat(","):
                        break
                    trailing = True
                self.expect(")")
                if len(elems) == 1 and not trailing:
                    return N("paren", e=elems[0])
                return N("tuple", elems=elems)
            if t.text == "{":
                return self.block()
            if t.text == "|" or t.text == "||":
                return self.closure()
            if t.text == "[":
                self.i += 1
                elems = []
                while not self.at("]"):
                    elems.append(self.expr())
                    if self.eat(";"):
                        cnt = self.expr()
                        self.expect("]")
                        return N("vecrep", elem=elems[0], n=cnt)
                    if not self.eat(","):
                        break
                self.expect("]")
                return N("vec", elems=elems)
            if t.text == "<":          # `<u64>::max_value()`
                self.i += 1
                ty = self.type_()
                self.close_angle()
                if ty[0] != "name":
                    raise Unsupported("qualified path on a non-nominal type")
                segs = list(ty[1])
                while self.at("::"):
                    self.i += 1
                    segs.append(self.ident())
                return N("path", path=segs)
            raise Unsupported(f"parse: unexpected `{t.text}` in expression")
        if t.kind != "ident":
            raise Unsupported(f"parse: unexpected token `{t.text}`")
        w = t.text
        if w == "if":
            self.i += 1
            if self.at("let"):
                self.i += 1
                pat = self.pattern()
                self.expect("=")
                sc = self.expr(nostruct=True)
                th = self.block()
                el = N("block", items=[], tail=None)
                if self.eat("else"):
                    if self.at("if"):
                        el = N("block", items=[], tail=self.primary(nostruct))
                    else:
                        el = self.block()
                return N("match", s=sc, arms=[(pat, th), (N("pwild"), el)], iflet=True)
            c = self.expr(nostruct=True)
            th = self.block()
            el = None
            if self.eat("else"):
                if self.at("if"):
                    inner = self.primary(nostruct)
                    el = N("block", items=[], tail=inner)
                else:
                    el = self.block()
            return N("if", c=c, th=th, el=el)
        if w == "while":
            self.i += 1
            if self.at("let"):
                if not self.tol:
                    raise Unsupported("`while let` is not supported")
                self.i += 1
                pat = self.pattern()
                self.expect("=")
                sc = self.expr(nostruct=True)
                return N("whilelet", pat=pat, s=sc, body=self.block())
            c = self.expr(nostruct=True)
            return N("while", c=c, body=self.block())
        if w == "match":
            self.i += 1
            s = self.expr(nostruct=True)
            self.expect("{")
            arms = []
            while not self.at("}"):
                while self.tol and self.at("#"):
                    self.i += 1
                    self.i = skip_group(self.t, self.i)
                self.eat("|") if self.tol else None
                p = self.pattern()
                if self.at("if"):
                    if not self.tol:
                        raise Unsupported("match guards are not supported")
                    self.i += 1
                    p.guard = self.expr(nostruct=False)
                self.expect("=>")
                body = self.expr()
                arms.append((p, body))
                if not self.eat(","):
                    if body.kind != "block" and not self.at("}"):
                        raise Unsupported("parse: expected `,` after match arm")
            self.expect("}")
            return N("match", s=s, arms=arms)
        if w in ("true", "false"):
            self.i += 1
            return N("boollit", value=(w == "true"))
        if w == "loop":
            self.i += 1
            return N("while", c=N("boollit", value=True), body=self.block(), isloop=True)
        if w == "for":
            self.i += 1
            pat = self.pattern()
            self.expect("in")
            it = self.expr(nostruct=True)
            return N("for", pat=pat, it=it, body=self.block())
        if w == "move" and self.peek(1).text in ("|", "||"):
            self.i += 1
            return self.closure()
        if w == "unsafe" and self.tol and self.peek(1).text == "{":
            self.i += 1
            return self.block()
        if w in ("move", "unsafe", "async"):
            raise Unsupported(f"`{w}` expressions are not supported")
        if w == "vec" and self.peek(1).text == "!":
            self.i += 2
            if not self.at("["):
                raise Unsupported("vec! with non-[] delimiter")
            self.i += 1
            elems = []
            while not self.at("]"):
                elems.append(self.expr())
                if self.eat(";"):
                    cnt = self.expr()
                    self.expect("]")
                    return N("vecrep", elem=elems[0], n=cnt)
                if not self.eat(","):
                    break
            self.expect("]")
            return N("vec", elems=elems)
        # path
        segs = [self.ident()]
        while self.at("::"):
            if self.peek(1).text == "<":
                self.i += 2
                while True:
                    self.type_()
                    if not self.eat(","):
                        break
                self.close_angle()
                continue
            self.i += 1
            segs.append(self.ident())
        if self.at("!"):
            if self.peek(1).text in _OPEN and self.peek(1).kind == "punct":
                if len(segs) == 1 and segs[0] in self.macros:
                    return self.expand_macro(segs[0])
                if self.tol:
                    self.i += 1
                    start = self.i
                    end = skip_group(self.t, start)
                    self.i = end
                    return N("macrocall", name="::".join(segs), toks=self.t[start + 1:end - 1], delim=self.t[start].text)
                if segs == ["assert"] and self.peek(1).text == "(":
                    # `assert!(cond, msg…)`: the condition becomes a conjunct of `<fn>_ok` (phase 4); the message is dropped
                    self.i += 1
                    end = skip_group(self.t, self.i)
                    self.i += 1
                    c = self.expr()
                    self.i = end
                    return N("assert", c=c)
                raise Unsupported(f"macro `{'::'.join(segs)}!` is not supported")
        if self.at("{") and not nostruct and segs[-1][0].isupper():
            self.i += 1
            fields = []
            while not self.at("}"):
                if self.at(".."):
                    if not self.tol:
                        raise Unsupported("struct update syntax `..base` is not supported")
                    self.i += 1
                    fields.append(("..", self.expr()))
                    break
                fn_ = self.ident() if self.peek().kind == "ident" else None
                if fn_ is None:
                    t2 = self.peek()
                    if t2.kind != "num":
                        raise Unsupported("parse: struct literal field")
                    self.i += 1
                    fn_ = t2.text
                if self.eat(":"):
                    fields.append((fn_, self.expr()))
                else:
                    fields.append((fn_, N("path", path=[fn_])))
                if not self.eat(","):
                    break
            self.expect("}")
            return N("structlit", path=segs, fields=fields)
        return N("path", path=segs)

    def closure(self):
        params = []
        if self.eat("||"):
            pass
        else:
            self.expect("|")
            while not self.at("|"):
                pat = self.pattern1()
                ty = None
                if self.eat(":"):
                    ty = self.type_()
                params.append((pat, ty))
                if not self.eat(","):
                    break
            self.expect("|")
        if self.eat("->"):
            self.type_()
            body = self.block()
        else:
            body = self.expr()
        return N("closure", params=params, body=body)

    def expand_macro(self, name):
        """`name!(args)` for a single-rule `macro_rules!` of the same file whose parameters are all `$x:expr`:
        token substitution (every argument is parenthesised), result parsed as a block"""
        self.expansions += 1
        if self.expansions > 200:
            raise Unsupported("too many macro expansions")
        params, body = self.macros[name]
        self.expect("!")
        start = self.i
        end = skip_group(self.t, start)
        groups, cur, depth = [], [], 0
        for x in self.t[start + 1:end - 1]:
            if x.kind == "punct" and x.text in _OPEN:
                depth += 1
            elif x.kind == "punct" and x.text in (")", "]", "}"):
                depth -= 1
            if depth == 0 and x.kind == "punct" and x.text == ",":
                groups.append(cur); cur = []
            else:
                cur.append(x)
        if cur:
            groups.append(cur)
        if len(groups) != len(params):
            raise Unsupported(f"macro `{name}!`: {len(groups)} arguments for {len(params)} parameters")
        sub = dict(zip(params, groups))
        out = [Tok("punct", "{", -1)]
        k = 0
        while k < len(body):
            x = body[k]
            if x.text == "$" and k + 1 < len(body) and body[k + 1].kind == "ident":
                pn = body[k + 1].text
                if pn not in sub:
                    raise Unsupported(f"macro `{name}!`: unknown parameter ${pn}")
                g = sub[pn]
                if len(g) == 1:
                    out += g
                else:
                    simple = all(y.kind in ("ident", "num") or y.text in (".", "::") for y in g)
                    out += g if simple else [Tok("punct", "(", -1)] + g + [Tok("punct", ")", -1)]
                k += 2
                continue
            out.append(x)
            k += 1
        out.append(Tok("punct", "}", -1))
        sp = Parser(out, 0, len(out), self.macros)
        sp.expansions = self.expansions
        blk = sp.block()
        if sp.i != len(out):
            raise Unsupported(f"macro `{name}!`: trailing tokens after expansion")
        self.i = end
        return blk


def parse_int(text):
    m = re.fullmatch(r"(0x[0-9a-fA-F_]+?|0b[01_]+|0o[0-7_]+|[0-9][0-9_]*)((?:[iu](?:8|16|32|64|128|size))?)", text)
    if not m:
        raise Unsupported(f"literal `{text}` is not an integer literal")
    body = m.group(1).replace("_", "")
    if body.startswith("0x"):
        v = int(body[2:], 16)
    elif body.startswith("0b"):
        v = int(body[2:], 2)
    elif body.startswith("0o"):
        v = int(body[2:], 8)
    else:
        v = int(body, 10)
    return v, (m.group(2) or None)


def parse_macro(item):
    """single-rule macro_rules with `$x:expr` parameters -> ([param names], [body tokens])"""
    t = item.toks
    i = item.lo + 1
    if t[i].text not in _OPEN:
        raise Unsupported("macro_rules: pattern")
    pe = skip_group(t, i)
    pat = t[i + 1:pe - 1]
    params = []
    k = 0
    while k < len(pat):
        if pat[k].text == "$" and k + 3 < len(pat) + 1 and pat[k + 1].kind == "ident" and pat[k + 2].text == ":" \
                and pat[k + 3].text == "expr":
            params.append(pat[k + 1].text)
            k += 4
            if k < len(pat):
                if pat[k].text != ",":
                    raise Unsupported("macro_rules: only comma separated `$x:expr` parameters are supported")
                k += 1
        else:
            raise Unsupported("macro_rules: only `$x:expr` parameters are supported")
    if pe >= item.hi or t[pe].text != "=>" or t[pe + 1].text not in _OPEN:
        raise Unsupported("macro_rules: expected `=>`")
    be = skip_group(t, pe + 1)
    body = t[pe + 2:be - 1]
    rest = [x for x in t[be:item.hi - 1] if x.text != ";"]
    if rest:
        raise Unsupported("macro_rules with several rules")
    return params, body


def parse_fn(item, macros=None):
    """-> N('fn', name, params=[(kind, name, mut, type)], ret=type|None, body=block, typarams={T: type})"""
    p = Parser(item.toks, item.lo, item.hi, macros)
    p.expect("fn")
    name = p.ident()
    typarams = {}

    def bound(tp, b):
        # `T: IntoIterator<Item = X>` / `Iterator<Item = X>`: the parameter is translated as a list of X
        if b[0] == "name" and b[1][-1] in ("IntoIterator", "Iterator") and len(b[2]) == 1 and b[2][0][0] == "assoc" \
                and b[2][0][1] == "Item":
            typarams[tp] = ("name", ["Vec"], [b[2][0][2]])
        else:
            raise Unsupported(f"generic parameter `{tp}` with an unsupported bound")
    if p.eat("<"):
        while not p.at(">"):
            if p.peek().kind == "lifetime":
                p.i += 1
            else:
                tp = p.ident()
                typarams.setdefault(tp, None)
                if p.eat(":"):
                    bound(tp, p.type_())
            if not p.eat(","):
                break
        p.close_angle()
    p.expect("(")
    params = []
    while not p.at(")"):
        if p.at("&") and p.peek(1).text == "self":
            p.i += 2
            params.append(("self", "self", False, None))
        elif p.at("&") and p.peek(1).text == "mut" and p.peek(2).text == "self":
            p.i += 3
            params.append(("mutself", "self", True, None))
        elif p.at("self"):
            p.i += 1
            params.append(("self", "self", False, None))
        elif p.at("mut") and p.peek(1).text == "self":
            raise Unsupported("`mut self` is not supported")
        else:
            mut = p.eat("mut")
            pn = p.ident()
            p.expect(":")
            params.append(("param", pn, mut, p.type_()))
        if not p.eat(","):
            break
    p.expect(")")
    ret = None
    if p.eat("->"):
        ret = p.type_()
    if p.eat("where"):
        while not p.at("{"):
            tp = p.ident()
            p.expect(":")
            if tp not in typarams:
                raise Unsupported("`where` clause on something that is not a type parameter")
            bound(tp, p.type_())
            if not p.eat(","):
                break
    # an unbounded type parameter is tolerated as long as no parameter / local type mentions it (a phantom such as
    # `create_pow_context<T>`): it is dropped here, so a use is refused as an unknown type
    for tp in [tp for tp, b in typarams.items() if b is None]:
        del typarams[tp]
    body = p.block()
    if p.i != item.hi:
        raise Unsupported("parse: trailing tokens after function body")
    return N("fn", name=name, params=params, ret=ret, body=body, typarams=typarams)


def parse_const(item):
    p = Parser(item.toks, item.lo, item.hi)
    p.expect("const")
    name = p.ident()
    p.expect(":")
    ty = p.type_()
    p.expect("=")
    e = p.expr()
    p.expect(";")
    return name, ty, e


def parse_struct(item):
    """-> ('tuple', [types]) | ('named', [(field, type)]) | ('unit',)"""
    p = Parser(item.toks, item.lo, item.hi)
    p.expect("struct")
    p.ident()
    if p.at("<"):
        raise Unsupported("generic struct")
    if p.eat("("):
        tys = []
        while not p.at(")"):
            p.eat("pub")
            if p.at("("):
                p.i = skip_group(p.t, p.i)
            tys.append(p.type_())
            if not p.eat(","):
                break
        p.expect(")")
        return ("tuple", tys)
    if p.eat("{"):
        fields = []
        while not p.at("}"):
            while p.at("#"):
                p.i += 1
                p.i = skip_group(p.t, p.i)
            if p.eat("pub") and p.at("("):
                p.i = skip_group(p.t, p.i)
            fn_ = p.ident()
            p.expect(":")
            fields.append((fn_, p.type_()))
            if not p.eat(","):
                break
        p.expect("}")
        return ("named", fields)
    return ("unit",)


def parse_enum(item, payloads=None):
    """-> [variant names]; `payloads` (a dict, if given) receives variant -> [(field name | None, type)] for the
    variants with fields (without it such variants are refused)"""
    p = Parser(item.toks, item.lo, item.hi)
    p.expect("enum")
    p.ident()
    if p.at("<"):
        raise Unsupported("generic enum")
    p.expect("{")
    vs = []
    while not p.at("}"):
        while p.at("#"):
            p.i += 1
            p.i = skip_group(p.t, p.i)
        v = p.ident()
        if p.at("(") or p.at("{"):
            if payloads is None:
                raise Unsupported(f"enum variant `{v}` has fields")
            named = p.at("{")
            p.i += 1
            fs = []
            close = "}" if named else ")"
            while not p.at(close):
                while p.at("#"):
                    p.i += 1
                    p.i = skip_group(p.t, p.i)
                if p.eat("pub") and p.at("("):
                    p.i = skip_group(p.t, p.i)
                fn_ = None
                if named:
                    fn_ = p.ident()
                    p.expect(":")
                fs.append((fn_, p.type_()))
                if not p.eat(","):
                    break
            p.expect(close)
            payloads[v] = fs
        if p.eat("="):
            p.binary(0, True)          # explicit discriminant: irrelevant for matching
        vs.append(v)
        if not p.eat(","):
            break
    p.expect("}")
    return vs


# =============================================================================================
# 4. Types, unification, checker (name resolution + type inference)
# =============================================================================================
# types: 'u8' 'u16' 'u32' 'u64' 'usize' 'bool' 'unit' | ('tuple', (t..)) | ('option', t) | ('vec', t)
#        | ('enum', Name) | TVar

class TVar:
    def __init__(self, intonly=False):
        self.ref = None
        self.intonly = intonly


def prune(t):
    while isinstance(t, TVar) and t.ref is not None:
        t = t.ref
    if isinstance(t, tuple):
        if t[0] == "tuple":
            return ("tuple", tuple(prune(x) for x in t[1]))
        if t[0] in ("option", "vec"):
            return (t[0], prune(t[1]))
    return t


def show_ty(t):
    t = prune(t)
    if isinstance(t, TVar):
        return "{integer}" if t.intonly else "_"
    if isinstance(t, str):
        return t
    if t[0] == "tuple":
        return "(" + ", ".join(show_ty(x) for x in t[1]) + ")"
    if t[0] in ("enum", "struct", "opaque"):
        return t[1]
    if t[0] == "fnty":
        return "fn(" + ", ".join(show_ty(x) for x in t[1]) + ") -> " + show_ty(t[2])
    return t[0] + "<" + show_ty(t[1]) + ">"


def is_int(t):
    t = prune(t)
    return isinstance(t, str) and t in INT_TYPES


def unify(a, b, what=""):
    a, b = prune(a), prune(b)
    if a is b:
        return
    if isinstance(a, TVar):
        if isinstance(b, TVar):
            if b.intonly:
                a.ref = b
            else:
                b.ref = a
            return
        if a.intonly and not (isinstance(b, str) and b in INT_TYPES):
            raise Unsupported(f"type mismatch: integer vs {show_ty(b)} {what}")
        a.ref = b
        return
    if isinstance(b, TVar):
        return unify(b, a, what)
    if isinstance(a, str) or isinstance(b, str):
        if a != b:
            raise Unsupported(f"type mismatch: {show_ty(a)} vs {show_ty(b)} {what}")
        return
    if a[0] != b[0]:
        raise Unsupported(f"type mismatch: {show_ty(a)} vs {show_ty(b)} {what}")
    if a[0] == "tuple":
        if len(a[1]) != len(b[1]):
            raise Unsupported(f"tuple arity mismatch {what}")
        for x, y in zip(a[1], b[1]):
            unify(x, y, what)
    elif a[0] in ("enum", "struct", "opaque"):
        if a[1] != b[1]:
            raise Unsupported(f"type mismatch: {a[1]} vs {b[1]} {what}")
    else:
        unify(a[1], b[1], what)


class Binding:
    def __init__(self, name, ty, mut=False, kind="local"):
        self.name, self.ty, self.mut, self.kind = name, ty, mut, kind
        self.lean = None
        self.assigned = False


INT_METHODS_SAME = ("saturating_sub", "saturating_add", "saturating_mul", "wrapping_add", "wrapping_sub",
                    "wrapping_mul", "min", "max")
INT_METHODS_U32 = ("leading_zeros", "trailing_zeros", "count_ones", "count_zeros")
INT_METHODS_OPT = ("checked_sub", "checked_add")

# environment accessors (thread-local chain parameters): become extra leading parameters
ENV = [  # (rust fn name, module, lean parameter name, type)
    ("get_chain_type", "global", "chain_type", ("enum", "ChainTypes")),
    ("get_accept_fee_base", "global", "accept_fee_base", "u64"),
    ("is_nrd_enabled", "global", "nrd_enabled", "bool"),
]


class Checker:
    """Resolves names and infers types of one function (or one const initialiser)."""

    def __init__(self, world, file, impl_type):
        self.w = world
        self.file = file
        self.impl_type = impl_type
        self.scopes = [{}]
        self.bindings = []
        self.self_fields = {}      # field name -> Binding
        self.env_used = {}         # env lean name -> Binding
        self.callees = []
        self.consts = []
        self.ret = None
        self.lits = []
        self.casts = []
        self.loops = []
        self.shift_rhs = []
        self.typarams = {}
        self.abs_bind = {}       # abstracted parameters inherited from callees: name -> Binding
        self.range_loops = []
        self.self_mode = None      # None | "flat" | "whole"
        self.untyped_bins = []
        self.out_binding = None    # phase 7: the out-slice parameter and its "already passed" prefix
        self.out_done = None
        self.opaque = []           # phase 6: type names kept abstract (`Hash`): Lean type parameters of the definition
        self.method_fns = {}       # phase 6: method name -> Binding of a function-valued parameter (trait-method calls)

    # ---- scopes
    def declare(self, name, ty, mut=False, kind="local"):
        b = Binding(name, ty, mut, kind)
        self.scopes[-1][name] = b
        self.bindings.append(b)
        return b

    def lookup(self, name):
        for s in reversed(self.scopes):
            if name in s:
                return s[name]
        return None

    # ---- types
    def resolve_type(self, syn):
        if syn[0] == "ref":
            return self.resolve_type(syn[1])
        if syn[0] == "refmut":
            raise Unsupported("`&mut` types are not supported (only `&mut self`)")
        if syn[0] == "assoc":
            raise Unsupported("associated type binding outside an iterator bound")
        if syn[0] == "tuple":
            if not syn[1]:
                return "unit"
            return ("tuple", tuple(self.resolve_type(x) for x in syn[1]))
        _, segs, args = syn
        n = segs[-1]
        if n in INT_TYPES and not args:
            return n
        if n == "bool":
            return "bool"
        if n in ("i8", "i16", "i32", "i64", "i128", "isize", "f32", "f64"):
            raise Unsupported(f"type `{n}` is not supported")
        if len(segs) == 1 and n in self.typarams and not args:
            return self.resolve_type(self.typarams[n])
        if n == "Box" and len(args) == 1:
            return self.resolve_type(args[0])
        if n in ("Iterator", "IntoIterator") and len(args) == 1 and args[0][0] == "assoc" and args[0][1] == "Item":
            return ("vec", self.resolve_type(args[0][2]))
        if n == "Option" and len(args) == 1:
            return ("option", self.resolve_type(args[0]))
        if n == "Result" and len(args) == 2:
            # `Result<T, E>` is translated as `Option T`: which error is returned is not tracked
            return ("option", self.resolve_type(args[0]))
        if n == "Vec" and len(args) == 1:
            return ("vec", self.resolve_type(args[0]))
        if n in self.opaque and not args:
            return ("opaque", n)
        if n == "Bitmap" and not args:
            # `croaring::Bitmap`: a finite set of u32 = the strictly ascending list of its elements (phase 4)
            return ("vec", "u32")
        if n == "Range" and len(args) == 1:
            t = self.resolve_type(args[0])
            return ("tuple", (t, t))     # a half-open range is translated as the pair (start, end)
        if n == "Self":
            if self.impl_type is None:
                raise Unsupported("`Self` outside an impl")
            n = self.impl_type
        if args:
            raise Unsupported(f"generic type `{n}<..>` is not supported")
        return self.w.named_type(n)

    def self_field(self, fname):
        if self.impl_type is None:
            raise Unsupported("`self` outside an impl")
        if fname in self.self_fields:
            return self.self_fields[fname]
        st = self.w.struct(self.impl_type)
        if st[0] == "tuple":
            if not fname.isdigit() or int(fname) >= len(st[1]):
                raise Unsupported(f"no field `{fname}` on {self.impl_type}")
            ty = self.resolve_type(st[1][int(fname)])
        elif st[0] == "named":
            d = dict(st[1])
            if fname not in d:
                raise Unsupported(f"no field `{fname}` on {self.impl_type}")
            ty = self.resolve_type(d[fname])
        else:
            raise Unsupported("unit struct has no fields")
        b = Binding("self." + fname, ty, False, "selffield")
        b.field = fname
        self.self_fields[fname] = b
        return b

    def self_value(self):
        """`self` / `*self` used as a value: only for a newtype (one-field tuple struct)."""
        st = self.w.struct(self.impl_type) if self.impl_type else None
        if not st or st[0] != "tuple" or len(st[1]) != 1:
            raise Unsupported("`self` used as a value (only supported for one-field tuple structs)")
        return self.self_field("0")

    def env(self, rec):
        _, _, lname, ty = rec
        if lname not in self.env_used:
            b = Binding(lname, ty, False, "env")
            self.env_used[lname] = b
        return self.env_used[lname]

    # ---- expressions
    def infer(self, e):
        t = self._infer(e)
        e.ty = t
        return t

    def _infer(self, e):
        k = e.kind
        if k == "lit":
            self.lits.append(e)
            if e.suffix:
                if e.suffix not in INT_TYPES:
                    raise Unsupported(f"literal suffix `{e.suffix}` is not supported")
                return e.suffix
            return TVar(intonly=True)
        if k == "boollit":
            return "bool"
        if k == "paren":
            return self.infer(e.e)
        if k == "path":
            return self.infer_path(e)
        if k == "un":
            t = self.infer(e.e)
            if e.op in ("*", "&"):
                return t
            if e.op == "!":
                return t
            raise Unsupported("unary `-` is not supported on unsigned integers")
        if k == "bin":
            op = e.op
            lt, rt = self.infer(e.l), self.infer(e.r)
            if op in ("&&", "||"):
                unify(lt, "bool", "in `&&`/`||`"); unify(rt, "bool", "in `&&`/`||`")
                return "bool"
            if op in ("==", "!=", "<", ">", "<=", ">="):
                unify(lt, rt, f"in `{op}`")
                return "bool"
            if op in ("<<", ">>"):
                self.need_int(lt, op); self.need_int(rt, op)
                self.shift_rhs.append(e.r)
                return lt
            unify(lt, rt, f"in `{op}`")
            if op in ("+", "-", "*", "/", "%"):
                self.need_int(lt, op)
                self.untyped_bins.append(e)
            return lt
        if k == "cast":
            t = self.infer(e.e)
            to = self.resolve_type(e.to)
            if not is_int(to):
                raise Unsupported(f"cast to `{show_ty(to)}` is not supported")
            self.casts.append(e)
            return to
        if k == "tuple":
            if not e.elems:
                return "unit"
            return ("tuple", tuple(self.infer(x) for x in e.elems))
        if k == "vec":
            t = TVar()
            for x in e.elems:
                unify(self.infer(x), t, "in vec![]")
            return ("vec", t)
        if k == "range":
            if e.lo is None or e.hi is None:
                raise Unsupported("open range outside an index expression")
            a, b = self.infer(e.lo), self.infer(e.hi)
            unify(a, b, "in range")
            self.need_int(a, "..")
            if e.inclusive or getattr(e, "force_list", False):
                e.aslist = True            # a range used as an iterator: the list of its elements
                return ("vec", a)
            e.aslist = False
            return ("tuple", (a, b))
        if k == "field":
            return self.infer_field(e)
        if k == "call":
            return self.infer_call(e)
        if k == "mcall":
            return self.infer_mcall(e)
        if k == "if":
            unify(self.infer(e.c), "bool", "in `if` condition")
            tt = self.infer(e.th)
            if e.el is None:
                unify(tt, "unit", "(`if` without `else` must have unit type)")
                return "unit"
            te = self.infer(e.el)
            unify(tt, te, "between `if` branches")
            return tt
        if k == "match":
            st = self.infer(e.s)
            rt = TVar()
            for pat, body in e.arms:
                self.scopes.append({})
                self.check_pattern(pat, st, allow_bind=True)
                unify(self.infer(body), rt, "between `match` arms")
                self.scopes.pop()
            return rt
        if k == "block":
            return self.infer_block(e)
        if k == "while":
            unify(self.infer(e.c), "bool", "in `while` condition")
            unify(self.infer(e.body), "unit", "(`while` body)")
            self.loops.append(e)
            return "unit"
        if k == "return":
            if e.value is None:
                unify(self.ret, "unit", "in `return`")
            else:
                unify(self.infer(e.value), self.ret, "in `return`")
            return TVar()
        if k in ("break", "continue"):
            return TVar()
        if k == "for":
            it = e.it
            while it.kind == "paren":
                it = it.e
            if it.kind == "range":
                if it.inclusive or it.lo is None or it.hi is None:
                    raise Unsupported("`for` over an inclusive or open range")
                a, b = self.infer(it.lo), self.infer(it.hi)
                unify(a, b, "in range")
                self.need_int(a, "..")
                it.ty = ("tuple", (a, b))
                e.over = "range"
                elt = a
                self.range_loops.append(it)
            else:
                t = prune(self.infer(it))
                if not (isinstance(t, tuple) and t[0] == "vec"):
                    raise Unsupported(f"`for` over a value of type {show_ty(t)}")
                e.over = "list"
                elt = t[1]
            e.itn = it
            self.scopes.append({})
            self.check_pattern(e.pat, elt, allow_bind=True)
            unify(self.infer(e.body), "unit", "(`for` body)")
            self.scopes.pop()
            self.loops.append(e)
            return "unit"
        if k == "index":
            bt = prune(self.infer(e.e))
            if not (isinstance(bt, tuple) and bt[0] == "vec"):
                raise Unsupported(f"indexing a value of type {show_ty(bt)}")
            ix = e.i
            while ix.kind == "paren":
                ix = ix.e
            if ix.kind == "range":
                if ix.inclusive:
                    raise Unsupported("inclusive range in a slice")
                for part in (ix.lo, ix.hi):
                    if part is not None:
                        unify(self.infer(part), "usize", "in slice bound")
                ix.ty = "unit"
                e.slice = ix
                return bt
            e.slice = None
            unify(self.infer(e.i), "usize", "in index")
            return bt[1]
        if k == "try":
            t = prune(self.infer(e.e))
            rt = prune(self.ret)
            if not (isinstance(rt, tuple) and rt[0] == "option"):
                raise Unsupported("`?` in a function that does not return an Option")
            v = TVar()
            unify(t, ("option", v), "operand of `?`")
            return v
        if k == "vecrep":
            t = self.infer(e.elem)
            unify(self.infer(e.n), "usize", "in `[x; n]`")
            return ("vec", t)
        if k == "structlit":
            return self.infer_structlit(e)
        if k == "closure":
            raise Unsupported("closure outside an iterator method argument")
        if k == "assert":
            unify(self.infer(e.c), "bool", "in `assert!`")
            return "unit"
        if k == "assign" and e.op == "=" and e.target.kind == "path" and len(e.target.path) == 1 \
                and self.out_binding is not None and self.lookup(e.target.path[0]) is self.out_binding:
            v = e.value
            while v.kind == "paren":
                v = v.e
            if v.kind == "un" and v.op == "&" and getattr(v, "mutb", False):
                v = v.e
            if not (v.kind == "index" and v.i.kind == "range" and v.i.hi is None and v.i.lo is not None
                    and v.e.kind == "path" and v.e.path == e.target.path):
                raise Unsupported("assignment to the out-slice parameter that is not `p = &mut p[a..]`")
            unify(self.infer(v.i.lo), "usize", "in slice bound")
            e.kind, e.binding, e.done, e.n = "advance", self.out_binding, self.out_done, v.i.lo
            return "unit"
        if k == "assign":
            tgt = e.target
            while tgt.kind == "paren" or (tgt.kind == "un" and tgt.op == "*"):
                tgt = tgt.e
            e.tkind = "var"
            if tgt.kind == "field":
                # x.f = v  (x a local / `self` of a record struct type)
                base = tgt.e
                while base.kind == "paren" or (base.kind == "un" and base.op == "*"):
                    base = base.e
                if base.kind != "path" or len(base.path) != 1:
                    raise Unsupported("assignment to a field of something that is not a local variable")
                tt = self.infer(tgt)
                if getattr(tgt, "res", ("",))[0] != "sfield":
                    raise Unsupported("assignment to a field that is not a field of a local struct value")
                e.tkind = "field"
                e.tfield = tgt
                root = base
            elif tgt.kind == "index":
                base = tgt.e
                while base.kind == "paren" or (base.kind == "un" and base.op == "*"):
                    base = base.e
                if base.kind != "path" or len(base.path) != 1:
                    raise Unsupported("assignment to an element of something that is not a local variable")
                tt = self.infer(tgt)
                if tgt.slice is not None:
                    raise Unsupported("assignment to a slice")
                e.tkind = "index"
                e.tindex = tgt
                root = base
            else:
                if tgt.kind != "path" or len(tgt.path) != 1:
                    raise Unsupported("assignment to something that is not a local variable")
                tt = self.infer(tgt)
                root = tgt
            if root.res[0] != "local" or root.res[1].kind not in ("local", "param"):
                raise Unsupported("assignment to something that is not a local variable")
            if root.res[1].kind == "param" and getattr(root.res[1], "byref", False) and e.tkind != "var":
                raise Unsupported("mutation through a reference parameter")
            e.binding = root.res[1]
            e.binding.assigned = True
            vt = self.infer(e.value)
            if e.op in ("<<=", ">>="):
                self.need_int(tt, e.op); self.need_int(vt, e.op)
                self.shift_rhs.append(e.value)
            else:
                unify(tt, vt, f"in `{e.op}`")
                if e.op in ("+=", "-=", "*=", "/=", "%="):
                    self.need_int(tt, e.op)
            return "unit"
        raise Unsupported(f"expression kind `{k}` is not supported")

    def need_int(self, t, op):
        t = prune(t)
        if isinstance(t, TVar):
            if not t.intonly:
                t.intonly = True
            return
        if not is_int(t):
            raise Unsupported(f"operator `{op}` on non-integer type {show_ty(t)}")

    def infer_block(self, b):
        self.scopes.append({})
        diverges = False
        for it in b.items:
            if it.kind == "let":
                ann = self.resolve_type(it.tyann) if it.tyann else None
                if it.init is not None:
                    t = self.infer(it.init)
                    if ann is not None:
                        unify(t, ann, "in `let` annotation")
                else:
                    t = ann if ann is not None else TVar()
                self.check_pattern(it.pat, t, allow_bind=True)
            else:
                t = self.infer(it.e)
                if it.e.kind in ("return", "break"):
                    diverges = True
                elif not it.semi:
                    unify(t, "unit", "(block-like expression statement)")
        if b.tail is not None:
            t = self.infer(b.tail)
        else:
            t = TVar() if diverges else "unit"
        self.scopes.pop()
        return t

    def check_pattern(self, p, ty, allow_bind):
        p.ty = ty
        k = p.kind
        if k == "pwild":
            return
        if k == "pident":
            if not allow_bind:
                raise Unsupported("bindings inside or-patterns")
            p.binding = self.declare(p.name, ty, p.mut)
            return
        if k == "ptuple":
            vs = tuple(TVar() for _ in p.elems)
            unify(ty, ("tuple", vs), "in tuple pattern")
            for q, v in zip(p.elems, vs):
                self.check_pattern(q, v, allow_bind)
            return
        if k == "pctor":
            if p.path[-1] == "Some" and len(p.args) == 1:
                v = TVar()
                unify(ty, ("option", v), "in `Some(..)` pattern")
                self.check_pattern(p.args[0], v, allow_bind)
                return
            if p.path[-1] in ("Ok",) and len(p.args) == 1:
                v = TVar()
                unify(ty, ("option", v), "in `Ok(..)` pattern")
                self.check_pattern(p.args[0], v, allow_bind)
                return
            if len(p.args) == 1 and len(p.path) == 1 and self.w.is_transparent(p.path[0]):
                # phase 6: pattern on a transparent one-field struct (`HeaderVersion(1)`): the pattern of the field
                unify(ty, self.w.named_type(p.path[0]), "in newtype pattern")
                self.check_pattern(p.args[0], ty, allow_bind)
                p.res = ("newtypeP",)
                return
            ev = self.w.enum_variant(p.path, soft=True)
            if ev is not None:
                pay = self.w.enums[ev[0]][2].get(ev[1])
                if pay is None or len(pay) != len(p.args) or any(fn_ is not None for fn_, _, _ in pay):
                    raise Unsupported(f"pattern `{'::'.join(p.path)}(..)` does not match the variant's fields")
                unify(ty, ("enum", ev[0]), "in enum pattern")
                for q, (_, _, fty) in zip(p.args, pay):
                    self.check_pattern(q, fty, allow_bind)
                p.res = ("variantP", ev[0], ev[1], list(p.args))
                return
            raise Unsupported(f"pattern `{'::'.join(p.path)}(..)` is not supported")
        if k == "pstruct":
            ev = self.w.enum_variant(p.path, soft=True)
            if ev is None:
                raise Unsupported("struct patterns are only supported for enum variants")
            pay = self.w.enums[ev[0]][2].get(ev[1])
            if pay is None or any(fn_ is None for fn_, _, _ in pay):
                raise Unsupported(f"`{'::'.join(p.path)} {{..}}` is not a struct-like variant")
            unify(ty, ("enum", ev[0]), "in enum pattern")
            given = dict(p.fields)
            subs = []
            for fn_, _, fty in pay:
                if fn_ in given:
                    q = given.pop(fn_)
                    self.check_pattern(q, fty, allow_bind)
                    subs.append(q)
                elif p.rest:
                    subs.append(N("pwild"))
                else:
                    raise Unsupported(f"pattern without field `{fn_}` and without `..`")
            if given:
                raise Unsupported(f"pattern with unknown field `{list(given)[0]}`")
            p.res = ("variantP", ev[0], ev[1], subs)
            return
        if k == "ppath":
            if p.path == ["None"]:
                unify(ty, ("option", TVar()), "in `None` pattern")
                p.res = ("none",)
                return
            en, var = self.w.enum_variant(p.path)
            if self.w.enums[en][2].get(var):
                raise Unsupported(f"pattern `{'::'.join(p.path)}` without the variant's fields")
            unify(ty, ("enum", en), "in enum pattern")
            p.res = ("variant", en, var)
            return
        if k == "por":
            for q in p.alts:
                self.check_pattern(q, ty, False)
            return
        if k == "plit":
            # phase 6: an integer literal pattern (`match v { 1 => .., _ => .. }`): a Lean `Nat` literal pattern
            unify(ty, p.suffix if p.suffix else TVar(intonly=True), "in literal pattern")
            return
        raise Unsupported(f"pattern kind {k}")

    def infer_path(self, e):
        segs = e.path
        if len(segs) == 1:
            n = segs[0]
            if n == "self":
                b = self.lookup("self")
                if b is None:
                    b = self.self_value()
                e.res = ("local", b)
                return b.ty
            b = self.lookup(n)
            if b is not None:
                e.res = ("local", b)
                return b.ty
            if n == "None":
                e.res = ("none",)
                return ("option", TVar())
        # integer associated constants
        if len(segs) >= 2 and segs[-2] in INT_TYPES and segs[-1] in ("MAX", "MIN"):
            ty = segs[-2]
            e.res = ("intconst", (2 ** INT_TYPES[ty] - 1) if segs[-1] == "MAX" else 0)
            return ty
        c = self.w.find_const(segs, self.file, self.impl_type)
        if c is not None:
            e.res = ("const", c)
            if c not in self.consts:
                self.consts.append(c)
            return c.ty
        ev = self.w.enum_variant(segs, soft=True)
        if ev is not None:
            e.res = ("variant", ev[0], ev[1])
            return ("enum", ev[0])
        raise Unsupported(f"cannot resolve name `{'::'.join(segs)}`")

    def infer_field(self, e):
        base = e.e
        while base.kind == "paren" or (base.kind == "un" and base.op in ("*", "&")):
            base = base.e
        if base.kind == "path" and base.path == ["self"] and self.lookup("self") is None:
            b = self.self_field(e.name)
            e.res = ("local", b)
            return b.ty
        t = prune(self.infer(e.e))
        if isinstance(t, tuple) and t[0] == "struct":
            info = self.w.struct_info(t[1])
            for rf, lf, fty in info.fields:
                if rf == e.name:
                    if fty is None:
                        raise Unsupported(f"field `{e.name}` of `{t[1]}` has an unsupported type")
                    e.res = ("sfield", lf, t[1])
                    return fty
            raise Unsupported(f"no field `{e.name}` on {t[1]}")
        if not e.name.isdigit():
            # field of a transparent one-field struct: the value itself (the nominal type is not tracked)
            cands = self.w.transparent_with_field(e.name)
            if len(cands) == 1 and is_same_shape(cands[0][1], t):
                e.res = ("ident",)
                return t
            if len(cands) > 1:
                raise Unsupported(f"field `.{e.name}`: several one-field structs have a field of this name")
        if e.name.isdigit():
            if isinstance(t, tuple) and t[0] == "tuple":
                i = int(e.name)
                if i >= len(t[1]):
                    raise Unsupported("tuple index out of range")
                e.res = ("tupleidx", i, len(t[1]))
                return t[1][i]
            if is_int(t) and e.name == "0":
                # `.0` of a newtype value (newtypes are transparent)
                e.res = ("ident",)
                return t
            raise Unsupported(f"`.{e.name}` on a value whose type is not known to be a tuple here")
        raise Unsupported(f"field access `.{e.name}` on a non-`self` value")

    def infer_structlit(self, e):
        n = e.path[-1]
        if n == "Self":
            n = self.impl_type
        if not n or not self.w.find_items("struct", n):
            raise Unsupported(f"struct literal of unknown struct `{n}`")
        info = self.w.struct_info(n)
        given = dict(e.fields)
        if len(given) != len(e.fields):
            raise Unsupported("duplicate field in struct literal")
        e.inits = []
        for rf, lf, fty in info.fields:
            if rf not in given:
                raise Unsupported(f"struct literal of `{n}` without field `{rf}`")
            v = given.pop(rf)
            if fty is None:
                vv = v
                while vv.kind == "paren":
                    vv = vv.e
                if not (vv.kind in ("lit", "boollit") or (vv.kind == "path" and
                                                           (vv.path == ["None"] or self.lookup(vv.path[0]) is not None or len(vv.path) == 1))):
                    raise Unsupported(f"initialiser of the untranslated field `{rf}` is not a plain value")
                continue
            unify(self.infer(v), fty, f"in field `{rf}` of `{n}`")
            e.inits.append((lf, v))
        if given:
            raise Unsupported(f"struct literal of `{n}` with unknown field `{list(given)[0]}`")
        e.sinfo = info
        if info.kind == "transparent":
            return prune(info.fields[0][2])
        return ("struct", n)

    def infer_closure(self, c, argtys):
        """type-check a closure against the parameter types; returns its result type"""
        if c.kind == "paren":
            return self.infer_closure(c.e, argtys)
        if c.kind != "closure":
            raise Unsupported("iterator method argument that is not a closure")
        if len(c.params) != len(argtys):
            raise Unsupported("closure arity")
        self.scopes.append({})
        for (pat, ty), at in zip(c.params, argtys):
            if ty is not None:
                unify(self.resolve_type(ty), at, "in closure parameter annotation")
            self.check_pattern(pat, at, allow_bind=True)
        saved = self.ret
        self.ret = TVar()          # `return` inside a closure is refused by the generator
        t = self.infer(c.body)
        self.ret = saved
        self.scopes.pop()
        c.ty = t
        return t

    def infer_call(self, e):
        segs = e.path
        n = segs[-1]
        args = e.args
        if len(segs) == 1:
            fb = self.lookup(n)
            if fb is not None and isinstance(prune(fb.ty), tuple) and prune(fb.ty)[0] == "fnty":
                # phase 6: call of a function-valued parameter (an abstracted call into untranslatable code)
                ft = prune(fb.ty)
                if len(args) != len(ft[1]):
                    raise Unsupported(f"arity mismatch calling the function parameter `{n}`")
                for a, t in zip(args, ft[1]):
                    unify(self.infer(a), t, f"in argument of `{n}`")
                e.res = ("fnparam", fb)
                return ft[2]
        if n in ("min", "max") and segs in ([n], ["cmp", n], ["std", "cmp", n]) and len(args) == 2 \
                and self.w.find_fn(segs, self.file, self.impl_type) is None:
            a, b = self.infer(args[0]), self.infer(args[1])
            unify(a, b, f"in `{n}`")
            self.need_int(a, n)
            e.res = (n,)
            return a
        if segs in (["Some"], ["Ok"]) and len(args) == 1:
            e.res = ("some",)
            return ("option", self.infer(args[0]))
        if segs == ["Err"] and len(args) == 1:
            # which error is returned is not tracked; the payload must be syntactically a plain value
            def plain(x):
                while x.kind == "paren":
                    x = x.e
                if x.kind == "mcall" and x.name in ("to_owned", "to_string", "into") and not x.args:
                    return plain(x.recv)
                return x.kind in ("path", "lit", "boollit", "strlit") or \
                    (x.kind == "call" and all(plain(y) for y in x.args))
            if not plain(args[0]):
                raise Unsupported("`Err(..)` whose payload is not a plain value")
            e.res = ("errnone",)
            return ("option", TVar())
        if len(segs) == 2 and segs[0] in INT_TYPES and n == "from_le_bytes" and len(args) == 1:
            unify(self.infer(args[0]), ("vec", "u8"), "in `from_le_bytes`")
            e.res = ("from_le_bytes", INT_TYPES[segs[0]] // 8)
            return segs[0]
        if segs == ["Box", "new"] and len(args) == 1:
            e.res = ("ident",)
            return self.infer(args[0])
        if segs[-2:] == ["Bitmap", "new"] and not args:
            e.res = ("emptyiter",)        # `croaring::Bitmap::new()`: the empty set (a bitmap is its ascending element list)
            return ("vec", "u32")
        if n == "empty" and len(segs) >= 2 and segs[-2] == "iter" and not args:
            e.res = ("emptyiter",)
            return ("vec", TVar())
        if len(segs) >= 2 and segs[-2] in INT_TYPES and n in ("max_value", "min_value") and not args:
            ty = segs[-2]
            e.res = ("intconst", (2 ** INT_TYPES[ty] - 1) if n == "max_value" else 0)
            return ty
        if len(segs) == 2 and segs[0] in INT_TYPES and n == "from" and len(args) == 1:
            t = self.infer(args[0])
            e.res = ("widen", segs[0])
            self.casts.append(e)
            return segs[0]
        # environment accessor
        for rec in ENV:
            if n == rec[0] and not args and (segs[:-1] in ([rec[1]], ["crate", rec[1]]) or
                                             (len(segs) == 1 and self.w.find_fn(segs, self.file, self.impl_type) is None)):
                b = self.env(rec)
                e.res = ("env", b)
                return b.ty
        # translated function
        f = self.w.find_fn(segs, self.file, self.impl_type)
        if f is not None:
            rec = self.w.translate(f)      # may raise Unsupported (propagates: caller untranslatable too)
            if rec.has_self:
                raise Unsupported(f"method `{'::'.join(segs)}` called without a receiver")
            self.inherit_abstract(rec)
            if len(args) != len(rec.params) - len(rec.abstract_names):
                raise Unsupported(f"arity mismatch calling `{n}`")
            for a, pb in zip(args, rec.params):
                unify(self.infer(a), pb.ty, f"in argument of `{n}`")
            for er in rec.env_recs:
                self.env(er)
            e.res = ("fn", rec)
            if rec not in self.callees:
                self.callees.append(rec)
            if getattr(rec, "out_index", None) is not None:
                a = args[rec.out_index]
                while a.kind == "paren" or (a.kind == "un" and a.op == "&"):
                    a = a.e
                if a.kind != "path" or a.res[0] != "local" or a.res[1].kind not in ("local", "param") \
                        or getattr(a.res[1], "byref", False):
                    raise Unsupported(f"out-slice argument of `{n}` is not `&mut <local>`")
                a.res[1].assigned = True
                e.res = ("fnout", rec, a.res[1])
                return "unit"
            return rec.ret
        # tuple-struct constructor of a record struct
        if len(segs) == 1 and n[0].isupper() and len(args) > 1:
            sn = n if n != "Self" else self.impl_type
            if sn and self.find_tuple_struct(sn):
                info = self.w.struct_info(sn)
                if len(args) != len(info.fields):
                    raise Unsupported(f"arity of `{sn}(..)`")
                e.inits = []
                for a, (rf, lf, fty) in zip(args, info.fields):
                    if fty is None:
                        raise Unsupported(f"field {rf} of `{sn}` has an unsupported type")
                    unify(self.infer(a), fty, f"in `{sn}(..)`")
                    e.inits.append((lf, a))
                e.sinfo = info
                e.res = ("tuplector",)
                return ("struct", sn)
        # newtype constructor
        if len(segs) == 1 and n[0].isupper() and len(args) == 1:
            nt = self.w.newtype_of(n if n != "Self" else (self.impl_type or n))
            if nt is not None:
                unify(self.infer(args[0]), self.resolve_type(nt), f"in `{n}(..)`")
                e.res = ("ident",)
                return prune(args[0].ty)
        raise Unsupported(f"call to `{'::'.join(segs)}`, which is not a translated function")

    def inherit_abstract(self, rec):
        """a callee with abstracted parameters: the caller gets (and passes on) parameters of the same names"""
        for pb in rec.params[len(rec.params) - len(rec.abstract_names):]:
            if pb.name not in self.abs_bind:
                b = Binding(pb.name, pb.ty, False, "param")
                self.abs_bind[pb.name] = b
            else:
                unify(self.abs_bind[pb.name].ty, pb.ty, f"abstracted parameter `{pb.name}`")

    def call_method(self, e, f, recv_node, recv_ty, is_self):
        """call of the whitelisted method `f` on a receiver"""
        n = e.name
        rec = self.w.translate(f)
        if rec.self_mode is None:
            raise Unsupported(f"`.{n}()` but `{n}` takes no self")
        self.inherit_abstract(rec)
        if len(e.args) != len(rec.params) - len(rec.abstract_names):
            raise Unsupported(f"arity mismatch calling `{n}`")
        for a, pb in zip(e.args, rec.params):
            unify(self.infer(a), pb.ty, f"in argument of `{n}`")
        for er in rec.env_recs:
            self.env(er)
        if rec not in self.callees:
            self.callees.append(rec)
        if is_self and self.lookup("self") is None:
            # flattened `self`: the callee's self fields are our self fields
            if rec.self_mode != "flat":
                raise Unsupported(f"`&mut self` method `{n}` called from a `&self` method")
            for fname in rec.self_field_names:
                self.self_field(fname)
            e.res = ("selfmethod", rec)
            return rec.ret
        if rec.self_mode == "whole":
            base = recv_node
            while base.kind == "paren" or (base.kind == "un" and base.op in ("*", "&")):
                base = base.e
            if base.kind != "path" or base.res[0] != "local" or base.res[1].kind not in ("local", "param"):
                raise Unsupported(f"`&mut self` method `{n}` on something that is not a local variable")
            if getattr(base.res[1], "byref", False):
                raise Unsupported("mutation through a reference parameter")
            base.res[1].assigned = True
            e.res = ("mutmethod", rec, base.res[1])
            return rec.ret
        e.res = ("method", rec, recv_ty)
        return rec.ret

    def find_tuple_struct(self, name):
        if not self.w.find_items("struct", name):
            return False
        return self.w.struct(name)[0] == "tuple"

    def infer_mcall(self, e):
        recv = e.recv
        base = recv
        while base.kind == "paren" or (base.kind == "un" and base.op in ("*", "&")):
            base = base.e
        n = e.name
        if base.kind == "path" and base.path == ["self"]:
            if self.impl_type is None:
                raise Unsupported("`self` outside an impl")
            f = self.w.find_fn([self.impl_type, n], self.file, self.impl_type)
            if f is not None:
                rt = self.infer(recv) if self.lookup("self") is not None else None
                return self.call_method(e, f, recv, rt, True)
            if self.lookup("self") is None and not (self.w.newtype_of(self.impl_type) is not None):
                raise Unsupported(f"method `{self.impl_type}::{n}` is not a translated function")
        if n in self.method_fns:
            # phase 6: a trait-method call abstracted as a function-valued parameter: receiver first
            fb = self.method_fns[n]
            ft = prune(fb.ty)
            if len(e.args) + 1 != len(ft[1]):
                raise Unsupported(f"arity mismatch calling the abstracted method `{n}`")
            for a, t in zip([recv] + list(e.args), ft[1]):
                unify(self.infer(a), t, f"in argument of `{n}`")
            e.res = ("fnparam_m", fb)
            return ft[2]
        if base.kind == "range":
            base.force_list = True
        rt = self.infer(recv)
        prt = prune(rt)
        if isinstance(prt, tuple) and prt[0] == "struct":
            f = self.w.find_fn([prt[1], n], self.file, self.impl_type)
            if f is None:
                if n == "clone" and not e.args:
                    e.res = ("identm",)
                    return rt
                raise Unsupported(f"method `{prt[1]}::{n}` is not a translated function")
            return self.call_method(e, f, recv, prt, False)
        if isinstance(prt, tuple) and prt[0] == "enum":
            f = self.w.find_fn([prt[1], n], self.file, self.impl_type)
            if f is None:
                raise Unsupported(f"method `{prt[1]}::{n}` is not a translated function")
            rec = self.w.translate(f)
            if rec.self_mode != "value":
                raise Unsupported(f"`{prt[1]}::{n}` does not take the enum by `&self`")
            self.inherit_abstract(rec)
            if len(e.args) != len(rec.params) - 1 - len(rec.abstract_names):
                raise Unsupported(f"arity mismatch calling `{n}`")
            for a, pb in zip(e.args, rec.params[1:]):
                unify(self.infer(a), pb.ty, f"in argument of `{n}`")
            for er in rec.env_recs:
                self.env(er)
            if rec not in self.callees:
                self.callees.append(rec)
            e.res = ("valuemethod", rec)
            return rec.ret
        if isinstance(prt, tuple) and prt[0] == "vec":
            return self.infer_vec_method(e, base, prt)
        if isinstance(prt, tuple) and prt[0] == "tuple" and len(prt[1]) == 2 and n == "contains" and len(e.args) == 1:
            # `Range<T>::contains(&x)` on a half-open range value (= the pair (start, end))
            unify(prt[1][0], prt[1][1], "in `Range::contains`")
            unify(self.infer(e.args[0]), prt[1][0], "in `Range::contains`")
            self.need_int(prt[1][0], "contains")
            e.res = ("rangecontains",)
            return "bool"
        if isinstance(prt, tuple) and prt[0] == "option":
            if n == "unwrap" and not e.args:
                e.res = ("optm", n)
                return prt[1]
            if n == "unwrap_or" and len(e.args) == 1:
                unify(self.infer(e.args[0]), prt[1], "in `unwrap_or`")
                e.res = ("optm", n)
                return prt[1]
            if n in ("is_some", "is_none") and not e.args:
                e.res = ("optm", n)
                return "bool"
            if n in ("clone", "cloned", "copied") and not e.args:
                e.res = ("identm",)
                return rt
            if n in ("ok_or", "ok_or_else") and len(e.args) == 1:
                # `Option<T>` -> `Result<T, E>`: both are `Option T` here (which error is dropped); the argument is not read
                e.res = ("identm",)
                return rt
            raise Unsupported(f"Option method `{n}` is not supported")
        if n in INT_METHODS_SAME and len(e.args) == 1:
            self.need_int(rt, n)
            unify(self.infer(e.args[0]), rt, f"in `.{n}()`")
            e.res = ("builtin", n)
            return rt
        if n in INT_METHODS_U32 and not e.args:
            self.need_int(rt, n)
            e.res = ("builtin", n)
            return "u32"
        if n == "to_le_bytes" and not e.args and is_int(prt):
            e.res = ("to_le_bytes", INT_TYPES[prt] // 8)
            return ("vec", "u8")
        if n in INT_METHODS_OPT and len(e.args) == 1:
            self.need_int(rt, n)
            unify(self.infer(e.args[0]), rt, f"in `.{n}()`")
            e.res = ("builtin", n)
            return ("option", rt)
        if n == "clone" and not e.args:
            e.res = ("identm",)
            return rt
        # method of a transparent one-field struct (the nominal type is not tracked): resolved by name
        cands = [w for w in self.w.whitelist if w.fn == n and w.impl and self.w.is_transparent(w.impl)]
        if len(cands) == 1:
            return self.call_method(e, cands[0], recv, prt, False)
        if len(cands) > 1:
            raise Unsupported(f"method `.{n}()` is ambiguous between transparent structs")
        raise Unsupported(f"method `.{n}()` is not supported")

    def infer_vec_method(self, e, base, prt):
        n, args, el = e.name, e.args, prt[1]

        def local_recv():
            if base.kind != "path" or base.res[0] != "local" or base.res[1].kind not in ("local", "param"):
                raise Unsupported(f"`{n}` on something that is not a local variable")
            if getattr(base.res[1], "byref", False):
                raise Unsupported("mutation through a reference parameter")
            base.res[1].assigned = True
            return base.res[1]
        if n in ("push", "add", "truncate", "clear", "remove_range") and base.kind == "field":
            # mutator on a field place (`self.cache.push(x)` in a `&mut self` method): `place = place.<pure variant>(..)`
            pure = N("mcall", recv=e.recv, name="__pure_" + n, args=list(args), turbofish=None)
            e.__dict__.clear()
            e.kind, e.target, e.op, e.value = "assign", pure.recv, "=", pure
            return self._infer(e)
        if n.startswith("__pure_"):
            m = n[7:]
            if m in ("push", "add") and len(args) == 1:
                unify(self.infer(args[0]), el, f"in `{m}`")
            elif m == "truncate" and len(args) == 1:
                unify(self.infer(args[0]), "usize", "in `truncate`")
            elif m == "remove_range" and len(args) == 1:
                unify(self.infer(args[0]), prt, "in `remove_range`")
            elif m == "clear" and not args:
                pass
            else:
                raise Unsupported(f"`{m}` with these arguments")
            e.res = ("vecm", n)
            return prt
        if n in ("add", "truncate", "clear", "remove_range"):
            raise Unsupported(f"`{n}` on something that is not a field of a `&mut self` struct")
        if n == "rank" and len(args) == 1:
            unify(self.infer(args[0]), el, "in `rank`")
            e.res = ("vecm", "bm_rank")
            return "u64"
        if n == "select" and len(args) == 1:
            unify(self.infer(args[0]), "u32", "in `select`")
            e.res = ("vecm", "bm_select")
            return ("option", el)
        if n in ("maximum", "minimum") and not args:
            e.res = ("vecm", "bm_" + n)
            return ("option", el)
        if n == "cardinality" and not args:
            e.res = ("vecm", "len")
            return "u64"
        if n == "push" and len(args) == 1:
            b = local_recv()
            unify(self.infer(args[0]), el, "in `push`")
            e.res = ("push", b)
            return "unit"
        if n == "reverse" and not args:
            e.res = ("reverse", local_recv())
            return "unit"
        if n == "copy_from_slice" and len(args) == 1 and base.kind == "index" and base.slice is not None \
                and base.slice.lo is None and base.e.kind == "path" and base.e.res[0] == "local" \
                and base.e.res[1].kind in ("local", "param") and not getattr(base.e.res[1], "byref", False):
            # `p[..k].copy_from_slice(src)` / `p[..].copy_from_slice(src)`: overwrite a prefix of the local list
            unify(self.infer(args[0]), prt, "in `copy_from_slice`")
            base.e.res[1].assigned = True
            e.res = ("copyprefix", base.e.res[1], base.slice.hi)
            return "unit"
        if n == "copy_from_slice" and len(args) == 1:
            unify(self.infer(args[0]), prt, "in `copy_from_slice`")
            e.res = ("copyfrom", local_recv())
            return "unit"
        if n == "next" and not args:
            e.res = ("next", local_recv())
            return ("option", el)
        if n in ("iter", "into_iter", "collect", "cloned", "copied", "to_vec", "clone", "as_slice", "iter_mut") \
                and not args:
            if n == "iter_mut":
                raise Unsupported("`iter_mut`")
            e.res = ("identm",)
            return prt
        if n in ("skip", "take") and len(args) == 1:
            unify(self.infer(args[0]), "usize", f"in `{n}`")
            e.res = ("vecm", n)
            return prt
        if n == "rev" and not args:
            e.res = ("vecm", n)
            return prt
        if n in ("len", "count") and not args:
            e.res = ("vecm", "len")
            return "usize"
        if n == "is_empty" and not args:
            e.res = ("vecm", n)
            return "bool"
        if n in ("last", "first") and not args:
            e.res = ("vecm", n)
            return ("option", el)
        if n == "sum" and not args:
            self.need_int(el, "sum")
            if e.turbofish:
                unify(self.resolve_type(e.turbofish[0]), el, "in `sum::<T>`")
            e.res = ("vecm", n)
            return el
        if n in ("min", "max") and not args:
            self.need_int(el, n)
            e.res = ("vecm", "it" + n)
            return ("option", el)
        if n == "contains" and len(args) == 1:
            unify(self.infer(args[0]), el, "in `contains`")
            e.res = ("vecm", n)
            return "bool"
        if n == "map" and len(args) == 1:
            r = self.infer_closure(args[0], [el])
            e.res = ("vecm", n)
            return ("vec", r)
        if n == "filter" and len(args) == 1:
            unify(self.infer_closure(args[0], [el]), "bool", "closure of `filter`")
            e.res = ("vecm", n)
            return prt
        if n == "filter_map" and len(args) == 1:
            v = TVar()
            unify(self.infer_closure(args[0], [el]), ("option", v), "closure of `filter_map`")
            e.res = ("vecm", n)
            return ("vec", v)
        if n in ("any", "all") and len(args) == 1:
            unify(self.infer_closure(args[0], [el]), "bool", f"closure of `{n}`")
            e.res = ("vecm", n)
            return "bool"
        if n == "fold" and len(args) == 2:
            at = self.infer(args[0])
            unify(self.infer_closure(args[1], [at, el]), at, "closure of `fold`")
            e.res = ("vecm", n)
            return at
        if n == "scan" and len(args) == 2:
            at = self.infer(args[0])
            v = TVar()
            unify(self.infer_closure(args[1], [at, el]), ("option", v), "closure of `scan`")
            e.res = ("vecm", n)
            return ("vec", v)
        if n == "zip" and len(args) == 1:
            ot = prune(self.infer(args[0]))
            if not (isinstance(ot, tuple) and ot[0] == "vec"):
                raise Unsupported("`zip` with something that is not a list")
            e.res = ("vecm", n)
            return ("vec", ("tuple", (el, ot[1])))
        if n == "enumerate" and not args:
            e.res = ("vecm", n)
            return ("vec", ("tuple", ("usize", el)))
        raise Unsupported(f"Vec / iterator method `{n}` is not supported")

    # ---- after inference
    def finish(self):
        for r in self.shift_rhs:
            # an unconstrained literal shift amount is i32 in Rust; same (non-negative) value as u32
            while r.kind == "paren":
                r = r.e
            if r.kind == "lit" and isinstance(prune(r.ty), TVar) and r.value < 2 ** 31:
                unify(r.ty, "u32")
            elif r.kind == "bin" and isinstance(prune(r.ty), TVar) and small_literal_arith(r) is not None:
                # arithmetic on unconstrained literals (i32 in Rust) whose every intermediate value is in
                # [0, 2^31): the same value in u32
                unify(r.ty, "u32")
        for r in self.range_loops:
            # `for _ in 0..4`: unconstrained literal bounds are i32 in Rust; same iteration count as u32
            if isinstance(prune(r.ty[1][0]), TVar) and small_literal_arith(r.lo) is not None \
                    and small_literal_arith(r.hi) is not None:
                unify(r.ty[1][0], "u32")
        for l in self.lits:
            t = prune(l.ty)
            if isinstance(t, TVar):
                l.defaulted = True      # only legal directly under a cast (checked in finish_casts)
                continue
            if l.value >= 2 ** INT_TYPES[t]:
                raise Unsupported(f"literal {l.value} does not fit `{t}`")
        for c in self.casts:
            src = c.e if c.kind == "cast" else c.args[0]
            inner = src
            while inner.kind == "paren":
                inner = inner.e
            t = prune(src.ty)
            if isinstance(t, TVar):
                if inner.kind == "lit" and inner.value < 2 ** 31:
                    # unconstrained literal under a cast: i32 in Rust, same value in the target type
                    inner.ty = prune(c.ty)
                    inner.defaulted = False
                    src.ty = inner.ty
                    t.ref = inner.ty
                    continue
                raise Unsupported("cast of an expression whose integer type is not determined")
            if t == "bool":
                continue
            if not is_int(t):
                raise Unsupported(f"cast from `{show_ty(t)}` is not supported")
            if c.kind == "call" and INT_TYPES[t] > INT_TYPES[c.res[1]]:
                raise Unsupported("`from` that is not a widening")
        for l in self.lits:
            t = prune(l.ty)
            if isinstance(t, TVar):
                raise Unsupported(f"type of integer literal {l.value} is not determined (would be i32)")
            if l.value >= 2 ** INT_TYPES[t]:
                raise Unsupported(f"literal {l.value} does not fit `{t}`")
        for b in self.bindings:
            t = prune(b.ty)
            if contains_tvar(t):
                raise Unsupported(f"type of `{b.name}` is not determined")


def small_literal_arith(e):
    """value of an expression built from integer literals with + - * only, if every intermediate value lies in
    [0, 2^31) (so that i32 and u32 arithmetic agree); otherwise None"""
    while e.kind == "paren":
        e = e.e
    if e.kind == "lit" and e.suffix is None:
        return e.value if e.value < 2 ** 31 else None
    if e.kind == "bin" and e.op in ("+", "-", "*"):
        a, b = small_literal_arith(e.l), small_literal_arith(e.r)
        if a is None or b is None:
            return None
        v = a + b if e.op == "+" else a - b if e.op == "-" else a * b
        return v if 0 <= v < 2 ** 31 else None
    return None


def is_same_shape(a, b):
    try:
        unify(a, b)
        return True
    except Unsupported:
        return False


def contains_tvar(t):
    t = prune(t)
    if isinstance(t, TVar):
        return True
    if isinstance(t, tuple) and t[0] == "tuple":
        return any(contains_tvar(x) for x in t[1])
    if isinstance(t, tuple) and t[0] in ("option", "vec"):
        return contains_tvar(t[1])
    return False


# =============================================================================================
# 5. Code generation
# =============================================================================================

LEAN_KEYWORDS = set("""at end from fun then else if have show open local instance def theorem let in do where with
match by namespace section variable universe import structure class inductive deriving mutual macro syntax
notation infix infixl infixr prefix postfix calc for unless return break continue try catch finally using
forall exists Type Prop Sort abbrev example axiom opaque private protected partial unsafe noncomputable
attribute set_option export extends this suffices obtain nomatch nofun mut rec termination_by decreasing_by
true false""".split())

HELPER_NAMES = set("""u64 addW subW mulW shlW shrW satSub popcount bitLen leadingZeros64 trailingOnes min max some
none decide not addN subN mulN shlN shrN castN notN satAddN satMulN leadingZerosN trailingZerosN countZerosN
checkedSub checkedAddN fuel Nat Bool List Option bmRank bmSelect bmAdd bmRemoveAll idx unwrapD scanOpt enumerateL ofLE leBytes Flow trailingZeros
Unit default true false id""".split())


def lean_ty(t):
    t = prune(t)
    if isinstance(t, str):
        if t in INT_TYPES:
            return "Nat"
        if t == "bool":
            return "Bool"
        if t == "unit":
            return "Unit"
        raise Unsupported(f"type {t}")
    if isinstance(t, TVar):
        raise Unsupported("undetermined type")
    if t[0] == "tuple":
        return " × ".join(("(" + lean_ty(x) + ")") if (isinstance(prune(x), tuple) and prune(x)[0] == "tuple") else lean_ty(x)
                          for x in t[1][:-1]) + " × " + lean_ty(t[1][-1])
    if t[0] == "option":
        return "Option " + atom_ty(t[1])
    if t[0] == "vec":
        return "List " + atom_ty(t[1])
    if t[0] in ("enum", "struct", "opaque"):
        return t[1]
    if t[0] == "fnty":
        if not t[1]:
            return lean_ty(t[2])       # `fn() -> R`: a pure nullary call is its value
        return " → ".join(atom_ty(x) for x in t[1]) + " → " + atom_ty(t[2])
    raise Unsupported(f"type {t}")


def atom_ty(t):
    s = lean_ty(t)
    return s if re.fullmatch(r"[A-Za-z0-9_.]+", s) else "(" + s + ")"


def default_val(t):
    t = prune(t)
    if isinstance(t, str) and t in INT_TYPES:
        return "0"
    if t == "bool":
        return "false"
    if isinstance(t, tuple) and t[0] == "tuple":
        return "(" + ", ".join(default_val(x) for x in t[1]) + ")"
    if isinstance(t, tuple) and t[0] == "option":
        return "none"
    if isinstance(t, tuple) and t[0] == "vec":
        return "[]"
    if isinstance(t, tuple) and t[0] == "opaque":
        return "default"
    if isinstance(t, tuple) and t[0] in ("struct", "enum"):
        return "default"
    raise Unsupported("uninitialised `let` of this type")


def is_atomic(s):
    return re.fullmatch(r"[A-Za-z0-9_.«»']+", s) is not None


def P(s):
    return s if is_atomic(s) or (s.startswith("(") and _balanced_outer(s)) else "(" + s + ")"


def _balanced_outer(s):
    d = 0
    for i, c in enumerate(s):
        if c == "(":
            d += 1
        elif c == ")":
            d -= 1
            if d == 0 and i != len(s) - 1:
                return False
    return d == 0 and s.endswith(")")


def indent(doc, n=2):
    return [" " * n + l for l in doc]


def paren_doc(doc):
    if len(doc) == 1:
        return [P(doc[0])]
    return ["("] + indent(doc) + [")"]


def let_doc(name, val, rest):
    if len(val) == 1:
        return [f"let {name} := {val[0]}"] + rest
    return [f"let {name} :="] + indent(val) + rest


def ite_doc(c, a, b):
    if a == ["true"] and b == ["true"]:
        return ["true"]
    return [f"if {c} then"] + indent(a) + ["else"] + indent(b)


def and_docs(*docs):
    ds = [d for d in docs if d is not None and d != ["true"]]
    if not ds:
        return ["true"]
    if len(ds) == 1:
        return ds[0]
    out = []
    for i, d in enumerate(ds):
        p = paren_doc(d)
        if i < len(ds) - 1:
            p = p[:-1] + [p[-1] + " &&"]
        out += p
    return out


def proj(text, i, n):
    if n == 1:
        return text
    s = P(text)
    if i < n - 1:
        return s + ".2" * i + ".1"
    return s + ".2" * i


class Ctx:
    def __init__(self, mode, on_end, on_break, on_return, on_continue=None, on_retval=None):
        self.mode, self.on_end, self.on_break, self.on_return = mode, on_end, on_break, on_return
        self.on_continue = on_continue or _no("`continue` outside a loop")
        # doc of "the function returns the (already formatted) final result `text`" at this point: identity at
        # function level, `.ret text` inside a loop that contains a `return` (phase 4)
        self.on_retval = on_retval or (lambda text: [text])

    def but(self, **kw):
        c = Ctx(self.mode, self.on_end, self.on_break, self.on_return, self.on_continue, self.on_retval)
        c.__dict__.update(kw)
        return c


def _no(what):
    def f(*a):
        raise Unsupported(what)
    return f


def walk(n, f):
    """pre-order walk over AST nodes (expressions, statements, patterns)"""
    if isinstance(n, N):
        f(n)
        for k, v in n.__dict__.items():
            if k in ("ty", "res", "binding", "to", "tyann"):
                continue
            walk(v, f)
    elif isinstance(n, (list, tuple)):
        for x in n:
            walk(x, f)


def has_ctrl(n):
    """contains `return`, or a `break`/`continue` that is not inside a nested loop"""
    if n is None:
        return False
    found = [False]

    def go(x, inloop):
        if isinstance(x, N):
            if x.kind == "return":
                found[0] = True
            if x.kind in ("break", "continue") and not inloop:
                found[0] = True
            if x.kind == "closure":
                return
            il = inloop or x.kind in ("while", "for")
            for k, v in x.__dict__.items():
                if k in ("ty", "res", "binding", "to", "tyann"):
                    continue
                go(v, il)
        elif isinstance(x, (list, tuple)):
            for y in x:
                go(y, inloop)
    go(n, False)
    return found[0]


def has_return(n):
    f = [False]
    walk(n, lambda x: f.__setitem__(0, True) if x.kind in ("return", "try") else None)   # `e?` may return
    return f[0]


def declared_in(n):
    out = []
    walk(n, lambda x: out.append(x.binding) if x.kind == "pident" and hasattr(x, "binding") else None)
    return out


def assigned_in(n):
    out = []

    def f(x):
        if x.kind == "assign" and x.binding not in out:
            out.append(x.binding)
        if x.kind == "mcall" and getattr(x, "res", None) and x.res[0] in ("push", "reverse", "next", "copyfrom") \
                and x.res[1] not in out:
            out.append(x.res[1])
        if x.kind == "mcall" and getattr(x, "res", None) and x.res[0] == "mutmethod" and x.res[2] not in out:
            out.append(x.res[2])
        if x.kind == "mcall" and getattr(x, "res", None) and x.res[0] == "copyprefix" and x.res[1] not in out:
            out.append(x.res[1])
        if x.kind == "advance":
            for b in (x.binding, x.done):
                if b not in out:
                    out.append(b)
        if x.kind == "call" and getattr(x, "res", None) and x.res[0] == "fnout" and x.res[2] not in out:
            out.append(x.res[2])
    walk(n, f)
    return out


def used_in(n):
    out = []

    def f(x):
        r = getattr(x, "res", None)
        if r and r[0] in ("local", "env", "fnparam", "fnparam_m") and r[1] not in out:
            out.append(r[1])
        if r and r[0] in ("fn", "selfmethod"):
            pass
    walk(n, f)
    return out


class Gen:
    def __init__(self, world, rec, chk, fuel):
        self.w, self.rec, self.chk, self.fuel = world, rec, chk, fuel
        self.aux = []          # auxiliary defs (loops), in dependency order
        self.loop_names = {}   # id(while node) -> (loopname, exitsname, S, caps)
        self.tmp = 0
        self.nloops = 0
        self.nclosures = 0
        self.pending = []      # side effects of `next()` inside the expression being translated
        self.used_names = set()
        self.tyb = "".join(f" {{{n} : Type}} [Inhabited {n}] [DecidableEq {n}]" for n in getattr(chk, "opaque", []))
        self.fin_text = None   # AST of a returned value -> text of the function's final result (set by World._translate)
        self.ret_lean_ty = None

    # ---- names
    def assign_names(self, all_bindings, reserved):
        rust_names = {b.name for b in all_bindings}
        used = set()
        for b in all_bindings:
            if b.kind == "selffield":
                base = "self_" + b.field
            else:
                base = b.name
            if base.startswith("r#"):
                base = base[2:]
            if base in LEAN_KEYWORDS:
                base = "«" + base + "»"
            cand = base
            k = 0
            while cand in used or cand in reserved or cand in HELPER_NAMES or (cand != b.name and cand in rust_names):
                k += 1
                cand = f"{base}_{k}"
            b.lean = cand
            used.add(cand)
        self.used_names = used | rust_names

    def used(self, n):
        """bindings read in `n`, including the environment / flattened-self parameters its callees need"""
        out = used_in(n)

        def f(x):
            r = getattr(x, "res", None)
            if r and r[0] in ("fn", "selfmethod", "method", "mutmethod"):
                for er in r[1].env_recs:
                    b = self.chk.env_used[er[2]]
                    if b not in out:
                        out.append(b)
                if r[0] == "selfmethod":
                    for fn_ in r[1].self_field_names:
                        b = self.chk.self_fields[fn_]
                        if b not in out:
                            out.append(b)
        walk(n, f)
        return out

    def fresh(self, base):
        while True:
            self.tmp += 1
            c = f"{base}{self.tmp}"
            if c not in self.used_names and c not in HELPER_NAMES:
                self.used_names.add(c)
                return c

    # ---- pure expressions (single line)
    def bits(self, t):
        t = prune(t)
        if not is_int(t):
            raise Unsupported(f"integer operation on {show_ty(t)}")
        return INT_TYPES[t]

    def arith(self, op, w, a, b):
        a, b = P(a), P(b)
        if op in ("+", "-", "*", "<<", ">>"):
            n64 = {"+": "addW", "-": "subW", "*": "mulW", "<<": "shlW", ">>": "shrW"}[op]
            nw = {"+": "addN", "-": "subN", "*": "mulN", "<<": "shlN", ">>": "shrN"}[op]
            return f"{n64} {a} {b}" if w == 64 else f"{nw} {w} {a} {b}"
        if op in ("/", "%"):
            return f"{a} {op} {b}"
        if op == "&":
            return f"{a} &&& {b}"
        if op == "|":
            return f"{a} ||| {b}"
        if op == "^":
            return f"{a} ^^^ {b}"
        raise Unsupported(f"operator {op}")

    def app(self, rec, selfargs, args):
        parts = [rec.lean]
        for er in rec.env_recs:
            parts.append(self.chk.env_used[er[2]].lean)
        parts += selfargs
        parts += [P(a) for a in args]
        parts += [self.chk.abs_bind[n].lean for n in rec.abstract_names]
        return " ".join(parts)

    def okapp(self, rec, selfargs, args):
        parts = [getattr(rec, "lean_ok", None) or (rec.lean + "_ok")]
        for er in rec.env_recs:
            parts.append(self.chk.env_used[er[2]].lean)
        parts += selfargs
        parts += [P(a) for a in args]
        parts += [self.chk.abs_bind[n].lean for n in rec.abstract_names]
        return " ".join(parts)

    def E(self, e):
        k = e.kind
        if k == "lit":
            return str(e.value)
        if k == "boollit":
            return "true" if e.value else "false"
        if k == "paren":
            return self.E(e.e)
        if k == "path":
            r = e.res
            if r[0] == "local":
                return r[1].lean
            if r[0] == "const":
                return r[1].ref
            if r[0] == "variant":
                return f"{r[1]}.{r[2]}"
            if r[0] == "intconst":
                return str(r[1])
            if r[0] == "none":
                return "none"
        if k == "un":
            if e.op in ("*", "&"):
                return self.E(e.e)
            if prune(e.ty) == "bool":
                return f"!{P(self.E(e.e))}"
            return f"notN {self.bits(e.ty)} {P(self.E(e.e))}"
        if k == "bin":
            op = e.op
            a, b = self.E(e.l), self.E(e.r)
            if op == "&&":
                return f"{P(a)} && {P(b)}"
            if op == "||":
                return f"{P(a)} || {P(b)}"
            if op == "==":
                return f"{P(a)} == {P(b)}"
            if op == "!=":
                return f"{P(a)} != {P(b)}"
            if op in ("<", ">", "<=", ">="):
                lop = {"<": "<", ">": ">", "<=": "≤", ">=": "≥"}[op]
                return f"decide ({a} {lop} {b})"
            if prune(e.ty) == "bool":
                return {"&": f"{P(a)} && {P(b)}", "|": f"{P(a)} || {P(b)}", "^": f"{P(a)} != {P(b)}"}[op]
            return self.arith(op, self.bits(e.l.ty), a, b)
        if k == "cast":
            return self.cast(e.e, prune(e.ty))
        if k == "tuple":
            if not e.elems:
                return "()"
            return "(" + ", ".join(self.E(x) for x in e.elems) + ")"
        if k == "vec":
            return "[" + ", ".join(self.E(x) for x in e.elems) + "]"
        if k == "range":
            if getattr(e, "aslist", False):
                lo, hi = self.E(e.lo), self.E(e.hi)
                # `lo..=hi` never overflows in Rust; `hi + 1 - lo` is exact on Nat
                return f"List.range' {P(lo)} ({hi} + 1 - {lo})" if e.inclusive else f"List.range' {P(lo)} ({hi} - {lo})"
            return f"({self.E(e.lo)}, {self.E(e.hi)})"
        if k == "field":
            r = e.res
            if r[0] == "local":
                return r[1].lean
            if r[0] == "tupleidx":
                return proj(self.E(e.e), r[1], r[2])
            if r[0] == "ident":
                return self.E(e.e)
            if r[0] == "sfield":
                return f"{P(self.E(e.e))}.{r[1]}"
        if k == "index":
            l = P(self.E(e.e))
            if e.slice is not None:
                lo = self.E(e.slice.lo) if e.slice.lo is not None else None
                hi = self.E(e.slice.hi) if e.slice.hi is not None else None
                inner = l if hi is None else f"(List.take {P(hi)} {l})"
                return inner if lo is None else f"List.drop {P(lo)} {inner}"
            return f"idx {l} {P(self.E(e.i))}"
        if k == "vecrep":
            return f"List.replicate {P(self.E(e.n))} {P(self.E(e.elem))}"
        if k == "structlit":
            if e.sinfo.kind == "transparent":
                return self.E(e.inits[0][1])
            return "({ " + ", ".join(f"{lf} := {self.E(v)}" for lf, v in e.inits) + f" }} : {e.sinfo.name})"
        if k == "try":
            raise Unsupported("`?` is only supported directly as the initialiser of a `let` or as a statement")
        if k == "closure":
            raise Unsupported("closure outside an iterator method argument")
        if k == "call":
            r = e.res
            if r[0] in ("min", "max"):
                return f"{r[0]} {P(self.E(e.args[0]))} {P(self.E(e.args[1]))}"
            if r[0] == "some":
                return f"some {P(self.E(e.args[0]))}"
            if r[0] == "emptyiter":
                return "[]"
            if r[0] == "errnone":
                return "none"
            if r[0] == "from_le_bytes":
                return f"ofLE {P(self.E(e.args[0]))}"
            if r[0] == "intconst":
                return str(r[1])
            if r[0] == "widen":
                return self.E(e.args[0])
            if r[0] == "env":
                return r[1].lean
            if r[0] == "ident":
                return self.E(e.args[0])
            if r[0] == "fn":
                return self.app(r[1], [], [self.E(a) for a in e.args])
            if r[0] == "fnparam":
                return " ".join([r[1].lean] + [P(self.E(a)) for a in e.args])
            if r[0] == "tuplector":
                return "({ " + ", ".join(f"{lf} := {self.E(v)}" for lf, v in e.inits) + f" }} : {e.sinfo.name})"
        if k == "mcall":
            r = e.res
            if r[0] == "selfmethod":
                sa = [self.chk.self_fields[f].lean for f in r[1].self_field_names]
                return self.app(r[1], sa, [self.E(a) for a in e.args])
            if r[0] == "identm":
                return self.E(e.recv)
            if r[0] == "valuemethod":
                return self.app(r[1], [], [self.E(e.recv)] + [self.E(a) for a in e.args])
            if r[0] == "fnparam_m":
                return " ".join([r[1].lean, P(self.E(e.recv))] + [P(self.E(a)) for a in e.args])
            if r[0] == "rangecontains":
                rg, x = P(self.E(e.recv)), self.E(e.args[0])
                return f"decide ({rg}.1 ≤ {x}) && decide ({x} < {rg}.2)"
            if r[0] == "method":
                return self.app(r[1], self.recv_fields(r[1], self.E(e.recv), r[2]), [self.E(a) for a in e.args])
            if r[0] == "mutmethod":
                raise Unsupported("`&mut self` method call inside an expression")
            if r[0] == "optm":
                o = P(self.E(e.recv))
                if r[1] == "unwrap":
                    return f"unwrapD {o}"
                if r[1] == "unwrap_or":
                    return f"Option.getD {o} {P(self.E(e.args[0]))}"
                return f"Option.isSome {o}" if r[1] == "is_some" else f"Option.isNone {o}"
            if r[0] == "next":
                b = r[1]
                if any(pb is b for pb, _ in self.pending):
                    raise Unsupported("two `next()` calls on the same iterator in one expression")
                self.pending.append((b, f"List.tail {b.lean}"))
                return f"List.head? {b.lean}"
            if r[0] in ("reverse", "copyfrom"):
                raise Unsupported(f"`{e.name}` inside an expression")
            if r[0] == "to_le_bytes":
                return f"leBytes {r[1]} {P(self.E(e.recv))}"
            if r[0] == "vecm":
                return self.vecm(e, r[1])
            if r[0] == "builtin":
                n = r[1]
                w = self.bits(e.recv.ty)
                a = P(self.E(e.recv))
                if n in INT_METHODS_U32:
                    if n == "count_ones":
                        return f"popcount {a}"
                    if n == "leading_zeros":
                        return f"leadingZeros64 {a}" if w == 64 else f"leadingZerosN {w} {a}"
                    if n == "trailing_zeros":
                        return f"trailingZerosN {w} {a}"
                    return f"countZerosN {w} {a}"
                b = P(self.E(e.args[0]))
                if n == "saturating_sub":
                    return f"satSub {a} {b}"
                if n == "saturating_add":
                    return f"satAddN {w} {a} {b}"
                if n == "saturating_mul":
                    return f"satMulN {w} {a} {b}"
                if n in ("min", "max"):
                    return f"{n} {a} {b}"
                if n.startswith("wrapping_"):
                    return self.arith({"add": "+", "sub": "-", "mul": "*"}[n[9:]], w, a, b)
                if n == "checked_sub":
                    return f"checkedSub {a} {b}"
                if n == "checked_add":
                    return f"checkedAddN {w} {a} {b}"
            if r[0] == "push":
                raise Unsupported("`push` inside an expression")
        if k == "if":
            if e.el is None:
                raise Unsupported("`if` without `else` used as a value")
            return f"if {self.E(e.c)} then {P(self.EB(e.th))} else {P(self.EB(e.el))}"
        if k == "match":
            arms = " ".join(f"| {self.pat(p)} => {P(self.E(b) if b.kind != 'block' else self.EB(b))}" for p, b in e.arms)
            return f"match {self.E(e.s)} with {arms}"
        if k == "block":
            return self.EB(e)
        raise Unsupported(f"`{k}` inside an expression is not supported")

    def recv_fields(self, rec, recv_text, recv_ty):
        recv_ty = prune(recv_ty) if recv_ty is not None else None
        if isinstance(recv_ty, tuple) and recv_ty[0] == "struct":
            info = self.w.struct_info(recv_ty[1])
            lf = {rf: l for rf, l, _ in info.fields}
            return [f"{P(recv_text)}.{lf[f]}" for f in rec.self_field_names]
        return [P(recv_text) for _ in rec.self_field_names]

    def closure_inline(self, c):
        while c.kind == "paren":
            c = c.e
        if has_return(c.body) or has_ctrl(c.body):
            raise Unsupported("`return`/`break` inside a closure")
        own = declared_in(c)
        for b in assigned_in(c.body):
            if b not in own:
                raise Unsupported("closure that assigns a captured variable")
        if self.O(c.body) is not None:
            raise Unsupported("closure that can panic (its `_ok` condition would depend on the iteration)")
        params = " ".join(P(self.pat(p)) for p, _ in c.params) or "_"
        return f"fun {params} => {self.E(c.body)}"

    def closure_state(self, c, lname_hint):
        """closure `|acc, x| { stmts; Some(v) }` of `scan` whose body assigns `*acc`: an auxiliary definition
        `acc → x → acc × Option β`"""
        while c.kind == "paren":
            c = c.e
        if has_return(c.body) or has_ctrl(c.body):
            raise Unsupported("`return`/`break` inside a closure")
        own = declared_in(c)
        accp = c.params[0][0]
        if accp.kind != "pident":
            raise Unsupported("state parameter of the `scan` closure is not an identifier")
        acc = accp.binding
        for b in assigned_in(c.body):
            if b not in own:
                raise Unsupported("closure that assigns a captured variable")
        body = c.body if c.body.kind == "block" else N("block", items=[], tail=c.body)
        octx = Ctx("ok", lambda: ["true"], _no("break"), lambda v: [self.O(v) or "true"])
        if self.seq(body.items, 0, body.tail, octx) != ["true"]:
            raise Unsupported("closure that can panic (its `_ok` condition would depend on the iteration)")
        caps = [b for b in self.used(c.body) if b not in own]
        order = {id(b): i for i, b in enumerate(self.chk.bindings)}
        caps.sort(key=lambda b: (0 if b.kind == "env" else 1 if b.kind == "selffield" else 2, order.get(id(b), 0)))
        self.nclosures += 1
        name = f"{self.rec.lean}_closure{self.nclosures}"
        vctx = Ctx("val", _no("closure body ends without a value"), _no("break"),
                   lambda v: [f"({acc.lean}, {self.E(v)})"])
        doc = self.seq(body.items, 0, body.tail, vctx)
        capdecl = "".join(f" ({b.lean} : {lean_ty(b.ty)})" for b in caps)
        xs = []
        for pat, _ in c.params[1:]:
            xs.append((P(self.pat(pat)), pat.ty))
        decl = f" ({acc.lean} : {lean_ty(acc.ty)})" + "".join(f" ({n} : {lean_ty(t)})" for n, t in xs)
        rty = prune(c.ty)
        self.aux.append((f"/-- closure {self.nclosures} of `{self.rec.rust_name}` (state `{acc.name}` threaded through) -/",
                         [f"def {name}{self.tyb}{capdecl}{decl} : {atom_ty(acc.ty)} × {atom_ty(rty)} :="] + indent(doc)))
        return name + "".join(" " + b.lean for b in caps)

    def vecm(self, e, m):
        l = P(self.E(e.recv))
        a = e.args
        if m == "skip":
            return f"List.drop {P(self.E(a[0]))} {l}"
        if m == "take":
            return f"List.take {P(self.E(a[0]))} {l}"
        if m == "rev":
            return f"List.reverse {l}"
        if m == "len":
            return f"List.length {l}"
        if m == "is_empty":
            return f"List.isEmpty {l}"
        if m == "last":
            return f"List.getLast? {l}"
        if m == "first":
            return f"List.head? {l}"
        if m == "sum":
            w = self.bits(e.ty)
            return f"List.foldl addW 0 {l}" if w == 64 else f"List.foldl (addN {w}) 0 {l}"
        if m in ("itmin", "itmax"):
            return f"List.{m[2:]}? {l}"
        if m == "contains":
            return f"List.contains {l} {P(self.E(a[0]))}"
        if m == "map":
            return f"List.map ({self.closure_inline(a[0])}) {l}"
        if m == "filter":
            return f"List.filter ({self.closure_inline(a[0])}) {l}"
        if m == "filter_map":
            return f"List.filterMap ({self.closure_inline(a[0])}) {l}"
        if m in ("any", "all"):
            return f"List.{m} {l} ({self.closure_inline(a[0])})"
        if m == "fold":
            return f"List.foldl ({self.closure_inline(a[1])}) {P(self.E(a[0]))} {l}"
        if m == "scan":
            c = a[1]
            while c.kind == "paren":
                c = c.e
            own = declared_in(c)
            if any(b in own for b in assigned_in(c.body)):
                f = self.closure_state(c, "scan")
            else:
                accn = P(self.pat(c.params[0][0]))
                f = f"fun {accn} {P(self.pat(c.params[1][0]))} => ({accn}, {self.closure_inline_body(c)})"
            return f"scanOpt ({f}) {P(self.E(a[0]))} {l}"
        if m == "zip":
            return f"List.zip {l} {P(self.E(a[0]))}"
        if m == "enumerate":
            return f"enumerateL {l}"
        if m == "bm_rank":
            return f"bmRank {l} {P(self.E(a[0]))}"
        if m == "bm_select":
            return f"bmSelect {l} {P(self.E(a[0]))}"
        if m == "bm_maximum":
            return f"List.getLast? {l}"
        if m == "bm_minimum":
            return f"List.head? {l}"
        if m == "__pure_push":
            return f"{l} ++ [{self.E(a[0])}]"
        if m == "__pure_add":
            return f"bmAdd {l} {P(self.E(a[0]))}"
        if m == "__pure_truncate":
            return f"List.take {P(self.E(a[0]))} {l}"
        if m == "__pure_clear":
            return "[]"
        if m == "__pure_remove_range":
            return f"bmRemoveAll {l} {P(self.E(a[0]))}"
        raise Unsupported(f"iterator method {m}")

    def closure_inline_body(self, c):
        txt = self.closure_inline(c)
        return P(txt.split("=>", 1)[1].strip())

    def cast(self, src, to):
        st = prune(src.ty)
        if st == "bool":
            return f"if {self.E(src)} then 1 else 0"
        if INT_TYPES[to] >= INT_TYPES[st]:
            return self.E(src)
        return f"castN {INT_TYPES[to]} {P(self.E(src))}"

    def pat(self, p):
        k = p.kind
        if k == "pwild":
            return "_"
        if k == "pident":
            return p.binding.lean
        if k == "ptuple":
            return "(" + ", ".join(self.pat(q) for q in p.elems) + ")"
        if k == "plit":
            return str(p.value)
        if k == "pctor" and getattr(p, "res", None) and p.res[0] == "newtypeP":
            return self.pat(p.args[0])
        if k in ("pctor", "pstruct") and getattr(p, "res", None) and p.res[0] == "variantP":
            return f"{p.res[1]}.{p.res[2]}" + "".join(" " + P(self.pat(q)) for q in p.res[3])
        if k == "pctor":
            return f"some {P(self.pat(p.args[0]))}"
        if k == "ppath":
            return "none" if p.res[0] == "none" else f"{p.res[1]}.{p.res[2]}"
        if k == "por":
            return " | ".join(self.pat(q) for q in p.alts)
        raise Unsupported("pattern")

    def EB(self, b):
        """expression-level block: only `let`s with initialisers and a tail"""
        if b.tail is None:
            raise Unsupported("block without a value used as an expression")
        parts = []
        for it in b.items:
            if it.kind != "let" or it.init is None:
                raise Unsupported("statement with side effects inside an expression-level block")
            parts += self.let_parts(it.pat, self.E(it.init))
        return "".join(f"let {n} := {v}; " for n, v in parts) + self.E(b.tail)

    def let_parts(self, pat, val):
        k = pat.kind
        if k == "pwild":
            return []
        if k == "pident":
            return [(pat.binding.lean, val)]
        if k == "ptuple":
            if is_atomic(val):
                t = val
                out = []
            else:
                t = self.fresh("t")
                out = [(t, val)]
            n = len(pat.elems)
            for i, q in enumerate(pat.elems):
                out += self.let_parts(q, proj(t, i, n))
            return out
        raise Unsupported("refutable pattern in `let`")

    # ---- "does not panic / loops exit" conditions of pure expressions: text or None (= true)
    def O(self, e):
        if e is None:
            return None
        k = e.kind
        cs = []
        if k in ("lit", "boollit", "path", "break", "continue"):
            return None
        if k in ("paren", "un", "cast"):
            return self.O(e.e)
        if k == "field":
            return self.O(e.e) if e.res[0] != "local" else None
        if k == "index":
            l = P(self.E(e.e))
            if e.slice is not None:
                lo, hi = e.slice.lo, e.slice.hi
                cs = [self.O(e.e), self.O(lo) if lo is not None else None, self.O(hi) if hi is not None else None]
                if lo is not None and hi is not None:
                    cs.append(f"decide ({self.E(lo)} ≤ {self.E(hi)})")
                if hi is not None:
                    cs.append(f"decide ({self.E(hi)} ≤ List.length {l})")
                elif lo is not None:
                    cs.append(f"decide ({self.E(lo)} ≤ List.length {l})")
                return self.conj(cs)
            return self.conj([self.O(e.e), self.O(e.i), f"decide ({self.E(e.i)} < List.length {l})"])
        if k == "vecrep":
            return self.conj([self.O(e.elem), self.O(e.n)])
        if k == "structlit":
            return self.conj([self.O(v) for _, v in e.inits])
        if k == "closure":
            raise Unsupported("closure outside an iterator method argument")
        if k == "try":
            raise Unsupported("`?` is only supported directly as the initialiser of a `let` or as a statement")
        if k == "bin":
            a, b = self.O(e.l), self.O(e.r)
            if e.op == "&&":
                return self.conj([a, (f"!{P(self.E(e.l))} || {P(b)}" if b else None)])
            if e.op == "||":
                return self.conj([a, (f"{P(self.E(e.l))} || {P(b)}" if b else None)])
            cs = [a, b]
            if e.op in ("/", "%"):
                r = e.r
                while r.kind == "paren":
                    r = r.e
                if not (r.kind == "lit" and r.value != 0):
                    cs.append(f"{P(self.E(e.r))} != 0")
            return self.conj(cs)
        if k in ("tuple", "vec"):
            return self.conj([self.O(x) for x in e.elems])
        if k == "range":
            return self.conj([self.O(e.lo), self.O(e.hi)])
        if k == "call":
            if e.res[0] == "errnone":
                return None
            cs = [self.O(a) for a in e.args]
            if e.res[0] == "fn" and e.res[1].needs_ok:
                cs.append(self.okapp(e.res[1], [], [self.E(a) for a in e.args]))
            return self.conj(cs)
        if k == "mcall":
            if e.res[0] == "vecm":
                # closures are checked to be panic-free where they are translated (closure_inline / closure_state)
                cs = [self.O(e.recv)] + [self.O(a) for a in e.args if a.kind != "closure"]
                return self.conj(cs)
            if e.res[0] == "next":
                return None
            if e.res[0] == "identm":
                return self.O(e.recv)
            cs = [self.O(e.recv) if e.res[0] != "selfmethod" else None] + [self.O(a) for a in e.args]
            if e.res[0] == "selfmethod" and e.res[1].needs_ok:
                sa = [self.chk.self_fields[f].lean for f in e.res[1].self_field_names]
                cs.append(self.okapp(e.res[1], sa, [self.E(a) for a in e.args]))
            if e.res[0] == "valuemethod" and e.res[1].needs_ok:
                cs.append(self.okapp(e.res[1], [], [self.E(e.recv)] + [self.E(a) for a in e.args]))
            if e.res[0] == "method" and e.res[1].needs_ok:
                cs.append(self.okapp(e.res[1], self.recv_fields(e.res[1], self.E(e.recv), e.res[2]),
                                     [self.E(a) for a in e.args]))
            if e.res[0] == "optm" and e.res[1] == "unwrap":
                cs.append(f"Option.isSome {P(self.E(e.recv))}")
            return self.conj(cs)
        if k == "if":
            c = self.O(e.c)
            a, b = self.OB(e.th), (self.OB(e.el) if e.el else None)
            if a or b:
                return self.conj([c, f"if {self.E(e.c)} then {P(a or 'true')} else {P(b or 'true')}"])
            return c
        if k == "match":
            s = self.O(e.s)
            arms = [(p, self.OB(b) if b.kind == "block" else self.O(b)) for p, b in e.arms]
            if any(o for _, o in arms):
                m = " ".join(f"| {self.pat(p)} => {P(o or 'true')}" for p, o in arms)
                return self.conj([s, f"match {self.E(e.s)} with {m}"])
            return s
        if k == "block":
            return self.OB(e)
        if k == "assign":
            return self.O(e.value)
        raise Unsupported(f"`{k}` inside an expression is not supported")

    def OB(self, b):
        # ok-condition of an expression-level block: conditions may mention earlier lets
        pre = []
        conds = []
        any_cond = False
        for it in b.items:
            if it.kind != "let" or it.init is None:
                raise Unsupported("statement with side effects inside an expression-level block")
            o = self.O(it.init)
            conds.append(("c", o))
            any_cond = any_cond or bool(o)
            conds.append(("l", self.let_parts(it.pat, self.E(it.init))))
        o = self.O(b.tail) if b.tail is not None else None
        any_cond = any_cond or bool(o)
        if not any_cond:
            return None
        txt = P(o) if o else "true"
        for kind, v in reversed(conds):
            if kind == "c":
                if v:
                    txt = f"{P(v)} && {P(txt)}"
            else:
                for n, val in reversed(v):
                    txt = f"let {n} := {val}; {txt}"
        return txt

    @staticmethod
    def conj(cs):
        cs = [c for c in cs if c]
        if not cs:
            return None
        return " && ".join(P(c) for c in cs)

    # ---- statements (documents = lists of lines)
    def seq(self, items, i, tail, ctx):
        self.steps = getattr(self, "steps", 0) + 1
        if self.steps > 20000:   # early returns duplicate the continuation: refuse pathological blow-up
            raise Unsupported("too many paths (nested early returns)")
        if i == len(items):
            if tail is None:
                return ctx.on_end()
            return self.tailexpr(tail, ctx)
        it = items[i]
        rest = lambda: self.seq(items, i + 1, tail, ctx)
        if it.kind == "let":
            if it.init is None:
                bs = declared_in(it.pat)
                doc = None
                r = rest()
                for b in reversed(bs):
                    r = let_doc(b.lean, [default_val(b.ty)], r) if ctx.mode == "val" or r != ["true"] else r
                return r
            init = it.init
            while init.kind == "paren":
                init = init.e
            if init.kind == "match" and has_ctrl(init):
                return self.let_match(init, it.pat, rest, ctx)
            if has_ctrl(it.init):
                raise Unsupported("`return`/`break` inside the initialiser of a `let`")
            if init.kind == "try":
                return self.try_stmt(init, it.pat, rest, ctx)
            if init.kind == "mcall" and init.res[0] == "mutmethod":
                return self.mutcall(init, it.pat, rest, ctx)
            val, pend, ok = self.EO(it.init)
            parts = self.let_parts(it.pat, val) + [(b.lean, v) for b, v in pend]
            return self.binds(parts, ok, rest, ctx)
        return self.stmt(it.e, rest, ctx)

    def let_match(self, m, pat, rest, ctx):
        """`let pat = match s { p1 => value, p2 => return r, … };`: every arm either yields the value (and the
        function continues) or leaves (`return` / `break` / `continue`)"""
        sval, pend, os_ = self.EO(m.s)
        if pend:
            raise Unsupported("`next()` in the scrutinee of a `match`")
        d = [f"match {sval} with"]
        arms_docs = []
        for p, body in m.arms:
            b = body
            while b.kind == "paren":
                b = b.e
            if b.kind == "block" and not b.items and b.tail is not None:
                b = b.tail
            elif b.kind == "block" and len(b.items) == 1 and b.tail is None and b.items[0].kind == "expr" \
                    and b.items[0].e.kind in ("return", "break", "continue"):
                b = b.items[0].e
            if b.kind in ("return", "break", "continue"):
                arm = self.stmt(b, rest, ctx)
            elif has_ctrl(b):
                raise Unsupported("`match` arm mixing a value and `return`")
            else:
                val, pend, ok = self.EO(b)
                arm = self.binds(self.let_parts(pat, val) + [(pb.lean, v) for pb, v in pend], ok, rest, ctx)
            arms_docs.append(arm)
            d += [f"| {self.pat(p)} =>"] + indent(arm)
        d = paren_doc(d)
        if ctx.mode == "ok" and all(x == ["true"] for x in arms_docs):
            return [os_] if os_ else ["true"]
        return and_docs([os_] if os_ else None, d) if ctx.mode == "ok" else d

    def EO(self, e):
        """(value text, pending `next()` re-bindings, ok condition) of an expression evaluated as a statement"""
        self.pending = []
        val = self.E(e)
        pend, self.pending = self.pending, []
        ok = self.O(e)
        self.pending = []
        return val, pend, ok

    def try_stmt(self, t, pat, rest, ctx):
        """`let pat = e?;` in a function returning Option: `match e with | none => none | some v => …`"""
        val, pend, ok = self.EO(t.e)
        v = self.fresh("v")
        parts = (self.let_parts(pat, v) if pat is not None else []) + [(b.lean, x) for b, x in pend]
        r = rest()
        for n, x in reversed(parts):
            r = let_doc(n, [x], r)
        if ctx.mode == "ok":
            d = ["true"] if r == ["true"] else paren_doc([f"match {val} with", "| none => true", f"| some {v} =>"] + indent(r))
            return and_docs([ok] if ok else None, d)
        return paren_doc([f"match {val} with", "| none =>"] + indent(ctx.on_return(N("path", path=["None"], res=("none",)))) +
                         [f"| some {v} =>"] + indent(r))

    def mutcall(self, m, pat, rest, ctx):
        """`recv.method(args)` where `method` takes `&mut self`: re-binds `recv` (and binds the result)"""
        rec, b = m.res[1], m.res[2]
        args = [self.E(a) for a in m.args]
        call = self.app(rec, [b.lean], args)
        ok = self.conj([self.O(a) for a in m.args] +
                       ([self.okapp(rec, [b.lean], args)] if rec.needs_ok else []))
        if prune(rec.ret) == "unit":
            parts = [(b.lean, call)]
        else:
            t = self.fresh("t")
            parts = [(t, call), (b.lean, f"{t}.1")] + (self.let_parts(pat, f"{t}.2") if pat is not None else [])
        return self.binds(parts, ok, rest, ctx)

    def binds(self, parts, ok, rest, ctx):
        r = rest()
        if ctx.mode == "ok" and r == ["true"]:
            return [ok] if ok else ["true"]
        for n, v in reversed(parts):
            r = let_doc(n, [v], r)
        if ctx.mode == "ok":
            return and_docs([ok] if ok else None, r)
        return r

    def as_stmts(self, b):
        """items of a unit-typed block, its tail (if any) turned into a final statement"""
        if b is None:
            return []
        items = list(b.items)
        if b.tail is not None:
            items.append(N("expr", e=b.tail, semi=True))
        return items

    def stmt(self, e, rest, ctx):
        k = e.kind
        if k == "paren":
            return self.stmt(e.e, rest, ctx)
        if k == "return":
            return ctx.on_return(e.value)
        if k == "break":
            return ctx.on_break()
        if k == "continue":
            return ctx.on_continue()
        if k == "advance":
            # `p = &mut p[n..]`: the first n elements are final
            p_, d_ = e.binding, e.done
            nv, pend, ok = self.EO(e.n)
            ok = self.conj([ok, f"decide ({nv} ≤ List.length {p_.lean})"])
            return self.binds([(d_.lean, f"{d_.lean} ++ List.take {P(nv)} {p_.lean}"), (p_.lean, f"List.drop {P(nv)} {p_.lean}")],
                              ok, rest, ctx)
        if k == "mcall" and e.res[0] == "copyprefix":
            b, hi = e.res[1], e.res[2]
            src, pend, ok = self.EO(e.args[0])
            if hi is None:
                ok = self.conj([ok, f"List.length {b.lean} == List.length {P(src)}"])
                val = src
            else:
                hv = self.E(hi)
                ok = self.conj([self.O(hi), ok, f"decide ({hv} ≤ List.length {b.lean})", f"List.length {P(src)} == {P(hv)}"])
                val = f"{P(src)} ++ List.drop {P(hv)} {b.lean}"
            return self.binds([(b.lean, val)] + [(pb.lean, v) for pb, v in pend], ok, rest, ctx)
        if k == "call" and e.res[0] == "fnout":
            rec, b = e.res[1], e.res[2]
            args = [self.E(a) for a in e.args]
            ok = self.conj([self.O(a) for a in e.args] + ([self.okapp(rec, [], args)] if rec.needs_ok else []))
            return self.binds([(b.lean, self.app(rec, [], args))], ok, rest, ctx)
        if k == "assert":
            # `assert!(c)`: panics unless c — a conjunct of `_ok`, nothing in the value
            if ctx.mode == "ok":
                c = self.E(e.c)
                return and_docs([self.conj([self.O(e.c), c])], rest())
            return rest()
        if k == "assign":
            b = e.binding
            rhs, pend, ok = self.EO(e.value)
            if e.tkind == "var":
                cur, cty = b.lean, b.ty
            elif e.tkind == "field":
                cur, cty = self.E(e.tfield), e.tfield.ty
            else:
                cur, cty = self.E(e.tindex), e.tindex.ty
            if e.op == "=":
                val = rhs
            else:
                op = e.op[:-1]
                if prune(cty) == "bool":
                    val = {"&": f"{P(cur)} && {P(rhs)}", "|": f"{P(cur)} || {P(rhs)}",
                           "^": f"{P(cur)} != {P(rhs)}"}[op]
                else:
                    val = self.arith(op, self.bits(cty), cur, rhs)
            if e.op in ("/=", "%="):
                ok = self.conj([ok, f"{P(rhs)} != 0"])
            if e.tkind == "field":
                if e.tfield.res[0] != "sfield":
                    raise Unsupported("assignment to a field of a transparent struct")
                val = f"{{ {b.lean} with {e.tfield.res[1]} := {val} }}"
            elif e.tkind == "index":
                ix = self.E(e.tindex.i)
                ok = self.conj([self.O(e.tindex.i), ok, f"decide ({ix} < List.length {b.lean})"])
                val = f"List.set {b.lean} {P(ix)} {P(val)}"
            return self.binds([(b.lean, val)] + [(pb.lean, v) for pb, v in pend], ok, rest, ctx)
        if k == "mcall" and e.res[0] == "push":
            b = e.res[1]
            return self.binds([(b.lean, f"{b.lean} ++ [{self.E(e.args[0])}]")], self.O(e.args[0]), rest, ctx)
        if k == "mcall" and e.res[0] == "reverse":
            b = e.res[1]
            return self.binds([(b.lean, f"List.reverse {b.lean}")], None, rest, ctx)
        if k == "mcall" and e.res[0] == "copyfrom":
            # `dst.copy_from_slice(src)` panics unless the lengths agree
            b = e.res[1]
            src, pend, ok = self.EO(e.args[0])
            ok = self.conj([ok, f"List.length {b.lean} == List.length {P(src)}"])
            return self.binds([(b.lean, src)] + [(pb.lean, v) for pb, v in pend], ok, rest, ctx)
        if k == "mcall" and e.res[0] == "mutmethod":
            return self.mutcall(e, None, rest, ctx)
        if k == "try":
            return self.try_stmt(e, None, rest, ctx)
        if k == "if":
            return self.if_stmt(e, rest, ctx)
        if k == "while":
            return self.while_stmt(e, rest, ctx)
        if k == "for":
            return self.for_stmt(e, rest, ctx)
        if k == "match" and (has_ctrl(e) or assigned_in(e)):
            return self.match_stmt(e, rest, ctx)
        if k == "block":
            return self.seq(self.as_stmts(e), 0, None, ctx.but(on_end=rest))
        # pure expression statement
        if has_ctrl(e) or assigned_in(e):
            raise Unsupported("expression statement with side effects")
        if ctx.mode == "ok":
            o = self.O(e)
            return and_docs([o] if o else None, rest())
        return rest()

    def arm_stmts(self, body):
        if body.kind == "block":
            return self.as_stmts(body)
        return [N("expr", e=body, semi=True)]

    def match_stmt(self, e, rest, ctx):
        sval, pend, os_ = self.EO(e.s)
        if pend:
            raise Unsupported("`next()` in the scrutinee of a `match` statement")
        arms = [(self.pat(p), self.arm_stmts(b), b) for p, b in e.arms]
        if any(has_ctrl(b) for _, _, b in arms):
            d = [f"match {sval} with"]
            for p, st, _ in arms:
                d += [f"| {p} =>"] + indent(self.seq(st, 0, None, ctx.but(on_end=rest)))
            d = paren_doc(d)
            return and_docs([os_] if os_ else None, d) if ctx.mode == "ok" else d
        M = self.outer_assigned([b for _, _, b in arms])
        vctx = Ctx("val", lambda: [self.state_tuple(M)], _no("break"), _no("return"))

        def join(rest_doc):
            d = [f"match {sval} with"]
            for p, st, _ in arms:
                d += [f"| {p} =>"] + indent(self.seq(st, 0, None, vctx))
            return self.unpack(M, d, rest_doc)
        if ctx.mode == "val":
            return join(rest()) if M else rest()
        octx = Ctx("ok", lambda: ["true"], _no("break"), _no("return"))
        oarms = [(p, self.seq(st, 0, None, octx)) for p, st, _ in arms]
        if all(d == ["true"] for _, d in oarms):
            od = ["true"]
        else:
            od = [f"match {sval} with"]
            for p, d in oarms:
                od += [f"| {p} =>"] + indent(d)
            od = paren_doc(od)
        r = rest()
        joined = r if (r == ["true"] or not M) else join(r)
        return and_docs([os_] if os_ else None, od, joined)

    # ---- loops.  A loop whose body contains `return` (phase 4) yields `Flow R S`: `.ret r` = the FUNCTION returned
    # `r` from inside the loop, `.go s` = the loop ended (exhausted / `break` / condition false) in state `s`.
    def loop_sig(self, S):
        if not S:
            return "", "", "", "Unit", "()"
        sty = " → ".join(atom_ty(b.ty) for b in S) + " → "
        rty = lean_ty(("tuple", tuple(b.ty for b in S))) if len(S) > 1 else lean_ty(S[0].ty)
        svars = ", " + ", ".join(b.lean for b in S)
        sargs = "".join(" " + b.lean for b in S)
        return sty, svars, sargs, rty, self.state_tuple(S)

    def flow_ty(self, rty):
        r = self.ret_lean_ty
        r = r if re.fullmatch(r"[A-Za-z0-9_.]+", r) else "(" + r + ")"
        t = rty if re.fullmatch(r"[A-Za-z0-9_.]+", rty) else "(" + rty + ")"
        return f"Flow {r} {t}"

    def flow_call(self, S, call, rest_doc, ctx):
        """match <loop call> with | .ret r => the function returns r | .go st => let S := st; rest"""
        r = self.fresh("r")
        t = self.fresh("st")
        lets = [f"let {b.lean} := {proj(t, i, len(S))}" for i, b in enumerate(S)] if len(S) > 1 else \
            ([f"let {S[0].lean} := {t}"] if S else [])
        if ctx.mode == "ok":
            if rest_doc == ["true"]:
                return ["true"]
            return paren_doc([f"match {call[0]} with", "| .ret _ => true", f"| .go {t if S else '_'} =>"] +
                             indent(lets + rest_doc))
        return paren_doc([f"match {call[0]} with", f"| .ret {r} =>"] + indent(ctx.on_retval(r)) +
                         [f"| .go {t if S else '_'} =>"] + indent(lets + rest_doc))

    def for_stmt(self, e, rest, ctx):
        hasret = has_return(e.body)
        if hasret and self.fin_text is None:
            raise Unsupported("`return` inside a `for` loop")
        key = id(e)
        it = e.itn
        if e.over == "range":
            lo, hi = self.E(it.lo), self.E(it.hi)
            lst = f"List.range' {P(lo)} ({hi} - {lo})"
            olst = self.conj([self.O(it.lo), self.O(it.hi)])
            elty = it.ty[1][0]
        else:
            lst, pend, olst = self.EO(it)
            if pend:
                raise Unsupported("`next()` in the iterated expression of a `for` loop")
            elty = prune(it.ty)[1]
        if key not in self.loop_names:
            S = self.outer_assigned([e.body])
            if not S and not hasret:
                raise Unsupported("`for` loop that assigns no outer variable")
            inner = declared_in(e.body) + declared_in(e.pat)
            caps = [b for b in self.used(e.body) + self.fuel_caps(e.body) if b not in S and b not in inner]
            seen, caps2 = [], []
            for b in caps:
                if b not in seen:
                    seen.append(b); caps2.append(b)
            order = {id(b): i for i, b in enumerate(self.chk.bindings)}
            caps2.sort(key=lambda b: (0 if b.kind == "env" else 1 if b.kind == "selffield" else 2, order.get(id(b), 0)))
            self.nloops += 1
            idx = self.nloops
            lname = f"{self.rec.lean}_loop{idx}"
            xname = f"{self.rec.lean}_loop{idx}_ok"
            restv = self.fresh("rest")
            capdecl = "".join(f" ({b.lean} : {lean_ty(b.ty)})" for b in caps2)
            capargs = "".join(" " + b.lean for b in caps2)
            sty, svars, sargs, rty, st = self.loop_sig(S)
            if e.pat.kind == "pident":
                hd, plets = e.pat.binding.lean, []
            elif e.pat.kind == "pwild":
                hd, plets = "_", []
            else:
                hd = self.fresh("x")
                plets = self.let_parts(e.pat, hd)

            def wrap(doc):
                for n, v in reversed(plets):
                    doc = let_doc(n, [v], doc)
                return doc
            again = lambda: [f"{lname}{capargs} {restv}{sargs}"]
            if hasret:
                done = lambda: [f".go {st}"]
                vctx = Ctx("val", again, done, lambda v: [f".ret {P(self.fin_text(v))}"], again,
                           lambda t: [f".ret {P(t)}"])
                rty_full = self.flow_ty(rty)
            else:
                done = lambda: [st]
                vctx = Ctx("val", again, done, _no("`return` in loop"), again)
                rty_full = rty
            body = wrap(self.seq(self.as_stmts(e.body), 0, None, vctx))
            d = [f"def {lname}{self.tyb}{capdecl} : List {atom_ty(elty)} → {sty}{rty_full}",
                 f"  | []{svars} => {done()[0]}",
                 f"  | {hd} :: {restv}{svars} =>"] + indent(body, 4)
            oret = (lambda v: [(self.O(v) if v is not None else None) or "true"]) if hasret else _no("`return` in loop")
            probe = Ctx("ok", lambda: ["true"], lambda: ["true"], oret, lambda: ["true"])
            can_panic = self.seq(self.as_stmts(e.body), 0, None, probe) != ["true"]
            self.aux.append((f"/-- `for` loop {idx} of `{self.rec.rust_name}` (state: {', '.join(b.name for b in S) or 'none'}), "
                             f"structural recursion over the iterated list" +
                             ("; `.ret r`: the function returned `r` from inside the loop" if hasret else "") + " -/", d))
            if can_panic:
                oagain = lambda: [f"{xname}{capargs} {restv}{sargs}"]
                octx = Ctx("ok", oagain, lambda: ["true"], oret, oagain)
                obody = wrap(self.seq(self.as_stmts(e.body), 0, None, octx))
                x = [f"def {xname}{self.tyb}{capdecl} : List {atom_ty(elty)} → {sty}Bool",
                     f"  | []{svars} => true",
                     f"  | {hd} :: {restv}{svars} =>"] + indent(obody, 4)
                self.aux.append((f"/-- nothing in `for` loop {idx} of `{self.rec.rust_name}` panics -/", x))
            self.loop_names[key] = (lname, xname, S, caps2, idx, can_panic)
        lname, xname, S, caps2, idx, can_panic = self.loop_names[key]
        capargs = "".join(" " + b.lean for b in caps2)
        sargs = "".join(" " + b.lean for b in S)
        call = [f"{lname}{capargs} {P(lst)}{sargs}"]
        if ctx.mode == "val":
            return self.flow_call(S, call, rest(), ctx) if hasret else self.unpack(S, call, rest())
        r = rest()
        return and_docs([olst] if olst else None,
                        [f"{xname}{capargs} {P(lst)}{sargs}"] if can_panic else None,
                        self.flow_call(S, call, r, ctx) if hasret else
                        (r if r == ["true"] else self.unpack(S, call, r)))

    def state_tuple(self, S):
        if len(S) == 1:
            return S[0].lean
        return "(" + ", ".join(b.lean for b in S) + ")"

    def unpack(self, S, val, rest_doc):
        """let <S> := val; rest"""
        if len(S) == 1:
            return let_doc(S[0].lean, val, rest_doc)
        t = self.fresh("st")
        lets = []
        for i, b in enumerate(S):
            lets.append(f"let {b.lean} := {proj(t, i, len(S))}")
        return let_doc(t, val, lets + rest_doc)

    def outer_assigned(self, nodes):
        inner = []
        for n in nodes:
            inner += declared_in(n)
        out = []
        for n in nodes:
            for b in assigned_in(n):
                if b not in inner and b not in out:
                    out.append(b)
        order = {id(b): i for i, b in enumerate(self.chk.bindings)}
        out.sort(key=lambda b: order.get(id(b), 0))
        return out

    def if_stmt(self, e, rest, ctx):
        th, el = e.th, e.el
        c = self.E(e.c)
        oc = self.O(e.c)
        if has_ctrl(th) or has_ctrl(el):
            a = self.seq(self.as_stmts(th), 0, None, ctx.but(on_end=rest))
            b = self.seq(self.as_stmts(el), 0, None, ctx.but(on_end=rest)) if el is not None else rest()
            d = ite_doc(c, a, b)
            return and_docs([oc] if oc else None, d) if ctx.mode == "ok" else d
        M = self.outer_assigned([x for x in (th, el) if x is not None])
        vctx = Ctx("val", lambda: [self.state_tuple(M)], _no("break"), _no("return"))

        def join(rest_doc):
            a = self.seq(self.as_stmts(th), 0, None, vctx)
            b = self.seq(self.as_stmts(el), 0, None, vctx) if el is not None else [self.state_tuple(M)]
            return self.unpack(M, ite_doc(c, a, b), rest_doc)
        if ctx.mode == "val":
            if not M:
                return rest()
            return join(rest())
        octx = Ctx("ok", lambda: ["true"], _no("break"), _no("return"))
        oa = self.seq(self.as_stmts(th), 0, None, octx)
        ob = self.seq(self.as_stmts(el), 0, None, octx) if el is not None else ["true"]
        r = rest()
        joined = r if (r == ["true"] or not M) else join(r)
        return and_docs([oc] if oc else None, ite_doc(c, oa, ob), joined)

    def while_stmt(self, e, rest, ctx):
        hasret = has_return(e.body)
        if hasret and self.fin_text is None:
            raise Unsupported("`return` inside a `while` loop")
        key = id(e)
        if key not in self.loop_names:
            S = self.outer_assigned([e.body])
            if not S and not hasret:
                raise Unsupported("`while` loop that assigns no outer variable")
            inner = declared_in(e.body)
            caps = [b for b in self.used(e.c) + self.used(e.body) + self.fuel_caps(e.body)
                    if b not in S and b not in inner]
            seen, caps2 = [], []
            for b in caps:
                if b not in seen:
                    seen.append(b); caps2.append(b)
            order = {id(b): i for i, b in enumerate(self.chk.bindings)}
            caps2.sort(key=lambda b: (0 if b.kind == "env" else 1 if b.kind == "selffield" else 2, order.get(id(b), 0)))
            self.nloops += 1
            idx = self.nloops
            lname = f"{self.rec.lean}_loop{idx}"
            xname = f"{self.rec.lean}_loop{idx}_exits"
            fuelv = self.fresh("fuel") if "fuel" in self.used_names else "fuel"
            self.used_names.add("fuel")
            self.loop_names[key] = (lname, xname, S, caps2, idx)
            capdecl = "".join(f" ({b.lean} : {lean_ty(b.ty)})" for b in caps2)
            capargs = "".join(" " + b.lean for b in caps2)
            sty, svars, sargs, rty, st = self.loop_sig(S)
            c = self.E(e.c)
            oc = self.O(e.c)
            again = lambda: [f"{lname}{capargs} {fuelv}{sargs}"]
            if hasret:
                done = lambda: [f".go {st}"]
                vctx = Ctx("val", again, done, lambda v: [f".ret {P(self.fin_text(v))}"], again,
                           lambda t: [f".ret {P(t)}"])
                rty_full = self.flow_ty(rty)
            else:
                done = lambda: [st]
                vctx = Ctx("val", again, done, _no("`return` in loop"), again)
                rty_full = rty
            body = self.seq(self.as_stmts(e.body), 0, None, vctx)
            d = [f"def {lname}{self.tyb}{capdecl} : Nat → {sty}{rty_full}",
                 f"  | 0{svars} => {done()[0]}",
                 f"  | {fuelv}+1{svars} =>"] + indent(ite_doc(c, body, done()), 4)
            oret = (lambda v: [(self.O(v) if v is not None else None) or "true"]) if hasret else _no("`return` in loop")
            oagain = lambda: [f"{xname}{capargs} {fuelv}{sargs}"]
            octx = Ctx("ok", oagain, lambda: ["true"], oret, oagain)
            obody = self.seq(self.as_stmts(e.body), 0, None, octx)
            x = [f"def {xname}{self.tyb}{capdecl} : Nat → {sty}Bool",
                 f"  | 0{svars} =>"] + indent(and_docs([oc] if oc else None, [f"!{P(c)}"]), 4) + \
                [f"  | {fuelv}+1{svars} =>"] + indent(and_docs([oc] if oc else None, ite_doc(c, obody, ["true"])), 4)
            fuel = self.fuel_text(idx)
            self.aux.append((f"/-- `while` loop {idx} of `{self.rec.rust_name}` "
                             f"(state: {', '.join(b.name for b in S) or 'none'}; fuel at the call site: {fuel})" +
                             ("; `.ret r`: the function returned `r` from inside the loop" if hasret else "") + " -/", d))
            self.aux.append((f"/-- `{lname} … n …` is the state after the `while` loop iff this is `true`: the loop "
                             f"exits within `n` iterations and nothing in it panics -/", x))
        lname, xname, S, caps2, idx = self.loop_names[key]
        fuel = P(self.fuel_text(idx))
        capargs = "".join(" " + b.lean for b in caps2)
        sargs = "".join(" " + b.lean for b in S)
        call = [f"{lname}{capargs} {fuel}{sargs}"]
        if ctx.mode == "val":
            return self.flow_call(S, call, rest(), ctx) if hasret else self.unpack(S, call, rest())
        r = rest()
        return and_docs([f"{xname}{capargs} {fuel}{sargs}"],
                        self.flow_call(S, call, r, ctx) if hasret else
                        (r if r == ["true"] else self.unpack(S, call, r)))

    def fuel_text(self, idx):
        """fuel of `while` / `loop` number idx: a literal, or (phase 4) a string = Lean expression over the function's
        PARAMETERS by their Rust names (e.g. "2 * List.length nonces + 1"); never trusted (see `_exits`)"""
        f = self.fuel.get(idx, 65)
        if isinstance(f, str):
            def sub(m):
                b = self.fuel_binding(m.group(0))
                return b.lean if b is not None else m.group(0)
            return re.sub(self._FUEL_ID, sub, f)
        return str(f)

    _FUEL_ID = r"(?<![.A-Za-z0-9_])[A-Za-z_][A-Za-z0-9_]*"

    def fuel_binding(self, name):
        """a fuel expression names locals / parameters of the function by their Rust names (first declaration)"""
        for b in list(getattr(self.rec, "all_params", [])) + list(self.chk.bindings):
            if b.name == name:
                return b
        return None

    def fuel_caps(self, body):
        """bindings named by the string fuels of this function, for a loop that contains a nested `while` / `loop`"""
        found = [False]
        walk(body, lambda x: found.__setitem__(0, True) if x.kind == "while" else None)
        out = []
        if found[0]:
            for f in self.fuel.values():
                if isinstance(f, str):
                    for tok in re.findall(self._FUEL_ID, f):
                        b = self.fuel_binding(tok)
                        if b is not None and b not in out:
                            out.append(b)
        return out

    def tailexpr(self, t, ctx):
        k = t.kind
        if k == "paren" and t.e.kind in ("if", "match", "block"):
            return self.tailexpr(t.e, ctx)
        if k == "return":
            return ctx.on_return(t.value)
        if k == "if" and t.el is not None:
            a = self.seq(t.th.items, 0, t.th.tail, ctx)
            b = self.seq(t.el.items, 0, t.el.tail, ctx)
            d = ite_doc(self.E(t.c), a, b)
            oc = self.O(t.c)
            return and_docs([oc] if oc else None, d) if ctx.mode == "ok" else d
        if k == "block":
            return self.seq(t.items, 0, t.tail, ctx)
        if k == "match":
            arms = []
            for p, b in t.arms:
                arms.append((self.pat(p), self.tailexpr(b, ctx)))
            os_ = self.O(t.s)
            if ctx.mode == "ok" and all(d == ["true"] for _, d in arms):
                return [os_] if os_ else ["true"]
            d = [f"match {self.E(t.s)} with"]
            for p, doc in arms:
                d += [f"| {p} =>"] + indent(doc)
            d = paren_doc(d)
            return and_docs([os_] if os_ else None, d) if ctx.mode == "ok" else d
        if (k == "if" and t.el is None) or k in ("while", "assign", "for", "continue", "break", "advance") or \
                (k == "mcall" and t.res[0] == "copyprefix") or (k == "call" and t.res[0] == "fnout") or \
                (k == "mcall" and t.res[0] in ("push", "reverse", "mutmethod", "copyfrom")) or \
                (k == "match" and getattr(t, "iflet", False) and prune(t.ty) == "unit"):
            return self.stmt(t, ctx.on_end, ctx)
        return ctx.on_return(t)


# =============================================================================================
# 6. World: files, tables, whitelist, orchestration
# =============================================================================================

class Entry:
    def __init__(self, file, impl, fn, lean, out, fuel=None, note="", abstract=None, trait=None, rec_fuel=None, ret=None, opaque=None, fnparams=None, outparam=None):
        self.file, self.impl, self.fn, self.lean, self.out = file, impl, fn, lean, out
        self.fuel = fuel or {}
        self.note = note
        # [(rust expression text, parameter name, rust type)]: every occurrence of the expression (token-wise)
        # in the body is replaced by a fresh trailing parameter (for calls into untranslatable code, e.g. a hash)
        self.abstract = abstract or []
        self.trait = trait          # `impl <trait> for <impl>` (None: inherent impl)
        # a directly self-recursive function is translated as `<fn>_fuel : Nat → …` (structural recursion on the
        # fuel; exhausted fuel = `_ok` false) and `<fn> := <fn>_fuel rec_fuel`; sufficiency is proved, not trusted
        self.rec_fuel = rec_fuel
        # declared return type to use INSTEAD of the source's (phase 5): for `-> Result<Box<dyn Trait>, E>` constructors
        # of one-field context structs (`new_cuckarood_ctx`): the boxed value is the wrapped field
        self.ret = ret
        # phase 6: `opaque` = type names kept abstract (Lean type parameters `{Hash : Type} [Inhabited Hash]`);
        # `fnparams` = [(kind, rust text, parameter name, "fn(A, B) -> R")]: kind "call": every call whose callee is
        # the token sequence `rust text` (e.g. `self.get_from_file`) becomes a call of a function-valued trailing
        # parameter; kind "method": every method call `.rust text(..)` does (receiver = first argument).  The abstracted
        # code is assumed pure and deterministic (a function of its arguments), like `abstract=`.
        self.opaque = opaque or []
        self.fnparams = fnparams or []
        # phase 7: name of a `mut p: &mut [T]` parameter of a unit function that is WRITTEN through and re-sliced
        # (`p[..8].copy_from_slice(..)`, `p = &mut p[8..]`): the translation threads the remaining slice `p` and
        # the already-passed prefix `p_done` and RETURNS the final buffer `p_done ++ p`; a call `f(.., &mut buf)`
        # re-binds `buf`
        self.outparam = outparam
        self.key = (file, impl, fn)

    @property
    def rust_name(self):
        return (self.impl + "::" if self.impl else "") + self.fn


PMMR = "core/src/core/pmmr/pmmr.rs"
CONS = "core/src/consensus.rs"
GLOB = "core/src/global.rs"
SEG = "core/src/core/pmmr/segment.rs"
TXS = "core/src/core/transaction.rs"
BLK = "core/src/core/block.rs"
POWT = "core/src/pow/types.rs"
SIP = "core/src/pow/siphash.rs"
POWC = "core/src/pow/common.rs"
LIBTX = "core/src/libtx/mod.rs"
BMACC = "chain/src/txhashset/bitmap_accumulator.rs"
P2PMSG = "p2p/src/msg.rs"
CUCKAROO = "core/src/pow/cuckaroo.rs"
CUCKAROOD = "core/src/pow/cuckarood.rs"
CUCKAROOM = "core/src/pow/cuckaroom.rs"
CUCKAROOZ = "core/src/pow/cuckarooz.rs"
CUCKATOO = "core/src/pow/cuckatoo.rs"
PRUNE = "store/src/prune_list.rs"
TPOOL = "pool/src/transaction_pool.rs"

VERIFY_FUEL = "2 * size + 1"

# (rust file, impl type or None, fn name, lean name, output module, fuel per loop)
# fuel: every listed loop shifts a u64 by one bit per iteration and stops when it is zero (<= 64
# iterations), or doubles a u64 per iteration; 65 leaves one spare.  Sufficiency is NOT trusted:
# Props/Xlate*.lean proves `<fn>_ok … = true` (which includes `<loop>_exits 65 …`) on the stated range.
WHITELIST = [
    Entry(PMMR, None, "peak_map_height", "peak_map_height", "FnsPmmr", {1: 65}),
    Entry(PMMR, None, "peak_sizes_height", "peak_sizes_height", "FnsPmmr", {1: 65}),
    Entry(PMMR, None, "n_leaves", "n_leaves", "FnsPmmr"),
    Entry(PMMR, None, "insertion_to_pmmr_index", "insertion_to_pmmr_index", "FnsPmmr"),
    Entry(PMMR, None, "round_up_to_leaf_pos", "round_up_to_leaf_pos", "FnsPmmr"),
    Entry(PMMR, None, "pmmr_leaf_to_insertion_index", "pmmr_leaf_to_insertion_index", "FnsPmmr"),
    Entry(PMMR, None, "bintree_postorder_height", "bintree_postorder_height", "FnsPmmr"),
    Entry(PMMR, None, "is_leaf", "is_leaf", "FnsPmmr"),
    Entry(PMMR, None, "family", "family", "FnsPmmr"),
    Entry(PMMR, None, "is_left_sibling", "is_left_sibling", "FnsPmmr"),
    Entry(PMMR, None, "family_branch", "family_branch", "FnsPmmr", {1: 65}),
    Entry(PMMR, None, "bintree_rightmost", "bintree_rightmost", "FnsPmmr"),
    Entry(PMMR, None, "bintree_leftmost", "bintree_leftmost", "FnsPmmr"),
    Entry(PMMR, None, "bintree_range", "bintree_range", "FnsPmmr"),
    Entry(PMMR, None, "peaks", "peaks", "FnsPmmr"),
    Entry(PMMR, None, "bintree_leaf_pos_iter", "bintree_leaf_pos_iter", "FnsPmmr"),
    Entry(PMMR, None, "bintree_pos_iter", "bintree_pos_iter", "FnsPmmr"),
    # consensus.rs / global.rs
    Entry(CONS, None, "reward", "reward", "FnsCons"),
    Entry(CONS, None, "secondary_pow_ratio", "secondary_pow_ratio", "FnsCons"),
    Entry(CONS, None, "header_version", "header_version", "FnsCons"),
    Entry(CONS, None, "valid_header_version", "valid_header_version", "FnsCons"),
    Entry(GLOB, None, "min_edge_bits", "min_edge_bits", "FnsCons"),
    Entry(GLOB, None, "base_edge_bits", "base_edge_bits", "FnsCons"),
    Entry(CONS, None, "graph_weight", "graph_weight", "FnsCons"),
    Entry(CONS, None, "damp", "damp", "FnsCons"),
    Entry(CONS, None, "clamp", "clamp", "FnsCons"),
    Entry(GLOB, None, "coinbase_maturity", "coinbase_maturity", "FnsCons"),
    Entry(GLOB, None, "initial_graph_weight", "initial_graph_weight", "FnsCons"),
    Entry(GLOB, None, "min_wtema_graph_weight", "min_wtema_graph_weight", "FnsCons"),
    Entry(GLOB, None, "max_block_weight", "max_block_weight", "FnsCons"),
    Entry(GLOB, None, "max_tx_weight", "max_tx_weight", "FnsCons"),
    Entry(GLOB, None, "cut_through_horizon", "cut_through_horizon", "FnsCons"),
    Entry(GLOB, None, "state_sync_threshold", "state_sync_threshold", "FnsCons"),
    Entry(GLOB, None, "txhashset_archive_interval", "txhashset_archive_interval", "FnsCons"),
    # difficulty (pow/types.rs `Difficulty` is a transparent one-field struct; consensus.rs; global.rs)
    Entry(POWT, "Difficulty", "zero", "Difficulty_zero", "FnsCons"),
    Entry(POWT, "Difficulty", "min_dma", "Difficulty_min_dma", "FnsCons"),
    Entry(POWT, "Difficulty", "min_wtema", "Difficulty_min_wtema", "FnsCons"),
    Entry(POWT, "Difficulty", "unit", "Difficulty_unit", "FnsCons"),
    Entry(POWT, "Difficulty", "from_num", "Difficulty_from_num", "FnsCons"),
    Entry(POWT, "Difficulty", "to_num", "Difficulty_to_num", "FnsCons"),
    Entry(POWT, "Proof", "scaled_difficulty", "Proof_scaled_difficulty", "FnsCons",
          abstract=[("self.hash().to_u64()", "hash64", "u64")]),
    Entry(CONS, "HeaderDifficultyInfo", "from_ts_diff", "HeaderDifficultyInfo_from_ts_diff", "FnsCons"),
    Entry(CONS, "HeaderDifficultyInfo", "from_diff_scaling", "HeaderDifficultyInfo_from_diff_scaling", "FnsCons"),
    Entry(CONS, None, "ar_count", "ar_count", "FnsCons"),
    Entry(CONS, None, "secondary_pow_scaling", "secondary_pow_scaling", "FnsCons"),
    Entry(GLOB, None, "difficulty_data_to_vector", "difficulty_data_to_vector", "FnsCons"),
    Entry(CONS, None, "next_dma_difficulty", "next_dma_difficulty", "FnsCons"),
    Entry(CONS, None, "next_wtema_difficulty", "next_wtema_difficulty", "FnsCons"),
    Entry(CONS, None, "next_difficulty", "next_difficulty", "FnsCons"),
    # segment.rs
    Entry(SEG, "SegmentIdentifier", "count_segments_required", "SegmentIdentifier_count_segments_required", "FnsSeg"),
    Entry(SEG, "SegmentIdentifier", "segment_capacity", "SegmentIdentifier_segment_capacity", "FnsSeg"),
    Entry(SEG, "SegmentIdentifier", "leaf_offset", "SegmentIdentifier_leaf_offset", "FnsSeg"),
    Entry(SEG, "SegmentIdentifier", "segment_unpruned_size", "SegmentIdentifier_segment_unpruned_size", "FnsSeg"),
    Entry(SEG, "SegmentIdentifier", "full_segment", "SegmentIdentifier_full_segment", "FnsSeg"),
    Entry(SEG, "SegmentIdentifier", "segment_pos_range", "SegmentIdentifier_segment_pos_range", "FnsSeg"),
    Entry(SEG, "SegmentIdentifier", "pmmr_size", "SegmentIdentifier_pmmr_size", "FnsSeg"),
    # transaction.rs
    Entry(TXS, "FeeFields", "fee_shift", "FeeFields_fee_shift", "FnsTx"),
    Entry(TXS, "FeeFields", "fee", "FeeFields_fee", "FnsTx"),
    Entry(TXS, "FeeFields", "is_zero", "FeeFields_is_zero", "FnsTx"),
    Entry(TXS, "FeeFields", "as_opt", "FeeFields_as_opt", "FnsTx"),
    Entry(TXS, "TransactionBody", "weight_by_iok", "TransactionBody_weight_by_iok", "FnsTx"),
    Entry(TXS, "Transaction", "weight_by_iok", "Transaction_weight_by_iok", "FnsTx"),
    Entry(TXS, "Transaction", "old_weight_by_iok", "Transaction_old_weight_by_iok", "FnsTx"),
    Entry(TXS, "TransactionBody", "fee", "TransactionBody_fee", "FnsTx"),
    Entry(TXS, "TransactionBody", "fee_shift", "TransactionBody_fee_shift", "FnsTx"),
    Entry(TXS, "TransactionBody", "shifted_fee", "TransactionBody_shifted_fee", "FnsTx"),
    Entry(TXS, "TransactionBody", "lock_height", "TransactionBody_lock_height", "FnsTx"),
    Entry(TXS, "TransactionBody", "weight", "TransactionBody_weight", "FnsTx",
          abstract=[("self.inputs.len()", "inputs_len", "usize"), ("self.outputs.len()", "outputs_len", "usize")]),
    Entry(TXS, "TransactionBody", "verify_weight", "TransactionBody_verify_weight", "FnsTx",
          abstract=[("self.weight()", "weight", "u64")]),
    Entry(TXS, "Transaction", "weight", "Transaction_weight", "FnsTx"),
    Entry(TXS, "Transaction", "fee_rate", "Transaction_fee_rate", "FnsTx"),
    Entry(TXS, "Transaction", "accept_fee", "Transaction_accept_fee", "FnsTx"),
    Entry(TXS, "Transaction", "fee", "Transaction_fee", "FnsTx"),
    Entry(TXS, "Transaction", "shifted_fee", "Transaction_shifted_fee", "FnsTx"),
    Entry(LIBTX, None, "tx_fee", "tx_fee", "FnsTx"),
    # pow/siphash.rs
    Entry(SIP, "SipHash24", "new", "SipHash24_new", "FnsPow"),
    Entry(SIP, "SipHash24", "round", "SipHash24_round", "FnsPow"),
    Entry(SIP, "SipHash24", "hash", "SipHash24_hash", "FnsPow"),
    Entry(SIP, "SipHash24", "digest", "SipHash24_digest", "FnsPow"),
    Entry(SIP, None, "siphash24", "siphash24", "FnsPow"),
    Entry(SIP, None, "siphash_block", "siphash_block", "FnsPow"),
    Entry(POWC, "CuckooParams", "sipnode", "CuckooParams_sipnode", "FnsPow"),
    # pow/types.rs: the read side of the nonce packing
    Entry(GLOB, None, "proofsize", "proofsize", "FnsCons"),
    Entry(POWT, "Proof", "pack_len", "Proof_pack_len", "FnsPow"),
    Entry(POWT, None, "extract_bits", "extract_bits", "FnsPow"),
    Entry(POWT, None, "read_number", "read_number", "FnsPow"),
    # chain/src/txhashset/bitmap_accumulator.rs
    Entry(BMACC, "BitmapAccumulator", "chunk_start_idx", "BitmapAccumulator_chunk_start_idx", "FnsBitmap"),
    Entry(BMACC, "BitmapAccumulator", "chunk_idx", "BitmapAccumulator_chunk_idx", "FnsBitmap"),
    # p2p/src/msg.rs `max_msg_size` / `enum Type`: regenerated by tools/gen_msg.py (Gen/Msg.lean), not here
    # phase 4: the cycle verifiers (fuel of the `loop`s: an expression over the parameters, proved sufficient —
    # never trusted — in Props/XlateVerify*.lean)
    Entry(POWT, "Proof", "proof_size", "Proof_proof_size", "FnsVerify"),
    Entry(CUCKAROO, "CuckarooContext", "verify", "Cuckaroo_verify", "FnsVerify", trait="PoWContext",
          fuel={3: VERIFY_FUEL, 4: VERIFY_FUEL}),
    # store/src/prune_list.rs (croaring `Bitmap` = ascending `List Nat`)
    Entry(PRUNE, "PruneList", "is_pruned_root", "PruneList_is_pruned_root", "FnsPrune"),
    Entry(PRUNE, "PruneList", "get_shift", "PruneList_get_shift", "FnsPrune"),
    Entry(PRUNE, "PruneList", "get_leaf_shift", "PruneList_get_leaf_shift", "FnsPrune"),
    Entry(PRUNE, "PruneList", "get_total_shift", "PruneList_get_total_shift", "FnsPrune"),
    Entry(PRUNE, "PruneList", "get_total_leaf_shift", "PruneList_get_total_leaf_shift", "FnsPrune"),
    Entry(PRUNE, "PruneList", "calculate_next_shift", "PruneList_calculate_next_shift", "FnsPrune"),
    Entry(PRUNE, "PruneList", "calculate_next_leaf_shift", "PruneList_calculate_next_leaf_shift", "FnsPrune"),
    Entry(PRUNE, "PruneList", "is_pruned", "PruneList_is_pruned", "FnsPrune"),
    Entry(PRUNE, "PruneList", "cleanup_subtree", "PruneList_cleanup_subtree", "FnsPrune"),
    Entry(PRUNE, "PruneList", "append_single", "PruneList_append_single", "FnsPrune"),
    Entry(PRUNE, "PruneList", "append", "PruneList_append", "FnsPrune", rec_fuel=64),
    Entry(PRUNE, "PruneList", "len", "PruneList_len", "FnsPrune"),
    Entry(PRUNE, "PruneList", "is_empty", "PruneList_is_empty", "FnsPrune"),
    # phase 5: the context constructors (`Box<dyn PoWContext>` = the params of the one-field context struct)
    Entry(POWC, "CuckooParams", "new", "CuckooParams_new", "FnsCtx"),
    Entry(CUCKAROO, None, "new_cuckaroo_ctx", "new_cuckaroo_ctx", "FnsCtx", ret="Result<CuckooParams, Error>"),
    Entry(CUCKAROOD, None, "new_cuckarood_ctx", "new_cuckarood_ctx", "FnsCtx", ret="Result<CuckooParams, Error>"),
    Entry(CUCKAROOM, None, "new_cuckaroom_ctx", "new_cuckaroom_ctx", "FnsCtx", ret="Result<CuckooParams, Error>"),
    Entry(CUCKAROOZ, None, "new_cuckarooz_ctx", "new_cuckarooz_ctx", "FnsCtx", ret="Result<CuckooParams, Error>"),
    Entry(BLK, "Block", "verify_kernel_lock_heights", "Block_verify_kernel_lock_heights", "FnsCtx",
          abstract=[("self.kernels()", "kernels", "Vec<TxKernel>"), ("self.header.height", "height", "u64")]),
    Entry(TXS, "KernelFeatures", "is_nrd", "KernelFeatures_is_nrd", "FnsCtx"),
    Entry(TXS, "TxKernel", "is_nrd", "TxKernel_is_nrd", "FnsCtx"),
    Entry(BLK, "Block", "verify_nrd_kernels_for_header_version", "Block_verify_nrd_kernels_for_header_version", "FnsCtx",
          abstract=[("self.kernels()", "kernels", "Vec<TxKernel>"), ("self.header.version", "version", "HeaderVersion")]),
    Entry(TPOOL, "TransactionPool", "is_acceptable", "TransactionPool_is_acceptable", "FnsCtx",
          abstract=[("tx.shifted_fee()", "shifted_fee", "u64"), ("tx.accept_fee()", "accept_fee", "u64"),
                    ("self.total_size()", "total_size", "usize"), ("self.config.max_pool_size", "max_pool_size", "usize"),
                    ("self.stempool.size()", "stempool_size", "usize"),
                    ("self.config.max_stempool_size", "max_stempool_size", "usize")]),
    # phase 6: peak bagging (hashes kept abstract; backend reads and `hash_with_index` as function parameters)
    Entry(PMMR, None, "bag_the_rhs", "ReadablePMMR_bag_the_rhs", "FnsBag", trait="ReadablePMMR",
          abstract=[("self.unpruned_size()", "size", "u64")], opaque=["Hash"],
          fnparams=[("call", "self.get_from_file", "get_from_file", "fn(u64) -> Option<Hash>"),
                    ("method", "hash_with_index", "hash_with_index", "fn((Hash, Hash), u64) -> Hash")]),
    Entry(PMMR, None, "root", "ReadablePMMR_root", "FnsBag", trait="ReadablePMMR", opaque=["Hash"],
          abstract=[("self.is_empty()", "is_empty", "bool"), ("self.peaks()", "peak_hashes", "Vec<Hash>"),
                    ("self.unpruned_size()", "size", "u64"), ("ZERO_HASH", "zero_hash", "Hash")],
          fnparams=[("method", "hash_with_index", "hash_with_index", "fn((Hash, Hash), u64) -> Hash")]),
    # phase 6: the variant dispatch (the boxed trait object is an abstract type `Ctx`, the constructors are parameters)
    Entry(GLOB, None, "create_pow_context", "create_pow_context", "FnsBag", ret="Result<Ctx, Error>", opaque=["Ctx"],
          fnparams=[("call", "new_cuckatoo_ctx", "new_cuckatoo_ctx", "fn(u8, usize, u32) -> Result<Ctx, Error>"),
                    ("call", "new_cuckaroo_ctx", "new_cuckaroo_ctx", "fn(u8, usize) -> Result<Ctx, Error>"),
                    ("call", "new_cuckarood_ctx", "new_cuckarood_ctx", "fn(u8, usize) -> Result<Ctx, Error>"),
                    ("call", "new_cuckaroom_ctx", "new_cuckaroom_ctx", "fn(u8, usize) -> Result<Ctx, Error>"),
                    ("call", "new_cuckarooz_ctx", "new_cuckarooz_ctx", "fn(u8, usize) -> Result<Ctx, Error>"),
                    ("call", "no_cuckaroo_ctx", "no_cuckaroo_ctx", "fn() -> Result<Ctx, Error>")]),
    # phase 7: the write side of the nonce packing (`compressed` is written through and re-sliced)
    Entry(POWT, None, "pack_bits", "pack_bits", "FnsPack", outparam="compressed"),
    Entry(POWT, "Proof", "pack_nonces", "Proof_pack_nonces", "FnsPack"),
    Entry(CUCKATOO, "Graph", "new", "Graph_new", "FnsCtx"),
    Entry(CUCKATOO, "CuckatooContext", "verify_impl", "Cuckatoo_verify", "FnsVerify",
          fuel={3: VERIFY_FUEL, 4: VERIFY_FUEL}),
    Entry(CUCKAROOZ, "CuckaroozContext", "verify", "Cuckarooz_verify", "FnsVerify", trait="PoWContext",
          fuel={3: VERIFY_FUEL, 4: VERIFY_FUEL}),
    Entry(CUCKAROOD, "CuckaroodContext", "verify", "Cuckarood_verify", "FnsVerify", trait="PoWContext",
          fuel={2: "size + 1", 3: VERIFY_FUEL}),
    Entry(CUCKAROOM, "CuckaroomContext", "verify", "Cuckaroom_verify", "FnsVerify", trait="PoWContext",
          fuel={2: "size + 1", 3: "size + 1"}),
]

OUT_OF_FILE = {PMMR: "FnsPmmr", CONS: "FnsCons", GLOB: "FnsCons", SEG: "FnsSeg", TXS: "FnsTx", BLK: "FnsCons",
               POWT: "FnsCons", SIP: "FnsPow", POWC: "FnsPow", LIBTX: "FnsTx", BMACC: "FnsBitmap", P2PMSG: "FnsMsg",
               CUCKAROO: "FnsVerify", CUCKAROOD: "FnsVerify", CUCKAROOM: "FnsVerify", CUCKAROOZ: "FnsVerify",
               CUCKATOO: "FnsVerify", PRUNE: "FnsPrune", TPOOL: "FnsCtx"}
OUTS = ["FnsPmmr", "FnsCons", "FnsSeg", "FnsTx", "FnsPow", "FnsBitmap", "FnsVerify", "FnsPrune", "FnsCtx", "FnsBag", "FnsPack"]
TYPE_FILES = [PMMR, CONS, GLOB, SEG, TXS, BLK, POWT, SIP, POWC, LIBTX, BMACC, P2PMSG,
              CUCKAROO, CUCKAROOD, CUCKAROOM, CUCKAROOZ, CUCKATOO, PRUNE, TPOOL]


def consts_in_consts_lean():
    """names defined by gen_tables.py in Gen/Consts.lean, per source file"""
    try:
        import gen_tables
        return {f: set(ns) for f, ns in gen_tables.CONSTS.items()}
    except Exception:
        return {}


class ConstRec:
    pass


class SInfo:
    pass


class FnRec:
    pass


class World:
    def __init__(self, repo, whitelist=None, type_files=None, out_of_file=None):
        self.repo = repo
        self.whitelist = whitelist if whitelist is not None else WHITELIST
        self.type_files = type_files if type_files is not None else TYPE_FILES
        self.out_of_file = out_of_file if out_of_file is not None else OUT_OF_FILE
        self.files = {}
        self.recs = {}
        self.in_progress = []
        self.chunks = {o: [] for o in (OUTS if whitelist is None else [])}
        self.deps = {o: set() for o in (OUTS if whitelist is None else [])}
        self.cur_out = []
        self.consts = {}
        self.enums = {}
        self.structs = {}
        self.sinfos = {}
        self.macro_tabs = {}
        self.gen_consts = consts_in_consts_lean()
        self.report = []       # (entry, status, detail)
        self.partial = {}      # entry key -> FnRec under construction (direct recursion with `rec_fuel`)
        for e in self.whitelist:
            if e.out not in self.chunks:
                self.chunks[e.out] = []
                self.deps[e.out] = set()

    # ---- sources
    def load(self, rel):
        if rel not in self.files:
            p = os.path.join(self.repo, rel)
            if not os.path.exists(p):
                self.files[rel] = Unsupported(f"source file {rel} is missing")
            else:
                try:
                    toks = lex(open(p, encoding="utf-8").read())
                    self.files[rel] = (toks, scan_items(toks))
                except Unsupported as ex:
                    self.files[rel] = Unsupported(f"{rel}: {ex}")
        f = self.files[rel]
        if isinstance(f, Exception):
            raise f
        return f

    def items(self, rel, soft=False):
        try:
            return self.load(rel)[1]
        except Unsupported:
            if soft:
                return []
            raise

    @staticmethod
    def file_stem(rel):
        b = os.path.basename(rel)[:-3]
        return os.path.basename(os.path.dirname(rel)) if b == "mod" else b

    def note_dep(self, out):
        if out and self.cur_out and self.cur_out[-1] != out:
            self.deps[self.cur_out[-1]].add(out)

    # ---- types
    def find_items(self, kind, name):
        found = []
        for rel in self.type_files:
            for it in self.items(rel, soft=True):
                if it.kind == kind and it.name == name and not it.test:
                    found.append((rel, it))
        return found

    def struct(self, name):
        if name not in self.structs:
            f = self.find_items("struct", name)
            if len(f) != 1:
                raise Unsupported(f"struct `{name}`: {len(f)} definitions found")
            self.structs[name] = parse_struct(f[0][1])
        return self.structs[name]

    def newtype_of(self, name):
        """the field type of a one-field struct (tuple or named): such structs are transparent"""
        if not name or not self.find_items("struct", name):
            return None
        st = self.struct(name)
        if st[0] == "tuple" and len(st[1]) == 1:
            return st[1][0]
        if st[0] == "named" and len(st[1]) == 1:
            return st[1][0][1]
        return None

    def is_transparent(self, name):
        try:
            return self.newtype_of(name) is not None
        except Unsupported:
            return False

    def transparent_with_field(self, fname):
        out = []
        for rel in self.type_files:
            for it in self.items(rel, soft=True):
                if it.kind == "struct" and not it.test:
                    try:
                        st = self.struct(it.name)
                    except Unsupported:
                        continue
                    if st[0] == "named" and len(st[1]) == 1 and st[1][0][0] == fname:
                        try:
                            out.append((it.name, Checker(self, None, None).resolve_type(st[1][0][1])))
                        except Unsupported:
                            pass
        return out

    def macros(self, rel):
        if rel not in self.macro_tabs:
            tab = {}
            for it in self.items(rel, soft=True):
                if it.kind == "macro" and not it.test:
                    try:
                        tab[it.name] = parse_macro(it)
                    except Unsupported:
                        pass
            self.macro_tabs[rel] = tab
        return self.macro_tabs[rel]

    def struct_info(self, name):
        """SInfo: kind transparent|record, fields [(rust name, lean name, type or None when untranslatable)]"""
        if name in self.sinfos:
            si = self.sinfos[name]
            if si.out:
                self.note_dep(si.out)
            return si
        f = self.find_items("struct", name)
        if len(f) != 1:
            raise Unsupported(f"struct `{name}`: {len(f)} definitions found")
        rel = f[0][0]
        st = self.struct(name)
        si = SInfo()
        si.name = name
        if st[0] == "unit":
            raise Unsupported(f"unit struct `{name}`")
        raw = [(str(i), f"f{i}", t) for i, t in enumerate(st[1])] if st[0] == "tuple" else \
            [(fn_, ("«" + fn_ + "»") if fn_ in LEAN_KEYWORDS else fn_, t) for fn_, t in st[1]]
        si.fields = []
        for rf, lf, syn in raw:
            try:
                ty = Checker(self, rel, None).resolve_type(syn)
            except Unsupported:
                ty = None
            si.fields.append((rf, lf, ty))
        if len(raw) == 1:
            si.kind, si.out = "transparent", None
            if si.fields[0][2] is None:
                raise Unsupported(f"struct `{name}` wraps an unsupported type")
            self.sinfos[name] = si
            return si
        si.kind = "record"
        si.out = self.out_of_file.get(rel)
        if si.out is None:
            raise Unsupported(f"struct `{name}` comes from a file without an output module")
        self.sinfos[name] = si
        kept = [(lf, ty) for _, lf, ty in si.fields if ty is not None]
        dropped = [rf for rf, _, ty in si.fields if ty is None]
        if not kept:
            raise Unsupported(f"struct `{name}` has no translatable field")
        self.cur_out.append(si.out)
        try:
            flines = [f"  {lf} : {lean_ty(ty)}" for lf, ty in kept]
        finally:
            self.cur_out.pop()
        doc = f"/-- `struct {name}` ({rel})" + \
            (f"; fields of untranslated type omitted: {', '.join(dropped)}" if dropped else "") + " -/"
        self.chunks[si.out].append([doc, f"structure {name} where"] + flines + ["  deriving DecidableEq, Repr, Inhabited"])
        self.note_dep(si.out)
        return si

    def enum(self, name):
        if name not in self.enums:
            f = self.find_items("enum", name)
            if len(f) != 1:
                return None
            rel, it = f[0]
            raw = {}
            vs = parse_enum(it, raw)
            out = self.out_of_file.get(rel)
            if out is None:
                raise Unsupported(f"enum `{name}` comes from a file without an output module")
            pay = {}
            self.cur_out.append(out)
            try:
                for v, fs in raw.items():
                    pay[v] = [(fn_, (("«" + fn_ + "»") if fn_ in LEAN_KEYWORDS else fn_) if fn_ else f"a{i}",
                               Checker(self, rel, None).resolve_type(syn)) for i, (fn_, syn) in enumerate(fs)]
                self.enums[name] = (vs, out, pay)
                lines = []
                for v in vs:
                    args = "".join(f" ({lf} : {lean_ty(ty)})" for _, lf, ty in pay.get(v, []))
                    lines.append(f"  | {v}{args}")
            except Unsupported as ex:
                self.enums.pop(name, None)
                raise Unsupported(f"enum `{name}`: {ex}")
            finally:
                self.cur_out.pop()
            self.chunks[out].append(
                [f"/-- `enum {name}` ({rel}) -/", f"inductive {name}"] + lines +
                ["  deriving DecidableEq, Repr, Inhabited"])
        self.note_dep(self.enums[name][1])
        return self.enums[name]

    def enum_variant(self, segs, soft=False):
        if len(segs) >= 2 and segs[-2][0].isupper():
            en = self.enum(segs[-2])
            if en is not None:
                if segs[-1] in en[0]:
                    return (segs[-2], segs[-1])
                raise Unsupported(f"`{segs[-1]}` is not a variant of `{segs[-2]}`")
        if soft:
            return None
        raise Unsupported(f"cannot resolve pattern path `{'::'.join(segs)}`")

    def named_type(self, n):
        nt = self.newtype_of(n)
        if nt is not None:
            return Checker(self, None, None).resolve_type(nt)
        if self.find_items("struct", n):
            self.struct_info(n)
            return ("struct", n)
        if self.enum(n) is not None:
            return ("enum", n)
        raise Unsupported(f"type `{n}` is not supported")

    # ---- functions
    def find_fn(self, segs, file, impl_type):
        n = segs[-1]
        pre = [s for s in segs[:-1] if s not in ("crate", "self", "super")]
        cands = []
        for e in self.whitelist:
            if e.fn != n:
                continue
            if not pre:
                if e.impl is None:
                    cands.append(e)
            else:
                q = pre[-1]
                if q == "Self":
                    q = impl_type
                if q and q[0].isupper():
                    if e.impl == q:
                        cands.append(e)
                elif e.impl is None and q in (self.file_stem(e.file), os.path.basename(os.path.dirname(e.file))):
                    cands.append(e)
        if not cands:
            return None
        same = [e for e in cands if e.file == file]
        if len(same) == 1:
            return same[0]
        if len(cands) == 1:
            return cands[0]
        raise Unsupported(f"call to `{'::'.join(segs)}` is ambiguous between whitelisted functions")

    def locate(self, entry):
        found = []
        for it in self.items(entry.file):
            if it.kind != "fn" or it.name != entry.fn or it.test:
                continue
            if entry.impl is None and entry.trait and ("trait", entry.trait) in [tuple(c[:2]) for c in it.container]:
                found.append(it)          # phase 6: a provided (default) method of `trait <entry.trait>`
                continue
            if any(c[0] == "trait" for c in it.container):
                continue
            if entry.impl is None:
                if entry.trait:
                    continue
                if it.impl_type() is None and not it.in_mod():
                    found.append(it)
            elif it.impl_type() == entry.impl and it.impl_trait() == entry.trait:
                found.append(it)
        if not found:
            raise Unsupported(f"function not found in {entry.file}")
        if len(found) > 1:
            raise Unsupported(f"{len(found)} definitions found in {entry.file}")
        return found[0]

    def translate(self, entry):
        if entry.key in self.recs:
            r = self.recs[entry.key]
            if isinstance(r, Exception):
                raise Unsupported(f"depends on `{entry.rust_name}`, which is untranslatable ({r})")
            self.note_dep(r.out)
            return r
        if entry.key in self.in_progress:
            if self.in_progress[-1] == entry.key and entry.rec_fuel and entry.key in self.partial:
                r = self.partial[entry.key]
                r.is_recursive = True
                return r
            raise Unsupported(f"recursion through `{entry.rust_name}`")
        self.in_progress.append(entry.key)
        self.cur_out.append(entry.out)
        try:
            rec = self._translate(entry)
            self.recs[entry.key] = rec
            self.report.append((entry, "ok", rec))
        except Exception as ex:          # noqa: never propagate anything but Unsupported to callers
            if not isinstance(ex, Unsupported):
                ex = Unsupported(f"internal translator error: {type(ex).__name__}: {ex}")
            self.recs[entry.key] = ex
            self.chunks[entry.out].append([f"-- UNTRANSLATABLE {entry.rust_name}: {ex}"])
            self.report.append((entry, "untranslatable", str(ex)))
            raise ex
        finally:
            self.in_progress.pop()
            self.cur_out.pop()
        self.note_dep(rec.out)
        return rec

    def _translate(self, entry):
        item = self.locate(entry)
        extra = []
        for text, pname, pty in entry.abstract:
            pat = [t.text for t in lex(text)]
            toks = list(item.toks[item.lo:item.hi])
            out, k, hits = [], 0, 0
            while k < len(toks):
                if [t.text for t in toks[k:k + len(pat)]] == pat:
                    out.append(Tok("ident", pname, toks[k].pos)); k += len(pat); hits += 1
                else:
                    out.append(toks[k]); k += 1
            if not hits:
                raise Unsupported(f"abstracted expression `{text}` does not occur in the body")
            item = Item(item.kind, item.name, item.container, 0, len(out), out, item.test)
            extra.append((pname, pty, text))
        for kind, text, pname, _ in entry.fnparams:
            if kind != "call":
                continue
            pat = [t.text for t in lex(text)]
            toks = list(item.toks[item.lo:item.hi])
            out, k, hits = [], 0, 0
            while k < len(toks):
                if [t.text for t in toks[k:k + len(pat)]] == pat and k + len(pat) < len(toks) and toks[k + len(pat)].text == "(":
                    out.append(Tok("ident", pname, toks[k].pos)); k += len(pat); hits += 1
                else:
                    out.append(toks[k]); k += 1
            if not hits:
                raise Unsupported(f"abstracted callee `{text}` does not occur in the body")
            item = Item(item.kind, item.name, item.container, 0, len(out), out, item.test)
        ast = parse_fn(item, self.macros(entry.file))
        if entry.ret is not None:
            tt = lex(entry.ret)
            ast.ret = Parser(tt, 0, len(tt)).type_()
        for pname, pty, text in extra:
            if re.fullmatch(r"[A-Za-z0-9_]+", pty):
                ast.params.append(("param", pname, False, ("name", [pty], [])))
            else:
                tt = lex(pty)
                ast.params.append(("param", pname, False, Parser(tt, 0, len(tt)).type_()))
        own_abstract = [pname for pname, _, _ in extra]
        chk = Checker(self, entry.file, entry.impl)
        chk.opaque = list(entry.opaque)
        chk.typarams = ast.typarams
        rec = FnRec()
        rec.entry, rec.lean, rec.out, rec.rust_name = entry, entry.lean, entry.out, entry.rust_name
        rec.has_self = any(p[0] in ("self", "mutself") for p in ast.params)
        rec.self_mode = "whole" if any(p[0] == "mutself" for p in ast.params) else "flat" if rec.has_self else None
        # phase 5: a `&self` method of an ENUM takes the enum value as its first parameter (`self_mode = "value"`)
        if rec.self_mode == "flat" and entry.impl and not self.find_items("struct", entry.impl) \
                and self.enum(entry.impl) is not None:
            rec.self_mode = "value"
        if ast.ret is None and rec.self_mode != "whole" and not entry.outparam:
            raise Unsupported("function without a return value")
        chk.ret = chk.resolve_type(ast.ret) if ast.ret is not None else "unit"
        rec.ret = chk.ret
        rec.params = []
        selfb = None
        if rec.self_mode == "whole":
            if entry.impl is None or self.is_transparent(entry.impl):
                raise Unsupported("`&mut self` on a one-field struct")
            self.struct_info(entry.impl)
            selfb = chk.declare("self", ("struct", entry.impl), True, "param")
        if rec.self_mode == "value":
            rec.params.append(chk.declare("self", ("enum", entry.impl), False, "param"))
        outb = doneb = None
        rec.out_index = None
        for kind, name, mut, ty in ast.params:
            if kind == "param":
                if entry.outparam == name:
                    if ty[0] != "refmut" or not mut:
                        raise Unsupported("out-slice parameter must be declared `mut p: &mut [T]`")
                    outb = b = chk.declare(name, chk.resolve_type(ty[1]), True, "param")
                    b.byref = False
                    rec.out_index = len(rec.params)
                    rec.params.append(b)
                    continue
                b = chk.declare(name, chk.resolve_type(ty), mut, "param")
                b.byref = ty[0] == "ref"
                rec.params.append(b)
        if entry.outparam:
            if outb is None or prune(chk.ret) != "unit":
                raise Unsupported("out-slice parameter not found / function returns a value")
            doneb = chk.declare(entry.outparam + "_done", outb.ty, True, "local")
            chk.out_binding, chk.out_done = outb, doneb
        rec.fn_bindings = []
        for kind, text, pname, fty in entry.fnparams:
            m = re.fullmatch(r"\s*fn\s*\((.*)\)\s*->\s*(.*)", fty)
            if not m:
                raise Unsupported(f"function type `{fty}` not understood")
            parts, depth, cur = [], 0, ""
            for ch in m.group(1):
                if ch in "(<[":
                    depth += 1
                elif ch in ")>]":
                    depth -= 1
                if ch == "," and depth == 0:
                    parts.append(cur); cur = ""
                else:
                    cur += ch
            if cur.strip():
                parts.append(cur)

            def pty_(txt):
                tt = lex(txt)
                return chk.resolve_type(Parser(tt, 0, len(tt)).type_())
            fb = chk.declare(pname, ("fnty", tuple(pty_(x) for x in parts), pty_(m.group(2))), False, "param")
            rec.params.append(fb)
            rec.fn_bindings.append(fb)
            if kind == "method":
                chk.method_fns[text] = fb
        rec.abstract_names = list(own_abstract)    # provisional
        rec.is_recursive, rec.env_recs, rec.self_field_names, rec.needs_ok = False, [], [], bool(entry.rec_fuel)
        self.partial[entry.key] = rec
        bt = chk.infer(ast.body)
        if ast.body.tail is not None:
            unify(bt, chk.ret, "between body and declared return type")
        # abstracted parameters inherited from callees become trailing parameters of this function too
        for pname, b in chk.abs_bind.items():
            own = [pb for pb in rec.params if pb.name == pname]
            if own:
                chk.abs_bind[pname] = own[0]
            else:
                chk.bindings.append(b)
                rec.params.append(b)
                rec.abstract_names.append(pname)
        chk.finish()
        if contains_tvar(rec.ret):
            raise Unsupported("return type not determined")
        # environment / self-field parameters (own uses + callees')
        rec.env_recs = [er for er in ENV if er[2] in chk.env_used]
        if rec.has_self and rec.self_mode == "flat" and not chk.self_fields:
            rec.self_field_names = []     # every use of `self` was abstracted: the struct need not be readable (generic)
        elif rec.has_self and rec.self_mode != "value":
            st = self.struct(entry.impl)
            order = [str(i) for i in range(len(st[1]))] if st[0] == "tuple" else [f for f, _ in st[1]]
            rec.self_field_names = [f for f in order if f in chk.self_fields]
        else:
            if chk.self_fields:
                raise Unsupported("`self` used in a function without a self parameter")
            rec.self_field_names = []
        envb = [chk.env_used[er[2]] for er in rec.env_recs]
        selfbs = [chk.self_fields[f] for f in rec.self_field_names]
        g = Gen(self, rec, chk, entry.fuel)
        reserved = {entry.lean} | {c.lean for c in chk.callees} | {c.ref for c in chk.consts} | set(self.enums) | \
            set(self.sinfos)
        g.assign_names(envb + selfbs + chk.bindings, reserved)
        rec.needs_ok = False
        lean_ret = rec.ret
        rec.all_params = envb + selfbs + ([selfb] if selfb is not None else []) + rec.params
        g.fin_text = lambda v: g.E(v) if v is not None else _no("`return` without a value")()
        if rec.self_mode == "whole":
            unit = prune(rec.ret) == "unit"
            lean_ret = selfb.ty if unit else ("tuple", (selfb.ty, rec.ret))
            g.fin_text = (lambda v: selfb.lean) if unit else \
                (lambda v: f"({selfb.lean}, {g.E(v)})" if v is not None else _no("`return` without a value")())
            fin = (lambda v: [selfb.lean]) if unit else \
                (lambda v: [f"({selfb.lean}, {g.E(v)})"] if v is not None else _no("`return` without a value")())
            vctx = Ctx("val", (lambda: [selfb.lean]) if unit else _no("function body ends without a value"),
                       _no("`break` outside a loop"), fin)
        elif outb is not None:
            lean_ret = outb.ty
            fin_out = lambda: [f"{doneb.lean} ++ {outb.lean}"]
            g.fin_text = lambda v: fin_out()[0]
            vctx = Ctx("val", fin_out, _no("`break` outside a loop"), lambda v: fin_out())
        else:
            vctx = Ctx("val", _no("function body ends without a value"), _no("`break` outside a loop"),
                       lambda v: [g.E(v)] if v is not None else _no("`return` without a value")())
        g.ret_lean_ty = lean_ty(lean_ret)
        if rec.is_recursive:
            rec.lean, rec.lean_ok, rec.needs_ok = f"{entry.lean}_fuel fuel", f"{entry.lean}_fuel_ok fuel", True
        body = g.seq(ast.body.items, 0, ast.body.tail, vctx)
        if outb is not None:
            body = let_doc(doneb.lean, ["[]"], body)
        octx = Ctx("ok", lambda: ["true"], _no("`break` outside a loop"),
                   lambda v: [(g.O(v) if v is not None else None) or "true"])
        okdoc = g.seq(ast.body.items, 0, ast.body.tail, octx)
        if outb is not None and okdoc != ["true"]:
            okdoc = let_doc(doneb.lean, ["[]"], okdoc)
        if g.pending:
            raise Unsupported("`next()` in a position where its effect on the iterator cannot be sequenced")
        rec.needs_ok = okdoc != ["true"] or rec.is_recursive
        rec.lean, rec.lean_ok = entry.lean, entry.lean + "_ok"
        plist = envb + selfbs + ([selfb] if selfb is not None else []) + rec.params
        decl = g.tyb + "".join(f" ({b.lean} : {lean_ty(b.ty)})" for b in plist)
        rec.param_doc = ", ".join(f"{b.lean} : {show_ty(b.ty)}" +
                                  (" [env]" if b.kind == "env" else " [self]" if b.kind == "selffield" else "")
                                  for b in plist)
        lines = []
        for doc, d in g.aux:
            lines += [doc] + d + [""]
        where = f"{entry.file}"
        if rec.is_recursive:
            tys = " → ".join(atom_ty(b.ty) for b in plist)
            pv = ", ".join(b.lean for b in plist)
            pa = " ".join(b.lean for b in plist)
            base = selfb.lean if (rec.self_mode == "whole" and prune(rec.ret) == "unit") else default_val(lean_ret)
            lines += [f"/-- `{entry.rust_name}` ({where}) with its direct recursion made structural by `fuel` (exhausted fuel: "
                      f"the value is a default and `_ok` is false); parameters: {rec.param_doc} -/",
                      f"def {entry.lean}_fuel : Nat → {tys} → {lean_ty(lean_ret)}",
                      f"  | 0, {pv} => {base}",
                      f"  | fuel+1, {pv} =>"] + indent(body, 4) + [""]
            lines += [f"def {entry.lean}_fuel_ok : Nat → {tys} → Bool",
                      f"  | 0, {pv} => false",
                      f"  | fuel+1, {pv} =>"] + indent(okdoc, 4) + [""]
            lines += [f"/-- `{entry.rust_name}` ({where}), recursion depth at most {entry.rec_fuel} -/",
                      f"def {entry.lean}{decl} : {lean_ty(lean_ret)} := {entry.lean}_fuel {entry.rec_fuel} {pa}",
                      f"def {entry.lean}_ok{decl} : Bool := {entry.lean}_fuel_ok {entry.rec_fuel} {pa}"]
            rec.nloops = g.nloops
            self.chunks[entry.out].append(lines)
            return rec
        lines += [f"/-- `{entry.rust_name}` ({where}); parameters: {rec.param_doc or 'none'}; returns {show_ty(rec.ret)} -/",
                  f"def {entry.lean}{decl} : {lean_ty(lean_ret)} :="] + indent(body)
        if rec.needs_ok:
            lines += ["", f"/-- `{entry.rust_name}` returns normally in a release build (no division by zero, every loop "
                          f"exits within its fuel) iff this is `true` -/",
                      f"def {entry.lean}_ok{decl} : Bool :="] + indent(okdoc)
        rec.nloops = g.nloops
        self.chunks[entry.out].append(lines)
        return rec

    # ---- constants
    def find_const(self, segs, file, impl_type):
        n = segs[-1]
        if not (n[0].isupper() and n.upper() == n):
            return None
        pre = [s for s in segs[:-1] if s not in ("crate", "self", "super", "std", "core")]
        search = []
        if pre and pre[-1] == "Self":
            pre[-1] = impl_type
        if pre and pre[-1] and pre[-1][0].isupper():
            search = [(rel, pre[-1]) for rel in self.type_files]
        elif pre:
            search = [(rel, None) for rel in self.type_files
                      if pre[-1] in (self.file_stem(rel), os.path.basename(os.path.dirname(rel)))]
        else:
            if impl_type:
                search.append((file, impl_type))
            search.append((file, None))
            search += [(rel, None) for rel in self.type_files if rel != file]
        for rel, ity in search:
            if rel is None:
                continue
            key = (rel, ity, n)
            if key in self.consts:
                c = self.consts[key]
                if isinstance(c, Exception):
                    raise Unsupported(f"constant `{n}`: {c}")
                self.note_dep(c.out)
                return c
            for it in self.items(rel, soft=True):
                if it.kind == "const" and it.name == n and not it.test and it.impl_type() == ity \
                        and not (ity is None and it.in_mod()):
                    return self.make_const(key, rel, ity, it)
        return None

    def make_const(self, key, rel, ity, item):
        try:
            name, ty, e = parse_const(item)
            chk = Checker(self, rel, ity)
            c = ConstRec()
            c.name, c.file, c.impl = name, rel, ity
            c.ty = chk.resolve_type(ty)
            c.out = self.out_of_file.get(rel)
            if ity is None and name in self.gen_consts.get(rel, ()):
                c.ref = "Gen." + name
                c.out = None
                self.consts[key] = c
                return c
            if c.out is None:
                raise Unsupported(f"constant from {rel}, which has no output module")
            self.cur_out.append(c.out)
            try:
                chk.ret = c.ty
                unify(chk.infer(e), c.ty, f"in constant `{name}`")
                chk.finish()
                g = Gen(self, None, chk, {})
                val = g.E(e)
            finally:
                self.cur_out.pop()
            c.ref = (ity + "_" if ity else "") + name
            self.chunks[c.out].append([f"/-- `const {c.ref.replace('_', '::', 1) if ity else name}: {show_ty(c.ty)}` ({rel}) -/",
                                       f"def {c.ref} : Nat := {val}"])
            self.consts[key] = c
            self.note_dep(c.out)
            return c
        except Unsupported as ex:
            self.consts[key] = ex
            raise Unsupported(f"constant `{item.name}`: {ex}")

    def run(self):
        for e in self.whitelist:
            try:
                self.translate(e)
            except Unsupported:
                pass
            except Exception as ex:   # belt and braces: never propagate
                if e.key not in self.recs:
                    self.recs[e.key] = Unsupported(str(ex))
                    self.chunks[e.out].append([f"-- UNTRANSLATABLE {e.rust_name}: internal translator error: {ex}"])


PRELUDE = """import GrinVerif.Model.Basic
/-! GENERATED by tools/rs2lean.py (plug-in `gen_fns.py` of gen_tables.py) on every run. Do not edit.
Fixed-width helpers used by the translated Rust functions (release-build semantics: `+ - *` wrap,
shift amounts are masked to the width of the shifted type, `as` to a narrower type truncates).
The 64-bit versions `addW subW mulW shlW shrW satSub leadingZeros64 popcount` are those of
`Model/Basic.lean`. -/
namespace GV.Gen.Fns
open GV

def addN (w a b : Nat) : Nat := (a + b) % 2^w
def subN (w a b : Nat) : Nat := (a + 2^w - b % 2^w) % 2^w
def mulN (w a b : Nat) : Nat := (a * b) % 2^w
/-- `a << s` on a `w`-bit type: shift amount masked to `w - 1` (`w` a power of two) -/
def shlN (w a s : Nat) : Nat := (a * 2^(s % w)) % 2^w
def shrN (w a s : Nat) : Nat := a / 2^(s % w)
/-- `a as uW` for a narrower `uW` -/
def castN (w a : Nat) : Nat := a % 2^w
/-- `!a` on a `w`-bit type -/
def notN (w a : Nat) : Nat := 2^w - 1 - a % 2^w
def satAddN (w a b : Nat) : Nat := min (a + b) (2^w - 1)
def satMulN (w a b : Nat) : Nat := min (a * b) (2^w - 1)
def leadingZerosN (w a : Nat) : Nat := w - bitLen (a % 2^w)
/-- number of trailing zero bits of a positive number (0 for 0) -/
def trailingZeros : Nat → Nat
  | 0 => 0
  | n+1 => if (n+1) % 2 = 0 then 1 + trailingZeros ((n+1) / 2) else 0
decreasing_by omega
def trailingZerosN (w a : Nat) : Nat := if a % 2^w = 0 then w else trailingZeros (a % 2^w)
def countZerosN (w a : Nat) : Nat := w - popcount (a % 2^w)
def checkedSub (a b : Nat) : Option Nat := if b ≤ a then some (a - b) else none
def checkedAddN (w a b : Nat) : Option Nat := if a + b < 2^w then some (a + b) else none
/-- `v[i]`; the index-in-range condition is part of `<fn>_ok` -/
def idx {α : Type} [Inhabited α] (l : List α) (i : Nat) : α := l.getD i default
/-- `o.unwrap()`; `o.isSome` is part of `<fn>_ok` -/
def unwrapD {α : Type} [Inhabited α] (o : Option α) : α := o.getD default
/-- `Iterator::scan`: thread the state, stop at the first `None` -/
def scanOpt {σ α β : Type} (f : σ → α → σ × Option β) : σ → List α → List β
  | _, [] => []
  | s, x :: xs => match f s x with
    | (s', some y) => y :: scanOpt f s' xs
    | (_, none) => []
/-- result of a loop whose body contains `return`: `.ret r` = the function returned `r` from inside the loop,
`.go s` = the loop ended (list exhausted / condition false / `break` / fuel exhausted) in state `s` -/
inductive Flow (ρ σ : Type) where
  | ret : ρ → Flow ρ σ
  | go : σ → Flow ρ σ
/-- `croaring::Bitmap::rank(x)`: number of elements `≤ x` (a bitmap is the ascending list of its elements) -/
def bmRank (b : List Nat) (x : Nat) : Nat := b.countP (· ≤ x)
/-- `Bitmap::select(i)`: the element of rank `i` (0-based) -/
def bmSelect (b : List Nat) (i : Nat) : Option Nat := b[i]?
/-- `Bitmap::add(x)`: sorted insert without duplicates -/
def bmAdd : List Nat → Nat → List Nat
  | [], x => [x]
  | y :: ys, x => if x < y then x :: y :: ys else if x = y then y :: ys else y :: bmAdd ys x
/-- `Bitmap::remove_range(r)`: every element of the range `r` (given as the list of its elements) is removed -/
def bmRemoveAll (b : List Nat) (r : List Nat) : List Nat := b.filter fun v => !r.contains v
/-- `Iterator::enumerate` -/
def enumerateL {α : Type} (l : List α) : List (Nat × α) := (List.range l.length).zip l

end GV.Gen.Fns
"""


def render(world):
    files = {"FnsPrelude.lean": PRELUDE}
    srcs = {}
    for e in world.whitelist:
        srcs.setdefault(e.out, [])
        if e.file not in srcs[e.out]:
            srcs[e.out].append(e.file)
    for out in world.chunks:
        imps = ["import GrinVerif.Model.Basic", "import GrinVerif.Gen.Consts", "import GrinVerif.Gen.FnsPrelude"]
        for d in sorted(world.deps[out]):
            if d and d != out:
                imps.append(f"import GrinVerif.Gen.{d}")
        lines = imps + [
            "/-! GENERATED by tools/rs2lean.py (plug-in `gen_fns.py` of gen_tables.py) on every run from",
            "the CURRENT source of: " + ", ".join(srcs.get(out, [])) + ".  Do not edit.",
            "Each `def` is the translation of the Rust function of the same name with release-build integer",
            "semantics (see /verif/notes/xlate.md); `<fn>_ok` is the condition under which the Rust function",
            "returns normally.  Props/Xlate*.lean ties every definition to the hand-written model. -/",
            "set_option linter.unusedVariables false",
            "namespace GV.Gen.Fns", "open GV", ""]
        for ch in world.chunks[out]:
            lines += ch + [""]
        lines.append("end GV.Gen.Fns")
        files[out + ".lean"] = "\n".join(lines) + "\n"
    return files


def generate(repo_root, die=None, whitelist=None):
    """plug-in entry point of gen_tables.py; never calls `die`, never raises"""
    try:
        sys.setrecursionlimit(max(sys.getrecursionlimit(), 10000))
        w = World(repo_root, whitelist)
        w.run()
        return render(w)
    except Exception as ex:      # total failure: every function is reported untranslatable
        files = {"FnsPrelude.lean": PRELUDE}
        wl = whitelist if whitelist is not None else WHITELIST
        for out in sorted({e.out for e in wl}):
            body = "\n".join(f"-- UNTRANSLATABLE {e.rust_name}: translator failed: {type(ex).__name__}: {ex}"
                             for e in wl if e.out == out)
            files[out + ".lean"] = ("import GrinVerif.Model.Basic\nimport GrinVerif.Gen.Consts\n"
                                    "import GrinVerif.Gen.FnsPrelude\nnamespace GV.Gen.Fns\n" + body +
                                    "\nend GV.Gen.Fns\n")
        return files


def main(argv):
    here = os.path.dirname(os.path.abspath(__file__))
    repo = os.environ.get("VERIF_REPO", "/repo")
    out = os.path.join(here, "..", "lean", "GrinVerif", "Gen")
    show = False
    i = 0
    while i < len(argv):
        if argv[i] == "--repo":
            repo = argv[i + 1]; i += 2
        elif argv[i] == "--out":
            out = argv[i + 1]; i += 2
        elif argv[i] == "--print":
            show = True; i += 1
        else:
            print("usage: rs2lean.py [--repo DIR] [--out DIR] [--print]"); return 2
    sys.path.insert(0, here)
    w = World(repo)
    w.run()
    files = render(w)
    for e, status, detail in w.report:
        print(f"{status:15s} {e.rust_name:45s}" + (f" {detail}" if status != "ok" else
              f" -> {e.out}.{e.lean}" + (" (+_ok)" if detail.needs_ok else "")))
    for name, content in sorted(files.items()):
        if show:
            print("=" * 30, name); print(content)
        else:
            os.makedirs(out, exist_ok=True)
            p = os.path.join(out, name)
            if not (os.path.exists(p) and open(p).read() == content):
                open(p, "w").write(content)
    return 0


if __name__ == "__main__":
    sys.exit(main(sys.argv[1:]))
