#!/usr/bin/env python3
"""Writes MANIFEST.json from checks/*.json (one source of truth per property)."""
import json, os, glob
V = os.path.join(os.path.dirname(os.path.abspath(__file__)), "..")
props = [json.loads(l)["id"] for l in open(os.path.join(V, "properties.jsonl"))]
checks, claimed = [], set()
enabled = set(open(os.path.join(V, 'checks', 'enabled.txt')).read().split())
engines = {}
for p in props:
    f = os.path.join(V, "checks", p + ".json")
    if not os.path.exists(f): continue
    c = json.load(open(f))
    if c.get("disabled"): continue
    if p not in enabled: continue
    claimed.add(p)
    checks.append({
        "property_id": p,
        "quick_cmd": f"./check {p} --tier quick",
        "thorough_cmd": f"./check {p} --tier thorough",
        "evidence_file": f"/verif/evidence/{p}.json",
        "replay_cmd_template": f"./check {p} --replay {{path}}",
        "engine": "lean4-proof+correspondence",
        "level_claimed": {"category": c.get("level", "proof"), "text": c["level_text"], "design_ref": c.get("design_ref", "DESIGN.md §4")},
        "level_note": c["level_note"],
        "technique": c.get("technique", "Lean 4 theorems about an executable model + differential correspondence of the model with the real code"),
    })
na_file = os.path.join(V, "checks", "not_applicable.json")
na_reasons = json.load(open(na_file)) if os.path.exists(na_file) else {}
na = [{"property_id": p, "reason": na_reasons.get(p, "check not built yet in this session (work in progress; no technique switch intended)")} for p in props if p not in claimed]
hooks_file = os.path.join(V, "checks", "hooks.json")
hooks = json.load(open(hooks_file)) if os.path.exists(hooks_file) else {}
m = {
 "version": 1,
 "setup_cmd": "./setup.sh",
 "hooks": {
  "guard": "--cfg grin_verif",
  "enable": "harness/.cargo/config.toml sets rustflags = [\"--cfg\", \"grin_verif\"]; every check rebuilds harness/ (path deps on /repo crates) with it",
  "baseline_off_cmd": "cd /repo && cargo test --workspace --no-fail-fast --offline",
  "source_commits": hooks.get("source_commits", []),
  "add_only": True,
 },
 "engines": [{"name": "lean4-proof+correspondence", "path": "/verif/check",
              "serves_properties": sorted(claimed),
              "kind_free_text": "Lean 4 theorems (lean/GrinVerif/Props) about executable models (lean/GrinVerif/Model); models tied to /repo on every run by differential execution of the real Rust code (harness/) against the compiled model driver (lean/Driver.lean) and by tables regenerated from the sources (tools/gen_tables.py)"}],
 "checks": checks,
 "not_applicable": na,
 "notes": "See DESIGN.md. known_findings.json lists genuine defects recorded or fixed.",
}
json.dump(m, open(os.path.join(V, "MANIFEST.json"), "w"), indent=1)
print(f"MANIFEST.json: {len(checks)} checks, {len(na)} not claimed")
