#!/usr/bin/env python3
"""Validation-pipeline SHAPE extractor (plug-in of gen_tables.py; python3 stdlib + tools/rs2lean.py's lexer/parser).

For a whitelist of glue functions of /repo (chain/src/pipe.rs, core block / transaction validation, the UTXO view,
the txhashset extension, the pool) it reads the CURRENT source on every check run and writes
lean/GrinVerif/Gen/PipeShape{Types,Chain,Core,Pool}.lean: for every function the ORDERED list of its validation
steps.  Props/XlateShape*.lean holds the obligations about these tables (pinned order of checks, every check
propagated, early `Ok` only under the modelled conditions, the set of error variants), so "a check dropped /
weakened / moved behind an early return / applied to the wrong branch" breaks a proof obligation although no test
input has to hit it.

WHAT A STEP IS (evaluation order of the body; nested closures are read in place, i.e. where they are passed):
  kind   check    `<expr>?`                         the operand's error is propagated
         fail     `return Err(e)` / tail `Err(e)` / `Err(e)?`
         okEarly  `return Ok(v)`                    (a `return`, wherever it stands)
         okFinal  tail `Ok(v)`                      (value of the body / of a branch in tail position)
         tail     any other tail expression         (its value IS the function's result, e.g. `self.body.validate(w)`)
         call     an expression statement that is a call / method chain, or `let _ = <call>`: the result is DISCARDED
  name   the principal identifier: for check / call / tail the last called function that is not an adaptor
         (`map_err`, `ok_or`, `map`, `and_then`, `into`, `unwrap_or…`, `clone`, `as_ref` …); for fail the error
         variant (`InvalidBlockHeight`, nested `Block.TooHeavy`); for ok* the empty string
  what   the whole expression as a SKELETON: local variables (parameters, `let`s, closure / pattern bindings) are
         replaced by `$k`, k = the order in which they are bound in the function (so renaming a local changes
         nothing, using another local does); string / char / float literals lose their contents; macro calls
         are `name!(..)`; paths lose a leading `crate::` / `self::` / `super::`; types of casts are dropped
  guard  the enclosing conditions, outermost first, as skeletons: `if c` -> `c`, its else branch -> `!(c)`,
         `if let P = e` / `match e { P => }` -> `e ~ P` (bindings in P are `_`), a match guard -> `… if g`,
         `for P in e` -> `for e`, `while c` -> `while c`, `loop` -> `loop`, a closure body -> `closure`,
         `let … else { }` -> `!(e ~ P)`
Log macros (`debug! info! warn! error! trace!`) are ignored.  Statements that are not calls (assignments, `let`s
without `?`) produce no step.
LETS THAT FEED A GUARD (phase 4, closes the S18 limit).  Besides the steps, every function has the table `lets`:
the `let`s and assignments whose bound local occurs in a guard of a step — directly or through another recorded
`let` (transitive closure over initialisers and guards) — as ⟨bound locals `$k` | assigned place, principal callee of
the initialiser, initialiser skeleton (`op= value` for an assignment), enclosing guards⟩, in source order.  The exact
pins compare it (`<fn>.lets = pin_lets_<fn>`), the semantic modules its callee names (`<fn>_guard_inputs`).  So
`let weight = weight_by_iok(0, $3, $4); if weight > max { Err }` with swapped arguments now breaks the pin.
Phase 5: the guards of ASSIGNMENTS to locals seed the closure too (unit functions that drive a loop by flags, e.g.
`Chain::check_orphans`), and the area `ChainApi` reads 13 methods of `impl Chain` in chain/src/chain.rs.
Phase 6: area `Txhs` = the extension wrappers and archive functions of chain/src/txhashset/txhashset.rs (free functions);
the commit / discard decision is stated over it in Props/XlateShapeTxhsFacts.lean.

WHAT IS TRUSTED / NOT SEEN.  This is a syntactic reading, not a Rust front end: it does not know types (a discarded
call is reported whether or not it returns a `Result`), does not expand macros, does not follow calls (each callee
has its own table only if whitelisted), and identifies a function by file + impl type (+ trait) + name.
FAIL CLOSED: a function that is missing, ambiguous or cannot be parsed gets `parseError := some why` and an empty
step list, and the obligations of Props/XlateShape*.lean about it stop checking.  The plug-in never raises and
never calls `die`.

Standalone:  python3 tools/gen_pipeshape.py [--repo R] [--print] [--pin AREA] [--obligations AREA]
  --pin Chain|Core|Pool prints the `Props/XlateShape<AREA>Pins.lean` file for the current source (to RE-PIN after
  a reviewed, harmless reordering); --obligations AREA prints `Props/XlateShape<AREA>.lean` likewise."""
import os, sys

sys.path.insert(0, os.path.dirname(os.path.abspath(__file__)))
import rs2lean
from rs2lean import N, Parser, Unsupported, lex, scan_items, skip_group

PIPE = "chain/src/pipe.rs"
BLOCK = "core/src/core/block.rs"
TXS = "core/src/core/transaction.rs"
UTXO = "chain/src/txhashset/utxo_view.rs"
TXH = "chain/src/txhashset/txhashset.rs"
TPOOL = "pool/src/transaction_pool.rs"
POOL = "pool/src/pool.rs"
CHAINRS = "chain/src/chain.rs"

# (area, file, impl type | None, trait | None, fn, lean name)
TARGETS = [
    ("Chain", PIPE, None, None, f, "pipe_" + f) for f in (
        "check_known", "validate_pow_only", "process_block", "process_block_headers", "process_block_header",
        "check_known_head", "check_known_store", "prev_header_store", "validate_header_ctx",
        "validate_header_denylist", "validate_header", "validate_block", "verify_coinbase_maturity",
        "verify_block_sums", "apply_block_to_txhashset", "add_block", "update_body_tail", "add_block_header",
        "update_header_head", "update_head", "has_more_work", "rewind_and_apply_header_fork",
        "rewind_and_apply_fork", "validate_utxo")
] + [
    ("Chain", UTXO, "UTXOView", None, f, "utxo_" + f) for f in (
        "validate_block", "validate_tx", "validate_input", "validate_inputs", "validate_output",
        "verify_coinbase_maturity")
] + [
    ("Chain", TXH, "Extension", None, f, "ext_" + f) for f in (
        "apply_block", "apply_input", "apply_output", "apply_kernel", "rewind", "rewind_single_block",
        "validate_roots", "validate_sizes", "validate_mmrs", "validate", "validate_kernel_sums")
] + [
    ("Chain", TXH, "HeaderExtension", None, f, "hext_" + f) for f in ("apply_header", "rewind", "validate_root")
] + [
    # phase 5: the public API of `Chain` around the pipeline (orphans, known blocks, head resets, pool-side gates)
    ("ChainApi", CHAINRS, "Chain", None, f, "chain_" + f) for f in (
        "process_block", "is_known", "check_orphan", "process_block_single", "process_block_header",
        "sync_block_headers", "check_orphans", "reset_chain_head", "validate_tx", "verify_coinbase_maturity",
        "verify_tx_lock_height", "set_txhashset_roots", "compact")
] + [
    # phase 6: the extension wrappers of txhashset.rs (commit / discard decision) and the archive functions
    ("Txhs", TXH, None, None, f, "txhs_" + f) for f in (
        "extending", "extending_readonly", "header_extending", "header_extending_readonly", "utxo_view",
        "rewindable_kernel_view", "zip_read", "zip_write", "txhashset_replace")
] + [
    ("Core", BLOCK, "Block", None, f, "block_" + f) for f in (
        "validate_read", "validate", "verify_coinbase", "verify_kernel_lock_heights",
        "verify_nrd_kernels_for_header_version")
] + [
    ("Core", BLOCK, "UntrustedBlockHeader", "Readable", "read", "untrusted_header_read"),
    ("Core", BLOCK, "UntrustedBlock", "Readable", "read", "untrusted_block_read"),
] + [
    ("Core", TXS, "TransactionBody", None, f, "body_" + f) for f in (
        "validate_read", "validate", "verify_weight", "verify_no_nrd_duplicates", "verify_sorted",
        "verify_cut_through", "verify_features", "verify_output_features", "verify_kernel_features")
] + [
    ("Core", TXS, "Transaction", None, f, "tx_" + f) for f in ("validate_read", "validate")
] + [
    ("Pool", TPOOL, "TransactionPool", None, f, "tpool_" + f) for f in (
        "add_to_pool", "add_to_stempool", "add_to_txpool", "verify_kernel_variants",
        "reconcile_block", "evict_from_txpool")
] + [
    ("Pool", POOL, "Pool", None, f, "pool_" + f) for f in (
        "add_to_pool", "validate_raw_tx", "validate_raw_txs", "reconcile", "find_matching_transactions")
]

LOG_MACROS = {"debug", "info", "warn", "error", "trace", "println", "eprintln", "log"}
ADAPTORS = {"map_err", "ok_or", "ok_or_else", "map", "and_then", "or_else", "into", "unwrap_or", "unwrap_or_else",
            "unwrap_or_default", "clone", "cloned", "as_ref", "as_mut", "to_owned", "context", "iter", "collect",
            "ok", "err", "to_vec", "borrow", "into_iter", "copied", "unwrap", "expect", "is_err", "is_ok", "is_some",
            "is_none", "filter", "as_slice", "to_string", "as_str"}
ERR_TYPES = ("Error", "ErrorKind", "PoolError")


def _watch():
    """the list `XlateShape.watch` of Props/XlateShapeLib.lean (single source of truth: that file)"""
    import re
    try:
        txt = open(os.path.join(os.path.dirname(os.path.abspath(__file__)), "..", "lean", "GrinVerif", "Props",
                                "XlateShapeLib.lean")).read()
        body = txt[txt.index("def watch : List String :="):]
        body = body[:body.index("]") + 1]
        return set(re.findall(r'"([^"]*)"', body))
    except Exception:      # noqa
        return set()


WATCH = _watch()


class Names:
    """alpha-normalisation of locals: name -> index of its binding, scoped"""

    def __init__(self):
        self.stack = [{}]
        self.n = 0

    def push(self):
        self.stack.append({})

    def pop(self):
        self.stack.pop()

    def bind(self, name):
        self.stack[-1][name] = self.n
        self.n += 1

    def get(self, name):
        for s in reversed(self.stack):
            if name in s:
                return s[name]
        return None


class Shape:
    def __init__(self):
        self.steps = []
        self.lets = []      # (vars ["$k"…] | [target skeleton], principal name, initialiser skeleton, guards)
        self.nm = Names()

    # ---------------------------------------------------------------- skeleton printer
    def path(self, segs):
        segs = [x for x in segs if x not in ("crate", "self", "super")] or ["self"]
        return "::".join(segs)

    def sk(self, e):
        if e is None:
            return ""
        k = e.kind
        if k == "lit":
            return str(e.value)
        if k == "boollit":
            return "true" if e.value else "false"
        if k == "opaque":
            t = e.text
            return '"…"' if t[:1] in ('"', "b", "r") and '"' in t else ("'…'" if t[:1] == "'" else "<num>")
        if k == "paren":
            return self.sk(e.e)
        if k == "path":
            if len(e.path) == 1:
                if e.path[0] == "self":
                    return "self"
                i = self.nm.get(e.path[0])
                if i is not None:
                    return f"${i}"
            return self.path(e.path)
        if k == "un":
            return f"{e.op}{self.sk(e.e)}" if e.op in ("*", "&") else f"{e.op}({self.sk(e.e)})"
        if k == "bin":
            return f"({self.sk(e.l)} {e.op} {self.sk(e.r)})"
        if k == "cast":
            return f"{self.sk(e.e)} as _"
        if k == "tuple":
            return "(" + ", ".join(self.sk(x) for x in e.elems) + ")"
        if k == "vec":
            return "[" + ", ".join(self.sk(x) for x in e.elems) + "]"
        if k == "vecrep":
            return f"[{self.sk(e.elem)}; {self.sk(e.n)}]"
        if k == "range":
            return f"{self.sk(e.lo)}..{'=' if e.inclusive else ''}{self.sk(e.hi)}"
        if k == "field":
            return f"{self.sk(e.e)}.{e.name}"
        if k == "index":
            return f"{self.sk(e.e)}[{self.sk(e.i)}]"
        if k == "call":
            return f"{self.path(e.path)}(" + ", ".join(self.sk(a) for a in e.args) + ")"
        if k == "callx":
            return f"({self.sk(e.f)})(" + ", ".join(self.sk(a) for a in e.args) + ")"
        if k == "mcall":
            return f"{self.sk(e.recv)}.{e.name}(" + ", ".join(self.sk(a) for a in e.args) + ")"
        if k == "try":
            return self.sk(e.e) + "?"
        if k == "closure":
            return "|..|{..}"
        if k == "macrocall":
            return f"{e.name}!(..)"
        if k == "structlit":
            return self.path(e.path) + "{" + ", ".join(f"{f}: {self.sk(v)}" for f, v in e.fields) + "}"
        if k == "return":
            return "return " + self.sk(e.value)
        if k in ("if", "match", "block", "while", "for", "whilelet"):
            return f"<{k}>"
        if k == "assign":
            return f"{self.sk(e.target)} {e.op} {self.sk(e.value)}"
        if k in ("break", "continue"):
            return k
        return f"<{k}>"

    def pk(self, p):
        """pattern skeleton (bindings are `_`)"""
        k = p.kind
        if k in ("pwild", "pident"):
            return "_"
        if k == "popaque":
            return "<lit>"
        if k == "plit":
            return str(p.value)
        if k == "ptuple":
            return "(" + ", ".join(self.pk(q) for q in p.elems) + ")"
        if k == "pctor":
            return self.path(p.path) + "(" + ", ".join(self.pk(q) for q in p.args) + ")"
        if k == "ppath":
            return self.path(p.path)
        if k == "pstruct":
            return self.path(p.path) + "{" + ", ".join(f"{f}: {self.pk(q)}" for f, q in p.fields) + \
                (", .." if p.rest else "") + "}"
        if k == "por":
            return " | ".join(self.pk(q) for q in p.alts)
        return f"<{k}>"

    def bind_pat(self, p):
        k = p.kind
        if k == "pident":
            self.nm.bind(p.name)
            if getattr(p, "sub", None) is not None:
                self.bind_pat(p.sub)
        elif k == "ptuple":
            for q in p.elems:
                self.bind_pat(q)
        elif k == "pctor":
            for q in p.args:
                self.bind_pat(q)
        elif k == "pstruct":
            for _, q in p.fields:
                self.bind_pat(q)
        elif k == "por":
            self.bind_pat(p.alts[0])

    # ---------------------------------------------------------------- names
    def principal(self, e):
        """last called function that is not an adaptor"""
        while True:
            k = e.kind
            if k in ("paren", "try", "cast"):
                e = e.e
            elif k == "un":
                e = e.e
            elif k == "mcall":
                if e.name in ADAPTORS:
                    e = e.recv
                else:
                    return e.name
            elif k == "call":
                return e.path[-1] if e.path[-1] not in ("Ok", "Some", "Box") or not e.args else self.principal(e.args[0])
            elif k == "callx":
                f = e.f
                while f.kind == "paren":
                    f = f.e
                return f.name if f.kind == "field" else self.sk(f)
            elif k == "field":
                return e.name
            elif k == "path":
                return e.path[-1]
            elif k == "macrocall":
                return e.name + "!"
            elif k == "index":
                e = e.e
            else:
                return f"<{k}>"

    def variant(self, e):
        """error variant named in an expression: `Error::A` -> A, `Error::Block(block::Error::TooHeavy)` -> Block.TooHeavy"""
        found = []

        def go(x):
            if isinstance(x, N):
                segs = None
                if x.kind in ("path", "call", "structlit") and hasattr(x, "path"):
                    segs = x.path
                if segs and len(segs) >= 2 and any(s in ERR_TYPES for s in segs[:-1]):
                    found.append(segs[-1])
                for key, v in x.__dict__.items():
                    if key in ("ty", "res", "binding", "to", "tyann", "toks"):
                        continue
                    go(v)
            elif isinstance(x, (list, tuple)):
                for y in x:
                    go(y)
        go(e)
        return ".".join(found[:3])

    def mapped_err(self, e):
        """error variant introduced by `.map_err(..)` / `.ok_or(..)` adaptors of a `?` operand"""
        while e.kind in ("paren",):
            e = e.e
        out = []
        while e.kind == "mcall":
            if e.name in ("map_err", "ok_or", "ok_or_else", "or_else") and e.args:
                a = e.args[0]
                v = self.variant(a.body if a.kind == "closure" else a)
                if v:
                    out.append(v)
            e = e.recv
        return ".".join(reversed(out))

    # ---------------------------------------------------------------- steps
    def emit(self, kind, name, what, err, guards):
        self.steps.append((kind, name, what, err, list(guards)))

    def ret_value(self, v, guards, early):
        """the function returns `v` here"""
        while v is not None and v.kind == "paren":
            v = v.e
        if v is None:
            self.emit("okEarly" if early else "okFinal", "", "()", "", guards)
            return
        if v.kind == "call" and v.path == ["Err"] and len(v.args) == 1:
            self.emit("fail", self.variant(v.args[0]) or self.principal(v.args[0]), self.sk(v.args[0]), "", guards)
        elif v.kind == "call" and v.path == ["Ok"] and len(v.args) == 1:
            self.emit("okEarly" if early else "okFinal", "", self.sk(v.args[0]), "", guards)
        else:
            self.emit("tail", self.principal(v), self.sk(v), self.mapped_err(v), guards)

    def expr(self, e, guards, tail=False):
        """events of `e` in evaluation order; `tail`: the value of `e` is the function's result"""
        if e is None:
            return
        k = e.kind
        if k == "paren":
            return self.expr(e.e, guards, tail)
        if k == "block":
            return self.block(e, guards, tail)
        if k == "if":
            self.expr(e.c, guards)
            c = self.sk(e.c)
            self.block(e.th, guards + [c], tail)
            if e.el is not None:
                self.block(e.el, guards + [f"!({c})"], tail)
            return
        if k == "match":
            self.expr(e.s, guards)
            s = self.sk(e.s)
            for p, body in e.arms:
                self.nm.push()
                g = f"{s} ~ {self.pk(p)}"
                self.bind_pat(p)
                if getattr(p, "guard", None) is not None:
                    self.expr(p.guard, guards + [g])
                    g += f" if {self.sk(p.guard)}"
                self.expr(body, guards + [g], tail)
                self.nm.pop()
            return
        if k == "while":
            self.expr(e.c, guards)
            g = "loop" if getattr(e, "isloop", False) else f"while {self.sk(e.c)}"
            self.block(e.body, guards + [g])
            return
        if k == "whilelet":
            self.expr(e.s, guards)
            self.nm.push()
            g = f"while {self.sk(e.s)} ~ {self.pk(e.pat)}"
            self.bind_pat(e.pat)
            self.block(e.body, guards + [g])
            self.nm.pop()
            return
        if k == "for":
            self.expr(e.it, guards)
            self.nm.push()
            g = f"for {self.sk(e.it)}"
            self.bind_pat(e.pat)
            self.block(e.body, guards + [g])
            self.nm.pop()
            return
        if k == "closure":
            self.nm.push()
            for p, _ in e.params:
                self.bind_pat(p)
            # the value of the closure body is the closure's result, not the function's: a tail `Ok`/`Err` inside
            # is reported as okFinal / fail under the guard `closure`
            self.expr(e.body, guards + ["closure"], tail=True)
            self.nm.pop()
            return
        if k == "return":
            if e.value is not None:
                self.sub(e.value, guards)
            self.ret_value(e.value, guards, early=True)
            return
        if k == "try":
            inner = e.e
            while inner.kind == "paren":
                inner = inner.e
            if inner.kind == "call" and inner.path == ["Err"] and len(inner.args) == 1:
                self.sub(inner.args[0], guards)
                self.emit("fail", self.variant(inner.args[0]) or self.principal(inner.args[0]),
                          self.sk(inner.args[0]), "", guards)
            else:
                self.sub(inner, guards)
                self.emit("check", self.principal(inner), self.sk(inner), self.mapped_err(inner), guards)
            if tail:
                self.emit("tail", self.principal(inner), self.sk(e), "", guards)
            return
        if tail:
            self.sub(e, guards)
            self.ret_value(e, guards, early=False)
            return
        self.sub(e, guards)

    def sub(self, e, guards):
        """events of the sub-expressions of `e` (not of `e` itself)"""
        k = e.kind
        if k in ("if", "match", "block", "while", "whilelet", "for", "closure", "return", "try", "paren"):
            return self.expr(e, guards)
        if k == "macrocall":
            return
        if k == "mcall":
            self.expr(e.recv, guards)
            for a in e.args:
                self.expr(a, guards)
            return
        if k in ("call",):
            for a in e.args:
                self.expr(a, guards)
            return
        if k == "callx":
            self.expr(e.f, guards)
            for a in e.args:
                self.expr(a, guards)
            return
        if k == "bin":
            self.expr(e.l, guards)
            if e.op in ("&&", "||"):
                # the right operand is evaluated conditionally
                g = self.sk(e.l) if e.op == "&&" else f"!({self.sk(e.l)})"
                self.expr(e.r, guards + [g])
            else:
                self.expr(e.r, guards)
            return
        if k == "assign":
            self.expr(e.value, guards)
            return
        if k == "structlit":
            for _, v in e.fields:
                self.expr(v, guards)
            return
        for key, v in e.__dict__.items():
            if key in ("ty", "res", "binding", "to", "tyann", "toks", "kind"):
                continue
            if isinstance(v, N):
                self.expr(v, guards)
            elif isinstance(v, (list, tuple)):
                for y in v:
                    if isinstance(y, N):
                        self.expr(y, guards)

    def is_call(self, e):
        while e.kind == "paren":
            e = e.e
        return e.kind in ("call", "mcall", "callx") and not (e.kind == "call" and e.path[-1] in ("Ok", "Err", "Some", "drop"))

    def block(self, b, guards, tail=False):
        self.nm.push()
        for it in b.items:
            if it.kind == "let":
                if it.init is not None:
                    self.expr(it.init, guards)
                    if it.pat.kind == "pwild" and self.is_call(it.init):
                        self.emit("call", self.principal(it.init), self.sk(it.init), "", guards)
                    if getattr(it, "els", None) is not None:
                        self.block(it.els, guards + [f"!({self.sk(it.init)} ~ {self.pk(it.pat)})"])
                    init_sk, init_nm = self.sk(it.init), self.principal(it.init)
                    n0 = self.nm.n
                    self.bind_pat(it.pat)
                    if self.nm.n > n0:
                        self.lets.append(([f"${i}" for i in range(n0, self.nm.n)], init_nm, init_sk, list(guards)))
                else:
                    self.bind_pat(it.pat)
            else:
                e = it.e
                st = e
                while st.kind == "paren":
                    st = st.e
                if st.kind == "macrocall" and st.name.split("::")[-1] in LOG_MACROS:
                    continue
                self.expr(e, guards)
                if st.kind == "assign":
                    self.lets.append(([self.sk(st.target)], self.principal(st.value),
                                      f"{st.op} {self.sk(st.value)}", list(guards)))
                if self.is_call(st):
                    self.emit("call", self.principal(st), self.sk(st), "", guards)
                elif st.kind == "macrocall":
                    self.emit("call", st.name + "!", self.sk(st), "", guards)
        if b.tail is not None:
            t = b.tail
            while t.kind == "paren":
                t = t.e
            if not (t.kind == "macrocall" and t.name.split("::")[-1] in LOG_MACROS):
                self.expr(b.tail, guards, tail)
        self.nm.pop()


def locate(items, impl, trait, fn):
    found = []
    for it in items:
        if it.kind != "fn" or it.name != fn or it.test:
            continue
        if any(c[0] == "trait" for c in it.container):
            continue
        if impl is None:
            if it.impl_type() is None and not it.in_mod():
                found.append(it)
        elif it.impl_type() == impl and it.impl_trait() == trait:
            found.append(it)
    if len(found) != 1:
        raise Unsupported(f"{len(found)} definitions found")
    return found[0]


def param_names(toks, lo, hi):
    """identifiers directly followed by `:` at depth 1 of the parameter list (+ `self`)"""
    i = lo
    while i < hi and toks[i].text != "(":
        if toks[i].text == "<":      # generics of the fn: skip to the matching `>` (no `(` inside bounds we care about)
            d = 0
            while i < hi:
                if toks[i].text == "<":
                    d += 1
                elif toks[i].text == ">":
                    d -= 1
                    if d == 0:
                        break
                elif toks[i].text == ">>":
                    d -= 2
                    if d <= 0:
                        break
                i += 1
        i += 1
    end = skip_group(toks, i)
    out, depth = [], 0
    for j in range(i, end):
        t = toks[j]
        if t.kind == "punct" and t.text in ("(", "[", "<"):
            depth += 1
        elif t.kind == "punct" and t.text in (")", "]", ">"):
            depth -= 1
        elif depth == 1 and t.kind == "ident" and t.text not in ("mut", "self") and toks[j + 1].text == ":" \
                and toks[j - 1].text in ("(", ",", "mut"):
            out.append(t.text)
    return out, end


def shape_of(toks, item):
    params, i = param_names(toks, item.lo, item.hi)
    while i < item.hi and toks[i].text != "{":
        if toks[i].kind == "punct" and toks[i].text in ("(", "["):
            i = skip_group(toks, i)
        else:
            i += 1
    if i >= item.hi:
        raise Unsupported("no body")
    p = Parser(toks, i, item.hi)
    p.tol = True
    body = p.block()
    if p.i != item.hi:
        raise Unsupported("trailing tokens after the body")
    sh = Shape()
    for n in params:
        sh.nm.bind(n)
    sh.block(body, [], tail=True)
    return sh.steps, guard_lets(sh.steps, sh.lets)


_LOCAL = __import__("re").compile(r"\$\d+")
_ASSIGN = __import__("re").compile(r"(=|\+=|-=|\*=|/=|%=|<<=|>>=|\|=|&=|\^=) ")


def guard_lets(steps, lets):
    """the `let`s / assignments whose bound local occurs in a guard of a step, or (transitively) in the initialiser
    or guard of such a `let`: the values the CONDITIONS of the function are computed from (closes the S18 limit:
    `let weight = weight_by_iok(0, $3, $4); if weight > max { fail }`)"""
    need = set()
    for _, _, _, _, guards in steps:
        for g in guards:
            need.update(_LOCAL.findall(g))
    # phase 5: the guards of ASSIGNMENTS to locals count as well (a unit function that drives a loop by flags, e.g.
    # `Chain::check_orphans`: `if res.is_ok() { orphan_accepted = true }` … `if orphan_accepted { continue }`)
    for vs, _, init, guards in lets:
        if _ASSIGN.match(init):
            for g in guards:
                need.update(_LOCAL.findall(g))
    keep = [False] * len(lets)
    changed = True
    while changed:
        changed = False
        for i, (vs, _, init, guards) in enumerate(lets):
            if keep[i]:
                continue
            roots = set()
            for v in vs:
                roots.update(_LOCAL.findall(v)[:1])
            if roots & need:
                keep[i] = True
                changed = True
                need.update(_LOCAL.findall(init))
                for g in guards:
                    need.update(_LOCAL.findall(g))
    return [l for i, l in enumerate(lets) if keep[i]]


def lean_str(s):
    return '"' + s.replace("\\", "\\\\").replace('"', '\\"').replace("\n", " ") + '"'


TYPES = '''/-! GENERATED by tools/gen_pipeshape.py (plug-in of gen_tables.py). Do not edit.
Types of the validation-pipeline shape tables `Gen/PipeShape{Chain,Core,Pool}.lean`; the reading rules are in
the header of tools/gen_pipeshape.py, the obligations in Props/XlateShape*.lean. -/
namespace GV.Gen.PipeShape

/-- what a step does with the result it computes -/
inductive Kind
  | check    -- `<expr>?`: the error is propagated
  | fail     -- `return Err(e)` / tail `Err(e)`
  | okEarly  -- `return Ok(v)`
  | okFinal  -- tail `Ok(v)`
  | tail     -- any other tail expression: its value is the result
  | call     -- a call whose result is discarded
  deriving DecidableEq, Repr, Inhabited

structure Step where
  kind : Kind
  /-- callee (check / call / tail) or error variant (fail) -/
  name : String
  /-- the expression, locals alpha-normalised to `$k` -/
  what : String
  /-- error variant introduced by `map_err` / `ok_or` on a `?` operand -/
  err : String
  /-- enclosing conditions, outermost first -/
  guard : List String
  deriving DecidableEq, Repr, Inhabited

/-- a `let` (or an assignment to a local) whose bound local FEEDS A GUARD of a step — directly or through another
recorded `let`: the conditions of the function are computed from these -/
structure LetRec where
  /-- the locals bound by the pattern (`$k`), or the skeleton of the assigned place -/
  vars : List String
  /-- principal callee of the initialiser -/
  name : String
  /-- the initialiser, locals alpha-normalised (`op= value` for an assignment) -/
  init : String
  guard : List String
  deriving DecidableEq, Repr, Inhabited

structure FnShape where
  name : String
  parseError : Option String
  steps : List Step
  /-- the `let`s / assignments that feed a guard, in source order -/
  lets : List LetRec := []
  deriving Repr, Inhabited

end GV.Gen.PipeShape
'''


def render_lets(lets, ind):
    out = []
    for i, (vs, name, init, guards) in enumerate(lets):
        v = "[" + ", ".join(lean_str(x) for x in vs) + "]"
        g = "[" + ", ".join(lean_str(x) for x in guards) + "]"
        out.append(f"{ind}⟨{v}, {lean_str(name)}, {lean_str(init)}, {g}⟩" + ("," if i < len(lets) - 1 else ""))
    return out


def render_fn(lean, rust, steps, err, lets=()):
    out = [f"/-- `{rust}` -/", f"def {lean} : FnShape :=",
           f"  {{ name := {lean_str(rust)}, parseError := {'none' if err is None else 'some ' + lean_str(err)},"]
    if lets:
        out.append("    lets := [")
        out += render_lets(lets, "      ")
        out.append("    ],")
    else:
        out.append("    lets := [],")
    if not steps:
        out.append("    steps := [] }")
        return out
    out.append("    steps := [")
    for i, (kind, name, what, e, guards) in enumerate(steps):
        g = "[" + ", ".join(lean_str(x) for x in guards) + "]"
        out.append(f"      ⟨.{kind}, {lean_str(name)}, {lean_str(what)}, {lean_str(e)}, {g}⟩" +
                   ("," if i < len(steps) - 1 else ""))
    out.append("    ] }")
    return out


def extract(repo):
    """-> {area: [(lean, rust name, steps, error)]}"""
    cache = {}
    res = {}
    for area, rel, impl, trait, fn, lean in TARGETS:
        rust = (f"<{impl} as {trait}>::" if trait else (impl + "::" if impl else "")) + fn + f" ({rel})"
        steps, lets, err = [], [], None
        try:
            if rel not in cache:
                p = os.path.join(repo, rel)
                if not os.path.exists(p):
                    cache[rel] = Unsupported(f"source file {rel} is missing")
                else:
                    try:
                        toks = lex(open(p, encoding="utf-8").read())
                        cache[rel] = (toks, scan_items(toks))
                    except Exception as ex:      # noqa
                        cache[rel] = Unsupported(f"{rel}: {ex}")
            if isinstance(cache[rel], Exception):
                raise cache[rel]
            toks, items = cache[rel]
            steps, lets = shape_of(toks, locate(items, impl, trait, fn))
        except Exception as ex:      # noqa: fail closed, never propagate
            steps, lets, err = [], [], f"{type(ex).__name__}: {ex}"
        res.setdefault(area, []).append((lean, rust, steps, err, lets))
    return res


def generate(repo_root, die=None):
    """plug-in entry point of gen_tables.py; never calls `die`, never raises"""
    files = {"PipeShapeTypes.lean": TYPES}
    try:
        sys.setrecursionlimit(max(sys.getrecursionlimit(), 10000))
        res = extract(repo_root)
    except Exception as ex:      # noqa
        res = {}
        for area, rel, impl, trait, fn, lean in TARGETS:
            res.setdefault(area, []).append((lean, fn, [], f"extractor failed: {ex}", []))
    for area in sorted({t[0] for t in TARGETS}):
        srcs = []
        for t in TARGETS:
            if t[0] == area and t[1] not in srcs:
                srcs.append(t[1])
        lines = ["import GrinVerif.Gen.PipeShapeTypes",
                 "/-! GENERATED by tools/gen_pipeshape.py (plug-in of gen_tables.py) on every check run from the CURRENT",
                 "source of: " + ", ".join(srcs) + ".  Do not edit.",
                 "Data only: the ordered validation steps of the listed functions (reading rules: header of",
                 "tools/gen_pipeshape.py; obligations: Props/XlateShape" + area + ".lean). -/",
                 "namespace GV.Gen.PipeShape", ""]
        for lean, rust, steps, err, lets in res.get(area, []):
            lines += render_fn(lean, rust, steps, err, lets) + [""]
        lines.append(f"def all{area} : List FnShape := [" + ", ".join(l for l, _, _, _, _ in res.get(area, [])) + "]")
        lines += ["", "end GV.Gen.PipeShape"]
        files[f"PipeShape{area}.lean"] = "\n".join(lines) + "\n"
    return files


def pins(repo, area):
    """the Props/XlateShape<area>Pins.lean file for the current source"""
    res = extract(repo)
    out = [f"import GrinVerif.Gen.PipeShape{area}",
           f"/-! # Pinned shapes of the validation pipelines ({area})",
           "",
           "Every `def pin_<fn>` below is a COPY, made when the shape was last reviewed, of the step list that",
           f"tools/gen_pipeshape.py reads from the source (`Gen/PipeShape{area}.lean`, regenerated on every check run);",
           "`<fn>_pinned` states that the current source still has exactly that shape (kernel-checked by `rfl` /",
           "`decide`).  A change of the order of checks, a dropped `?`, a new guard or early return, another error",
           "variant, another argument breaks the theorem.  After a REVIEWED harmless change re-pin with",
           f"`python3 tools/gen_pipeshape.py --pin {area} > lean/GrinVerif/Props/XlateShape{area}Pins.lean`.",
           "The semantic obligations (order the hand models assume, every check propagated, early returns) are in",
           f"`Props/XlateShape{area}.lean`, stated over the GENERATED tables. -/",
           f"namespace GV.Props.XlateShape{area}Pins", "open GV.Gen.PipeShape", ""]
    for lean, rust, steps, err, lets in res.get(area, []):
        out.append(f"/-- reviewed shape of `{rust}` -/")
        out.append(f"def pin_{lean} : List Step := [")
        for i, (kind, name, what, e, guards) in enumerate(steps):
            g = "[" + ", ".join(lean_str(x) for x in guards) + "]"
            out.append(f"  ⟨.{kind}, {lean_str(name)}, {lean_str(what)}, {lean_str(e)}, {g}⟩" +
                       ("," if i < len(steps) - 1 else ""))
        out.append("]")
        out.append(f"/-- reviewed `let`s / assignments that feed a guard of `{rust}` -/")
        out.append(f"def pin_lets_{lean} : List LetRec := [")
        out += render_lets(lets, "  ")
        out.append("]")
        out.append(f"theorem {lean}_pinned : {lean}.parseError = none ∧ {lean}.steps = pin_{lean} ∧ "
                   f"{lean}.lets = pin_lets_{lean} := ⟨rfl, rfl, rfl⟩")
        out.append("")
    out.append(f"end GV.Props.XlateShape{area}Pins")
    return "\n".join(out) + "\n"


def obligations(repo, area):
    """the `decide`-closed observables of the current source, as the Props/XlateShape<area>.lean file"""
    res = extract(repo)

    def ls(xs):
        return "[" + ", ".join(lean_str(x) for x in xs) + "]"
    out = [f"import GrinVerif.Gen.PipeShape{area}", "import GrinVerif.Props.XlateShapeLib",
           f"/-! # Obligations about the validation pipelines ({area}), stated over the REGENERATED shape tables",
           "",
           f"`Gen/PipeShape{area}.lean` is rewritten on every check run from the current Rust source by",
           "tools/gen_pipeshape.py.  For every function:",
           "* `<fn>_order`  — the ORDER of the steps that can end it with an error (`?`-propagated calls, explicit",
           "  `Err`, tail expression), by callee / error variant: a dropped, added, duplicated or moved check breaks it;",
           "* `<fn>_propagated` — no call to a validation function (`XlateShape.watch`) has its result discarded",
           "  (a `?` replaced by `let _ =` / `.ok();` / a bare statement breaks `_order` and this), and the list of all",
           "  discarded calls (side-effecting helpers) is as reviewed;",
           "* `<fn>_early_ok` — the conditions under which it returns `Ok` early, and the checks that come BEFORE the",
           "  first early return (a new early return, or one moved in front of a check, breaks it);",
           "* `<fn>_errors` — the explicit error variants with the innermost condition they sit under, and the variants",
           "  introduced by `map_err` (a check weakened by changing its condition or wrapped in a new guard breaks it;",
           "  `_depth` records the nesting depth of every step).",
           "All are closed by `decide`.  They do not mention arguments or local names (the exact pins in",
           f"`Props/XlateShape{area}Pins.lean` do).  After a REVIEWED change regenerate with",
           f"`python3 tools/gen_pipeshape.py --obligations {area}`; the ties to the hand models are in",
           "`Props/XlateShapeModel.lean`. -/",
           f"namespace GV.Props.XlateShape{area}", "open GV.Gen.PipeShape GV.Props.XlateShape", "",
           "set_option maxRecDepth 4000", ""]
    for lean, rust, steps, err, lets in res.get(area, []):
        spine = [n for k, n, _, _, _ in steps if k in ("check", "fail", "tail")]
        calls = [n for k, n, _, _, _ in steps if k == "call"]
        early = [g for k, _, _, _, g in steps if k == "okEarly"]
        before = []
        for k, n, _, _, g in steps:
            if k == "okEarly":
                break
            if k in ("check", "fail", "tail"):
                before.append(n)
        fails = [(n, g[-1] if g else "") for k, n, _, _, g in steps if k == "fail"]
        mapped = [(n, e) for k, n, _, e, _ in steps if k == "check" and e]
        depths = [len(g) for k, _, _, _, g in steps if k in ("check", "fail", "tail")]
        out.append(f"/-! ### `{rust}` -/")
        out.append(f"theorem {lean}_order : readOk {lean} = true ∧ spine {lean} =\n    {ls(spine)} := by decide")
        disc = [n for n in calls if n in WATCH]
        if disc:
            out.append("/-- REVIEWED: the result of " + ", ".join(f"`{n}`" for n in disc) + " is deliberately ignored here -/")
        out.append(f"theorem {lean}_propagated : discarded watch {lean} = {ls(disc)} ∧ calls {lean} = {ls(calls)} := by decide")
        if early:
            out.append(f"theorem {lean}_early_ok : earlyOks {lean} = [" + ", ".join(ls(g) for g in early) +
                       f"]\n    ∧ spineBeforeFirstEarlyOk {lean} = {ls(before)} := by decide")
        else:
            out.append(f"theorem {lean}_early_ok : earlyOks {lean} = [] := by decide")
        out.append(f"theorem {lean}_errors : fails {lean} = [" + ", ".join(f"({lean_str(a)}, {lean_str(b)})" for a, b in fails) +
                   f"]\n    ∧ mapped {lean} = [" + ", ".join(f"({lean_str(a)}, {lean_str(b)})" for a, b in mapped) + "] := by decide")
        out.append(f"theorem {lean}_depth : depths {lean} = [" + ", ".join(str(d) for d in depths) + "] := by decide")
        out.append(f"theorem {lean}_guard_inputs : guardInputs {lean} = {ls([n for _, n, _, _ in lets])} := by decide")
        out.append("")
    out.append(f"end GV.Props.XlateShape{area}")
    return "\n".join(out) + "\n"


def main(argv):
    here = os.path.dirname(os.path.abspath(__file__))
    repo = os.environ.get("VERIF_REPO", "/repo")
    out = os.path.join(here, "..", "lean", "GrinVerif", "Gen")
    show, pin = False, None
    i = 0
    while i < len(argv):
        if argv[i] == "--repo":
            repo = argv[i + 1]; i += 2
        elif argv[i] == "--print":
            show = True; i += 1
        elif argv[i] == "--pin":
            pin = argv[i + 1]; i += 2
        elif argv[i] == "--obligations":
            sys.stdout.write(obligations(repo, argv[i + 1]))
            return 0
        else:
            print(__doc__); return 2
    if pin:
        sys.stdout.write(pins(repo, pin))
        return 0
    files = generate(repo)
    for name, content in sorted(files.items()):
        if show:
            print("=" * 30, name); print(content)
        else:
            p = os.path.join(out, name)
            if not (os.path.exists(p) and open(p).read() == content):
                open(p, "w").write(content)
    for area, fns in sorted(extract(repo).items()):
        for lean, rust, steps, err, lets in fns:
            print(f"{area:6s} {lean:40s} {len(steps):3d} steps {len(lets):2d} lets" + (f"  PARSE ERROR: {err}" if err else ""))
    return 0


if __name__ == "__main__":
    sys.exit(main(sys.argv[1:]))
