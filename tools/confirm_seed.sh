#!/bin/sh
# Confirm a seeded change independently:  tools/confirm_seed.sh <seed_out_dir> <demo_dest_rel_path> <demo_pkg> <demo_test_name> <crate> [<crate>...]
#  1. demo passes on the unchanged tree  2. patch applies and everything compiles
#  3. demo fails with the patch          4. the existing test suites of the given crates pass with the patch
# Uses the seed's own scratch worktree (reset to HEAD first) and target dir; prints a verdict line.
set -u
OUT="$1"; DEST="$2"; PKG="$3"; TEST="$4"; shift 4
SEEDROOT=$(dirname $(dirname "$OUT"))
WT=$SEEDROOT/repo
export CARGO_TARGET_DIR=$SEEDROOT/target CARGO_NET_OFFLINE=true
cd $WT || exit 2
git checkout -q -- . ; git clean -fdq
cp "$OUT/demo.rs" "$DEST"
cargo test -p $PKG --offline --test $TEST >$SEEDROOT/confirm_clean.log 2>&1; r1=$?
git apply "$OUT/patch.diff" || { echo "CONFIRM patch does not apply"; exit 2; }
cargo test -p $PKG --offline --test $TEST >$SEEDROOT/confirm_patched.log 2>&1; r2=$?
rm -f "$DEST"
r3=0
for c in "$@"; do
  cargo test -p $c --offline >$SEEDROOT/confirm_suite_$c.log 2>&1 || r3=1
done
git checkout -q -- . ; git clean -fdq
echo "CONFIRM demo_clean_exit=$r1 demo_patched_exit=$r2 suites_with_patch_exit=$r3  (want 0, nonzero, 0)"
