#!/usr/bin/env python3
"""keep_seed.py <seed_out_dir> <id> <confirm_line> <checks_run> <result>  -> /verif/seeded/<id>/{patch.diff,demo.rs,demo_cmd.txt,meta.json}"""
import sys, json, os, shutil
src, sid, confirm, checks, result = sys.argv[1:6]
dst = os.path.join("/verif/seeded", sid)
os.makedirs(dst, exist_ok=True)
for f in ("patch.diff", "demo.rs", "demo_cmd.txt"):
    if os.path.exists(os.path.join(src, f)): shutil.copy(os.path.join(src, f), dst)
m = json.load(open(os.path.join(src, "meta.json")))
m["id"] = sid
m["confirmed_by_lead"] = confirm
m["checks_run_against_it"] = checks
m["detection"] = result
json.dump(m, open(os.path.join(dst, "meta.json"), "w"), indent=1)
print("kept", dst)
