#!/usr/bin/env python3
"""Gate-shape extractor for property C18 (plug-in of gen_tables.py).

Reads /repo/store/src/lmdb.rs on every check run and writes lean/GrinVerif/Gen/KvGate.lean
(namespace GV.Gen.KvGate, data only): the SHAPE of the resize gate as values of the types of
lean/GrinVerif/Model/KvGate.lean.  Props/C18.lean holds the obligations about these values
(`gate_has_no_failure_exit`, `gate_wait_is_unbounded`, `gate_before_txn`, ...), so a change of the
gate that no test waits long enough to see still breaks a proof obligation.

WHAT IS READ (text level: comments and string contents removed, tokens, a brace / paren tree,
statements split at `;` and after block statements):

 * `fn enter_tx` (exactly one in the file): number of parameters besides `&self`; the return type
   (`TxCounter` / `Result<..>` / `Option<..>` / other); the statements of the body: how many
   come before the first loop, which kind of loop it is (`loop` / `while` / `for`), what follows
   it; INSIDE the loop every way out - `return <expr>` (`TxCounter {..}` / `Ok(..)` = pass,
   `Err(..)` = err, else other), `break`, `?`, `panic!`-like macros - each with the conditions of
   the enclosing `if`s; a way out under exactly one positive `if` gets that condition split at
   `||` and each disjunct compared with the three known atoms
        `!state.resizing.load(Ordering::_)`                       (state = map.get_mut(&self.env_path).unwrap(),
                                                                     map = ENV_MAP.get().unwrap().write())
        `nested_tx`  (= THREAD_TX_COUNTS.with(|txs| txs.borrow().get(&self.env_path).is_some_and(|count| *count > 0)))
        `txs_count == 0` (= ENV_MAP...get(&env_path).unwrap().open_txs_count.load(Ordering::_))
   anything else - a second enclosing `if`, an `else` branch, a `match` arm, a closure, a nested
   loop, an unknown disjunct - is the atom `other`; `thread::sleep(Duration::from_millis(N))`
   (literal N) inside the loop; other blocking calls; identifiers that smell of a clock or a budget
   ANYWHERE in the function (`Instant`, `SystemTime`, `elapsed`, `now`, a `Duration` outside the
   recognised sleep, names containing timeout / deadline / retry / retries / attempt / tries / budget /
   expire / limit / max_wait); the receivers of `.unwrap()` / `.expect()`; whether `drop(map)` precedes
   the sleep; the statements of the passing branch (`open_txs_count.fetch_add(1, ..)`,
   `THREAD_TX_COUNTS ... += 1`).
 * `fn maybe_resize`: `self.set_resizing(true)` before the `if self.open_txs_count() != 0 { .. } else { .. }`;
   the closure of `thread::spawn(move || { .. })` in the first branch read as a wait loop like above
   plus the recognised statements after its loop (`env.resize(new_size)`, `resizing.store(false)`,
   `resize_checking.store(false)`); the statements of the else branch; `fn batch` =
   `self.maybe_resize(); Batch::new(self)`.
 * the registry of environments (`registry`): every `fn` holding an `EnvState { .. }` literal, every
   `fn` calling `.insert(` on a map of environments, every `fn` writing `open_txs_count` / `resizing` /
   `resize_checking` (atomic write methods, `get_mut`, `=`, `+=`, `-=` right after the field); in
   `Store::new`: `let has_env = .. contains_key(&full_path) ..`, the literal and the insert sit inside
   `if !has_env { .. }` and nowhere else in the function, and which of the EnvState names the `else`
   branch mentions (today: `stores_count` only - opening a handle on a registered environment must
   leave counter and flags alone, `Props/C18Handles.lean`).
 * every `fn` of the file that calls `enter_tx` or opens an LMDB transaction of its own
   (`.read_txn()`, `.static_read_txn()`, `.write_txn()`; the `nested_*` calls live inside a batch):
   is the gate call a statement `let <name> = <self|store>.enter_tx();` of the body itself, is it
   followed by `?`, is the counter bound to a real name and never `drop`ped, does that statement
   come before the one that opens the transaction.  Functions that open a transaction WITHOUT the
   gate are listed (`ungatedTxnFns`; today the set-up path of `Store::new`).

WHAT IS TRUSTED / NOT SEEN.  This is not a Rust front end.  It does not see: macros that expand to
control flow, a gate call hidden behind another function or a trait, shadowed bindings (`state`,
`map`, `nested_tx`, `txs_count` are resolved to the LAST `let` of that name in the function),
semantics of the atomics' orderings, code outside lmdb.rs calling LMDB directly.  FAIL CLOSED:
whatever is not recognised becomes `.other` / a non-empty list / `parseError := some ..`, and the
obligations of Props/C18.lean then do not check.  The plug-in never raises and never calls `die`
(a broken gate must break C18 only, not the table generation every check shares).
"""
import os
import re
import sys


class Bad(Exception):
    pass


# ------------------------------------------------------------------------------------------------
# tokens
# ------------------------------------------------------------------------------------------------
class Tok:
    __slots__ = ("kind", "text", "line", "items")

    def __init__(self, kind, text, line, items=None):
        self.kind, self.text, self.line, self.items = kind, text, line, items


def strip_comments_strings(src):
    out, i, n = [], 0, len(src)
    while i < n:
        c = src[i]
        if src.startswith("//", i):
            j = src.find("\n", i)
            i = n if j < 0 else j
        elif src.startswith("/*", i):
            depth, j = 1, i + 2
            while j < n and depth:
                if src.startswith("/*", j):
                    depth += 1; j += 2
                elif src.startswith("*/", j):
                    depth -= 1; j += 2
                else:
                    if src[j] == "\n":
                        out.append("\n")
                    j += 1
            i = j
        elif c == '"':
            j = i + 1
            while j < n and src[j] != '"':
                if src[j] == "\\":
                    j += 1
                if j < n and src[j] == "\n":
                    out.append("\n")
                j += 1
            out.append('""'); i = j + 1
        elif c == "r" and re.match(r'r#*"', src[i:]) and (i == 0 or not (src[i - 1].isalnum() or src[i - 1] == "_")):
            m = re.match(r'r(#*)"', src[i:])
            end = '"' + m.group(1)
            j = src.find(end, i + len(m.group(0)))
            if j < 0:
                raise Bad("unterminated raw string")
            out.append('""' + "\n" * src[i:j].count("\n")); i = j + len(end)
        elif c == "'":
            m = re.match(r"'(\\.[^']*|[^\\'])'", src[i:])
            if m:
                out.append("' '"); i += len(m.group(0))
            else:
                out.append(c); i += 1
        else:
            out.append(c); i += 1
    return "".join(out)


TOKEN_RE = re.compile(r"\s+|[A-Za-z_][A-Za-z0-9_]*|\d[\dA-Za-z_\.]*|::|=>|->|==|!=|<=|>=|&&|\|\||\+=|-=|\.\.=|\.\.|.", re.S)
CLOSE = {"(": ")", "[": "]", "{": "}"}


def tokenize(src):
    toks, line = [], 1
    for m in TOKEN_RE.finditer(src):
        t = m.group(0)
        if t.isspace():
            line += t.count("\n"); continue
        kind = "id" if re.match(r"[A-Za-z_]", t) else ("num" if t[0].isdigit() else "p")
        toks.append(Tok(kind, t, line))
    root = Tok("group", "", 1, [])
    stack = [root]
    for t in toks:
        if t.kind == "p" and t.text in CLOSE:
            g = Tok("group", t.text, t.line, [])
            stack[-1].items.append(g); stack.append(g)
        elif t.kind == "p" and t.text in CLOSE.values():
            if len(stack) < 2 or CLOSE[stack[-1].text] != t.text:
                raise Bad(f"unbalanced '{t.text}' at line {t.line}")
            stack.pop()
        else:
            stack[-1].items.append(t)
    if len(stack) != 1:
        raise Bad(f"unclosed '{stack[-1].text}' opened at line {stack[-1].line}")
    return root.items


def is_id(t, text=None):
    return t is not None and t.kind == "id" and (text is None or t.text == text)


def is_p(t, text):
    return t is not None and t.kind == "p" and t.text == text


def is_grp(t, ch=None):
    return t is not None and t.kind == "group" and (ch is None or t.text == ch)


def at(items, i):
    return items[i] if 0 <= i < len(items) else None


def flat(items):
    out = []
    for t in items:
        if t.kind == "group":
            out.append(Tok("p", t.text, t.line))
            out.extend(flat(t.items))
            out.append(Tok("p", CLOSE[t.text], t.line))
        else:
            out.append(t)
    return out


def canon(items):
    """token text without spaces, except between two word characters"""
    s = ""
    for t in flat(items):
        if s and (s[-1].isalnum() or s[-1] == "_") and (t.text[0].isalnum() or t.text[0] == "_"):
            s += " "
        s += t.text
    return s


# ------------------------------------------------------------------------------------------------
# functions and statements
# ------------------------------------------------------------------------------------------------
class Fn:
    def __init__(self, impl, name, params, ret, body, line):
        self.impl, self.name, self.params, self.ret, self.body, self.line = impl, name, params, ret, body, line

    @property
    def qual(self):
        return (self.impl + "::" if self.impl else "") + self.name


def find_fns(items, impl, out):
    i = 0
    while i < len(items):
        t = items[i]
        if is_id(t, "impl"):
            j = i + 1
            hdr = []
            while j < len(items) and not is_grp(items[j], "{"):
                hdr.append(items[j]); j += 1
            if j >= len(items):
                raise Bad(f"impl without body at line {t.line}")
            # target type: after `for` if present, else the first path after the generics
            texts = [h.text for h in hdr if h.kind != "group"]
            target = None
            if "for" in texts:
                k = texts.index("for")
                for x in texts[k + 1:]:
                    if re.match(r"[A-Z]", x):
                        target = x; break
            else:
                depth = 0
                for x in texts:
                    if x == "<":
                        depth += 1
                    elif x == ">":
                        depth -= 1
                    elif depth == 0 and re.match(r"[A-Z]", x):
                        target = x; break
            find_fns(items[j].items, target or "?", out)
            i = j + 1
            continue
        if is_id(t, "fn") and is_id(at(items, i + 1)):
            name = items[i + 1].text
            j = i + 2
            while j < len(items) and not is_grp(items[j], "("):
                if is_grp(items[j], "{") or is_p(items[j], ";"):
                    raise Bad(f"fn {name}: no parameter list (line {t.line})")
                j += 1
            if j >= len(items):
                raise Bad(f"fn {name}: no parameter list (line {t.line})")
            params = items[j]
            k = j + 1
            ret = []
            if is_p(at(items, k), "->"):
                k += 1
                while k < len(items) and not is_grp(items[k], "{") and not is_id(items[k], "where") and not is_p(items[k], ";"):
                    ret.append(items[k]); k += 1
            while k < len(items) and not is_grp(items[k], "{") and not is_p(items[k], ";"):
                k += 1
            if k < len(items) and is_grp(items[k], "{"):
                out.append(Fn(impl, name, params, ret, items[k], t.line))
                # nested fns are not expected; still look
                find_fns(items[k].items, impl, out)
            i = k + 1
            continue
        if t.kind == "group":
            find_fns(t.items, impl, out)
        i += 1


BLOCK_HEADS = ("loop", "while", "for", "if", "match", "unsafe")


def split_stmts(items):
    """statements of a block; the trailing expression (no `;`) is a statement too"""
    out, cur, i = [], [], 0
    while i < len(items):
        t = items[i]
        if is_p(t, ";"):
            if cur:
                out.append(cur)
            cur = []
        elif is_grp(t, "{") and (not cur or (cur[0].kind == "id" and cur[0].text in BLOCK_HEADS)):
            cur.append(t)
            nxt = at(items, i + 1)
            if is_id(nxt, "else") or is_p(nxt, ".") or is_p(nxt, "?"):
                pass
            else:
                out.append(cur); cur = []
        else:
            cur.append(t)
        i += 1
    if cur:
        out.append(cur)
    return out


# ------------------------------------------------------------------------------------------------
# the wait loop
# ------------------------------------------------------------------------------------------------
PANIC_MACROS = {"panic", "unreachable", "todo", "unimplemented", "assert", "assert_eq", "assert_ne",
                "debug_assert", "debug_assert_eq", "debug_assert_ne"}
LOG_MACROS = {"debug", "trace", "info", "warn", "error"}
WAIT_CALLS = {"wait", "wait_timeout", "wait_while", "wait_timeout_while", "wait_for", "wait_until", "park",
              "park_timeout", "recv", "recv_timeout", "recv_deadline", "try_recv", "yield_now", "sleep", "sleep_ms",
              "sleep_until", "join", "try_lock_for", "try_read_for", "try_write_for", "spin_loop"}
CLOCK_IDS = {"Instant", "SystemTime", "elapsed", "now", "duration_since", "checked_duration_since", "UNIX_EPOCH"}
CLOCK_PARTS = ("timeout", "deadline", "retry", "retries", "attempt", "tries", "budget", "expire", "limit", "max_wait",
               "give_up", "giveup", "patience")

MAP_LET = "ENV_MAP.get().unwrap().write()"
STATE_LET = "map.get_mut(&self.env_path).unwrap()"
NESTED_LET = "THREAD_TX_COUNTS.with(|txs|{txs.borrow().get(&self.env_path).is_some_and(|count|*count>0)})"
COUNT_LET = "ENV_MAP.get().unwrap().read().get(&env_path).unwrap().open_txs_count.load(Ordering::Relaxed)"


class Wait:
    def __init__(self):
        self.loop = "missing"
        self.exits = []          # (kind, [atoms])
        self.sleep_ms = []
        self.other_waits = 0
        self.time_refs = []
        self.pre = 0
        self.post = []
        self.unwraps = []
        self.lock_released = False
        self.pass_effects = []
        self.lets = {}


def collect_lets(items, lets):
    for st in split_stmts(items):
        if st and is_id(st[0], "let"):
            k = 1
            if is_id(at(st, k), "mut"):
                k += 1
            if is_id(at(st, k)) and is_p(at(st, k + 1), "="):
                lets[st[k].text] = canon(st[k + 2:])
    for t in items:
        if t.kind == "group":
            collect_lets(t.items, lets)


def split_or(cond):
    parts, cur = [], []
    for t in cond:
        if is_p(t, "||"):
            parts.append(cur); cur = []
        else:
            cur.append(t)
    parts.append(cur)
    return parts


def atom_of(text, lets):
    if re.fullmatch(r"!state\.resizing\.load\(Ordering::(Acquire|SeqCst)\)", text):
        if lets.get("state") == STATE_LET and lets.get("map") == MAP_LET:
            return "notResizing"
        return "other"
    if text == "nested_tx":
        return "threadNested" if lets.get("nested_tx") == NESTED_LET else "other"
    if text == "txs_count==0":
        return "countZero" if lets.get("txs_count") == COUNT_LET else "other"
    return "other"


def guard_atoms(guards, lets):
    if not guards:
        return []
    if len(guards) > 1 or not guards[0][0]:
        return ["other"]
    cond = guards[0][1]
    if cond and (is_id(cond[0], "let") or any(is_p(t, "&&") for t in cond)):
        return ["other"]
    return [atom_of(canon(p), lets) for p in split_or(cond)]


def walk_exits(items, w, guards, closure, nested):
    """every way out of the loop body `items` (recursively), with its guards"""
    i = 0
    while i < len(items):
        t = items[i]
        if is_id(t, "if"):
            j = i + 1
            cond = []
            while j < len(items) and not is_grp(items[j], "{"):
                cond.append(items[j]); j += 1
            if j >= len(items):
                raise Bad(f"`if` without block at line {t.line}")
            walk_exits(cond, w, guards + [(False, [])], closure, nested)  # a `?` inside a condition
            walk_exits(items[j].items, w, guards + [(True, cond)], closure, nested)
            i = j + 1
            while is_id(at(items, i), "else"):
                if is_id(at(items, i + 1), "if"):
                    k = i + 2
                    while k < len(items) and not is_grp(items[k], "{"):
                        k += 1
                    if k >= len(items):
                        raise Bad(f"`else if` without block at line {t.line}")
                    walk_exits(items[i + 2:k], w, guards + [(False, [])], closure, nested)
                    walk_exits(items[k].items, w, guards + [(False, [])], closure, nested)
                    i = k + 1
                elif is_grp(at(items, i + 1), "{"):
                    walk_exits(items[i + 1].items, w, guards + [(False, cond)], closure, nested)
                    i += 2
                else:
                    raise Bad(f"`else` without block at line {t.line}")
            continue
        if is_id(t, "match"):
            j = i + 1
            while j < len(items) and not is_grp(items[j], "{"):
                j += 1
            if j >= len(items):
                raise Bad(f"`match` without block at line {t.line}")
            walk_exits(items[i + 1:j], w, guards + [(False, [])], closure, nested)
            walk_exits(items[j].items, w, guards + [(False, [])], closure, nested)
            i = j + 1
            continue
        if t.kind == "id" and t.text in ("loop", "while", "for"):
            j = i + 1
            while j < len(items) and not is_grp(items[j], "{"):
                j += 1
            if j >= len(items):
                raise Bad(f"`{t.text}` without block at line {t.line}")
            walk_exits(items[i + 1:j], w, guards + [(False, [])], closure, True)
            walk_exits(items[j].items, w, guards + [(False, [])], closure, True)
            i = j + 1
            continue
        if is_id(t, "return"):
            expr = []
            j = i + 1
            while j < len(items) and not is_p(items[j], ";"):
                expr.append(items[j]); j += 1
            if closure:
                kind = "other"
            elif expr and is_id(expr[0]) and expr[0].text in ("TxCounter", "Ok"):
                kind = "pass"
            elif expr and is_id(expr[0], "Err"):
                kind = "err"
            else:
                kind = "other"
            w.exits.append((kind, guard_atoms(guards, w.lets)))
            walk_exits(expr, w, guards + [(False, [])], closure, nested)
            i = j
            continue
        if is_id(t, "break"):
            w.exits.append(("other" if (nested or closure) else "breakOut", guard_atoms(guards, w.lets)))
        elif is_id(t, "continue"):
            w.exits.append(("other", guard_atoms(guards, w.lets)))
        elif is_p(t, "?"):
            w.exits.append(("question", guard_atoms(guards, w.lets)))
        elif t.kind == "id" and t.text in PANIC_MACROS and is_p(at(items, i + 1), "!"):
            w.exits.append(("panic", guard_atoms(guards, w.lets)))
        elif t.kind == "group":
            cl = closure
            k = 0
            if is_id(at(t.items, 0), "move"):
                k = 1
            if t.text == "(" and (is_p(at(t.items, k), "|") or is_p(at(t.items, k), "||")):
                cl = True
            walk_exits(t.items, w, guards, cl, nested)
        i += 1


def scan_calls(items, w, in_loop):
    """sleeps, other blocking calls, unwrap receivers (whole function); clock identifiers"""
    i = 0
    while i < len(items):
        t = items[i]
        if (is_id(t, "thread") and is_p(at(items, i + 1), "::") and is_id(at(items, i + 2), "sleep")
                and is_grp(at(items, i + 3), "(")):
            arg = canon(items[i + 3].items)
            m = re.fullmatch(r"Duration::from_millis\((\d[\d_]*)\)", arg)
            if m and in_loop:
                w.sleep_ms.append(int(m.group(1).replace("_", "")))
            else:
                w.other_waits += 1
                w.time_refs.append("sleep_" + re.sub(r"[^A-Za-z0-9_]", "_", arg)[:40])
            i += 4
            continue
        if t.kind == "id":
            low = t.text.lower()
            if t.text in CLOCK_IDS or t.text == "Duration" or any(p in low for p in CLOCK_PARTS):
                w.time_refs.append(t.text)
            if t.text in WAIT_CALLS and is_grp(at(items, i + 1), "(") and (is_p(at(items, i - 1), ".") or is_p(at(items, i - 1), "::")):
                w.other_waits += 1
            if t.text in ("unwrap", "expect", "unwrap_or_else", "unwrap_unchecked") and is_p(at(items, i - 1), ".") and is_grp(at(items, i + 1), "("):
                recv = "?"
                if is_grp(at(items, i - 2), "(") and is_id(at(items, i - 3)):
                    recv = items[i - 3].text
                elif is_id(at(items, i - 2)):
                    recv = items[i - 2].text
                w.unwraps.append(recv)
        elif t.kind == "group":
            scan_calls(t.items, w, in_loop)
        i += 1


ENTER_EFFECTS = [
    (r"state\.open_txs_count\.fetch_add\(1,Ordering::\w+\)", "incGlobal"),
    (r"THREAD_TX_COUNTS\.with\(\|txs\|\{let mut txs=txs\.borrow_mut\(\);\*txs\.entry\(self\.env_path\.clone\(\)\)\.or_insert\(0\)\+=1;\}\)", "incThread"),
]
RESIZE_EFFECTS = [
    (r"(unsafe\{)?match env\.resize\(new_size\)\{Ok\(_\)=>debug!\(.*\),Err\(e\)=>error!\(.*\),\}\}?", "resize"),
    (r"env_state\.resizing\.store\(false,Ordering::(Release|SeqCst)\)", "clearResizing"),
    (r"env_state\.resize_checking\.store\(false,Ordering::(Release|SeqCst)\)", "clearChecking"),
    (r"self\.set_resizing\(false\)", "clearResizing"),
    (r"self\.finish_resize_checking\(\)", "clearChecking"),
    (r"self\.set_resizing\(true\)", "setResizing"),
]
IGNORED_STMTS = [
    r"(debug|trace|info|warn|error)!\(.*\)",
    r"let mut w_env_map=ENV_MAP\.get\(\)\.unwrap\(\)\.write\(\)",
    r"let env_state=w_env_map\.get_mut\(&env_path\)\.unwrap\(\)",
    # verification hooks (DESIGN 1.3: add-only, `--cfg grin_verif` only, a no-op unless a crash point is armed)
    r"#\[cfg\(grin_verif\)\]crate::verif_hooks::crash_point(_path)?\(.*\)",
]


def effects_of(stmts, table):
    out = []
    for st in stmts:
        c = canon(st)
        if any(re.fullmatch(p, c) for p in IGNORED_STMTS):
            continue
        for pat, eff in table:
            if re.fullmatch(pat, c):
                out.append(eff); break
        else:
            out.append("other")
    return out


def analyse_wait(body_items, whole_fn_items):
    """body_items: the block whose statements are [.. loop ..]"""
    w = Wait()
    collect_lets(whole_fn_items, w.lets)
    stmts = split_stmts(body_items)
    li = None
    for k, st in enumerate(stmts):
        if st and st[0].kind == "id" and st[0].text in ("loop", "while", "for"):
            li = k; break
    if li is None:
        w.loop = "missing"
        w.pre = len(stmts)
        scan_calls(whole_fn_items, w, False)
        return w, [], None
    head = stmts[li][0].text
    w.loop = {"loop": "forever", "while": "whileCond", "for": "forRange"}[head]
    w.pre = li
    if not is_grp(stmts[li][-1], "{"):
        raise Bad("loop statement does not end in a block")
    if w.loop == "forever" and len(stmts[li]) != 2:
        raise Bad("`loop` followed by something else than its block")
    loop_body = stmts[li][-1].items
    walk_exits(loop_body, w, [], False, False)
    # a `while` / `for` header may hide a `?`
    walk_exits(stmts[li][1:-1], w, [(False, [])], False, False)
    # calls: inside the loop vs the rest
    scan_calls(loop_body, w, True)
    rest = []
    for k, st in enumerate(stmts):
        if k != li:
            rest.extend(st)
    rest.extend(stmts[li][1:-1])
    scan_calls(rest, w, False)
    # lock discipline inside the loop
    ls = split_stmts(loop_body)
    cs = [canon(s) for s in ls]
    drop_i = [k for k, c in enumerate(cs) if c == "drop(map)"]
    sleep_i = [k for k, c in enumerate(cs) if c.startswith("thread::sleep(")]
    w.lock_released = bool(drop_i and sleep_i and cs and cs[0] == "let mut map=" + MAP_LET
                           and max(drop_i) < min(sleep_i))
    return w, stmts[li + 1:], ls


# ------------------------------------------------------------------------------------------------
# extraction
# ------------------------------------------------------------------------------------------------
def ret_kind(ret):
    c = canon(ret)
    if c == "TxCounter":
        return "txCounter"
    if c.startswith("Result<") or c == "Result":
        return "result"
    if c.startswith("Option<"):
        return "option"
    return "other"


def count_params(params):
    parts, cur, depth = [], [], 0
    for t in params.items:
        if is_p(t, "<"):
            depth += 1
        elif is_p(t, ">"):
            depth -= 1
        if is_p(t, ",") and depth == 0:
            parts.append(cur); cur = []
        else:
            cur.append(t)
    if cur:
        parts.append(cur)
    n = 0
    for p in parts:
        if canon(p) in ("&self", "self", "&mut self", "mut self"):
            continue
        n += 1
    return n


def extract_enter(fns):
    cands = [f for f in fns if f.name == "enter_tx"]
    if len(cands) != 1:
        raise Bad(f"{len(cands)} definitions of enter_tx")
    f = cands[0]
    w, post, loop_stmts = analyse_wait(f.body.items, f.body.items)
    w.post = effects_of(post, [])
    # the passing branch: the `if` of the loop body whose block holds the pass exit
    if loop_stmts is not None:
        for st in loop_stmts:
            if st and is_id(st[0], "if") and is_grp(st[-1], "{"):
                inner = split_stmts(st[-1].items)
                if any(s and is_id(s[0], "return") for s in inner):
                    w.pass_effects = effects_of([s for s in inner if not (s and is_id(s[0], "return"))], ENTER_EFFECTS)
    return {"impl": f.impl, "params": count_params(f.params), "ret": ret_kind(f.ret), "wait": w}


def extract_resize(fns):
    def one(name):
        c = [f for f in fns if f.impl == "Store" and f.name == name]
        if len(c) != 1:
            raise Bad(f"{len(c)} definitions of Store::{name}")
        return c[0]
    mr = one("maybe_resize")
    stmts = split_stmts(mr.body.items)
    cs = [canon(s) for s in stmts]
    set_i = [k for k, c in enumerate(cs) if c == "self.set_resizing(true)"]
    if_i = [k for k, s in enumerate(stmts) if s and is_id(s[0], "if") and "thread::spawn(" in cs[k]]
    res = {"setResizingFirst": False, "deferCond": "other", "waiter": Wait(), "immediate": ["other"], "batchChecksFirst": False}
    lets = {}
    collect_lets(mr.body.items, lets)
    if len(if_i) == 1 and len(set_i) == 1:
        st = stmts[if_i[0]]
        res["setResizingFirst"] = set_i[0] < if_i[0]
        # `if cond {then} else {els}`
        j = 1
        cond = []
        while j < len(st) and not is_grp(st[j], "{"):
            cond.append(st[j]); j += 1
        then_g = at(st, j)
        els_g = at(st, j + 2) if is_id(at(st, j + 1), "else") else None
        if is_grp(then_g, "{") and is_grp(els_g, "{") and j + 3 == len(st):
            oc = one("open_txs_count")
            oc_body = canon(oc.body.items).rstrip(";")
            if canon(cond) == "self.open_txs_count()!=0" and \
                    oc_body == "ENV_MAP.get().unwrap().read().get(&self.env_path).unwrap().open_txs_count.load(Ordering::Relaxed)":
                res["deferCond"] = "countNonZero"
            # the spawned closure
            th = [s for s in split_stmts(then_g.items) if not re.fullmatch(IGNORED_STMTS[0], canon(s))]
            if len(th) == 1 and canon(th[0][:3]) == "thread::spawn" and is_grp(at(th[0], 3), "(") and len(th[0]) == 4:
                arg = th[0][3].items
                if canon(arg[:3]) in ("move||", "move| |") and is_grp(at(arg, 3), "{") and len(arg) == 4:
                    w, post, _ = analyse_wait(arg[3].items, arg[3].items)
                    w.post = effects_of(post, RESIZE_EFFECTS)
                    res["waiter"] = w
                elif is_id(at(arg, 0), "move") and is_p(at(arg, 1), "||") and is_grp(at(arg, 2), "{") and len(arg) == 3:
                    w, post, _ = analyse_wait(arg[2].items, arg[2].items)
                    w.post = effects_of(post, RESIZE_EFFECTS)
                    res["waiter"] = w
            res["immediate"] = effects_of(split_stmts(els_g.items), RESIZE_EFFECTS)
            # the helpers really store into the flags, and `new_size` is needs_resize's answer
            sr = canon(one("set_resizing").body.items).rstrip(";")
            fr = canon(one("finish_resize_checking").body.items).rstrip(";")
            ok = (sr == "ENV_MAP.get().unwrap().read().get(&self.env_path).unwrap().resizing.store(resizing,Ordering::Release)"
                  and fr == "ENV_MAP.get().unwrap().read().get(&self.env_path).unwrap().resize_checking.store(false,Ordering::Release)"
                  and lets.get("env") == "self.env.clone()"
                  and "let(resize,new_size)=needs_resize(&self.env,self.alloc_chunk_size)" in cs)
            if not ok:
                res["immediate"] = res["immediate"] + ["other"]
    b = one("batch")
    res["batchChecksFirst"] = [canon(s) for s in split_stmts(b.body.items)] == ["self.maybe_resize()", "Batch::new(self)"]
    return res


TXN_CALLS = {"read_txn": "read", "static_read_txn": "staticRead", "write_txn": "write"}


def stmt_has_call(st, names):
    fl = flat(st)
    found = []
    for k, t in enumerate(fl):
        if t.kind == "id" and t.text in names and k > 0 and fl[k - 1].text == "." and k + 1 < len(fl) and fl[k + 1].text == "(":
            found.append(t.text)
    return found


def extract_sites(fns, all_items):
    sites, ungated = [], []
    total_calls = 0
    for f in fns:
        if f.name == "enter_tx":
            continue
        stmts = split_stmts(f.body.items)
        gate_idx, txn_idx, txn_kind = [], [], None
        for k, st in enumerate(stmts):
            g = stmt_has_call(st, {"enter_tx"})
            for _ in g:
                gate_idx.append(k)
            x = stmt_has_call(st, set(TXN_CALLS))
            if x:
                txn_idx.append(k)
                if txn_kind is None:
                    txn_kind = TXN_CALLS[x[0]]
        total_calls += len(gate_idx)
        if not gate_idx and not txn_idx:
            continue
        if not gate_idx:
            ungated.append(f.qual)
            continue
        site = {"name": f.qual, "gateCalls": len(gate_idx), "unconditional": False, "question": False, "held": False,
                "txn": txn_kind or "none", "gateBeforeTxn": False}
        c = canon(stmts[gate_idx[0]])
        m = re.fullmatch(r"let (mut )?(\w+)=(self|store)\.enter_tx\(\)(\?)?", c)
        if m:
            site["unconditional"] = True
            site["question"] = m.group(4) is not None
            name = m.group(2)
            dropped = any(re.search(r"\bdrop\(" + re.escape(name) + r"\)", canon(s)) for s in stmts)
            site["held"] = name != "_" and not dropped
        else:
            site["question"] = ".enter_tx()?" in c
        if txn_idx:
            site["gateBeforeTxn"] = gate_idx[0] < txn_idx[0] and all(g < txn_idx[0] for g in gate_idx)
        sites.append(site)
    # every occurrence of the identifier must be the definition or one of the calls seen
    occ = sum(1 for t in flat(all_items) if t.kind == "id" and t.text == "enter_tx")
    if occ != total_calls + 1:
        raise Bad(f"{occ} occurrences of `enter_tx` but 1 definition + {total_calls} recognised calls")
    return sites, ungated


# ------------------------------------------------------------------------------------------------
# rendering
# ------------------------------------------------------------------------------------------------
BAD_WORD = re.compile(r"sorry|admit|axiom|native_decide|bv_decide|implemented_by|unsafe|maxHeartbeats")


# ------------------------------------------------------------------------------------------------
# the registry of environments: who creates / initialises / writes the per-environment gate state
# ------------------------------------------------------------------------------------------------
GATE_FIELDS = ("open_txs_count", "resizing", "resize_checking")
WRITE_METHODS = ("store", "fetch_add", "fetch_sub", "swap", "compare_exchange", "compare_exchange_weak",
                 "fetch_and", "fetch_or", "fetch_xor", "fetch_update", "get_mut")


def extract_registry(fns):
    """`ENV_MAP` bookkeeping: the functions that hold an `EnvState { .. }` literal, that `.insert(` into
    a map, that write one of the gate fields (atomic write methods or plain `=` / `+=` / `-=` after the
    field); and the two branches of `if !has_env { .. } else { .. }` in `Store::new`."""
    literals, inserts = [], []
    writers = {f: [] for f in GATE_FIELDS}
    for fn in fns:
        toks = flat(fn.body.items)
        texts = [t.text for t in toks]
        n = len(texts)
        for i, t in enumerate(texts):
            if t == "EnvState" and i + 1 < n and texts[i + 1] == "{" and fn.qual not in literals:
                literals.append(fn.qual)
            if t == "insert" and i > 0 and texts[i - 1] == "." and i + 1 < n and texts[i + 1] == "(":
                # only maps of environments: the receiver chain names env_map / ENV_MAP
                back = texts[max(0, i - 12):i]
                if any("env_map" in b.lower() for b in back) and fn.qual not in inserts:
                    inserts.append(fn.qual)
            if t in GATE_FIELDS and i > 0 and texts[i - 1] == ".":
                nxt = texts[i + 1] if i + 1 < n else ""
                nxt2 = texts[i + 2] if i + 2 < n else ""
                wrote = (nxt == "." and nxt2 in WRITE_METHODS) or nxt in ("=", "+=", "-=")
                if wrote and fn.qual not in writers[t]:
                    writers[t].append(fn.qual)
    # `Store::new`: the two branches
    new = [f for f in fns if f.qual == "Store::new"]
    has_env_contains = False
    under_not_has_env = False
    else_touches = ["unreadable"]
    then_has_literal = False
    if len(new) == 1:
        items = new[0].body.items
        lets = {}
        collect_lets(items, lets)
        if "has_env" in lets:
            c = lets["has_env"]
            has_env_contains = "contains_key(&full_path)" in c and "remove" not in c and "insert" not in c
        # find `if ! has_env {A} else {B}` at any depth
        found = []

        def walk(its):
            for i, t in enumerate(its):
                if is_id(t, "if") and is_p(at(its, i + 1), "!") and is_id(at(its, i + 2), "has_env") \
                        and is_grp(at(its, i + 3), "{"):
                    a = its[i + 3]
                    b = its[i + 5] if is_id(at(its, i + 4), "else") and is_grp(at(its, i + 5), "{") else None
                    found.append((a, b))
                if t.kind == "group":
                    walk(t.items)
        walk(items)
        if len(found) == 1:
            a, b = found[0]
            at_ = [x.text for x in flat(a.items)]
            then_has_literal = "EnvState" in at_
            under_not_has_env = then_has_literal and "insert" in at_
            if b is not None:
                bt = [x.text for x in flat(b.items)]
                names = ("open_txs_count", "resizing", "resize_checking", "stores_count", "insert", "remove",
                         "EnvState", "clear", "env")
                else_touches = [x for x in names if x in bt]
            else:
                else_touches = []
        # a literal / insert anywhere else in `new` (outside the `!has_env` branch) counts as unguarded
        if len(found) == 1:
            whole = [x.text for x in flat(items)]
            a_t = [x.text for x in flat(found[0][0].items)]
            if whole.count("EnvState") != a_t.count("EnvState"):
                under_not_has_env = False
    return {"literals": literals, "inserts": inserts, "writers": writers, "hasEnvContains": has_env_contains,
            "underNotHasEnv": under_not_has_env, "elseTouches": else_touches}


def lstr(s):
    s = re.sub(r"[^A-Za-z0-9_:.<>!=()& -]", "_", str(s))[:120]
    s = BAD_WORD.sub("x", s)
    return '"' + s + '"'


def llist(xs, f=lambda x: x):
    return "[" + ", ".join(f(x) for x in xs) + "]"


def lbool(b):
    return "true" if b else "false"


def lexit(e):
    return "{ kind := ." + e[0] + ", guard := " + llist(e[1], lambda a: "." + a) + " }"


def lwait(w, ind):
    p = " " * ind
    return ("{ loop := ." + w.loop + ",\n" + p + "  exits := " + llist(w.exits, lexit) + ",\n" + p +
            "  sleepMs := " + llist(w.sleep_ms, str) + ",\n" + p + "  otherWaits := " + str(w.other_waits) + ",\n" + p +
            "  timeRefs := " + llist(w.time_refs, lstr) + ",\n" + p + "  pre := " + str(w.pre) + ",\n" + p +
            "  post := " + llist(w.post, lambda a: "." + a) + ",\n" + p + "  unwraps := " + llist(w.unwraps, lstr) + ",\n" + p +
            "  lockReleasedBeforeSleep := " + lbool(w.lock_released) + " }")


def render(enter, resize, sites, ungated, err, registry=None):
    L = []
    L.append("import GrinVerif.Model.KvGate")
    L.append("/-! GENERATED by tools/gen_kvgate.py (plug-in of gen_tables.py) from /repo/store/src/lmdb.rs on every")
    L.append("check run. Do not edit.  Data only: the shape of the resize gate (`Store::enter_tx`, the waiter of")
    L.append("`Store::maybe_resize`, `Store::batch`, the functions that open an LMDB transaction).  The reading")
    L.append("rules and what they cannot see are in the header of tools/gen_kvgate.py; the obligations about")
    L.append("these values are in Props/C18.lean (section `gate shape`). -/")
    L.append("namespace GV.Gen.KvGate")
    L.append("open GV.KvGate")
    L.append("")
    L.append("/-- `some why` when the source could not be read at all (every obligation then fails) -/")
    L.append("def parseError : Option String := " + ("none" if err is None else "some " + lstr(err)))
    L.append("")
    L.append("/-- `fn enter_tx` of `impl " + re.sub(r"[^A-Za-z0-9_?]", "_", enter["impl"] or "?") + "` -/")
    L.append("def enterTx : EnterShape :=")
    L.append("  { params := " + str(enter["params"]) + ",")
    L.append("    ret := ." + enter["ret"] + ",")
    L.append("    wait := " + lwait(enter["wait"], 12) + ",")
    L.append("    passEffects := " + llist(enter["wait"].pass_effects, lambda a: "." + a) + " }")
    L.append("")
    L.append("/-- `fn maybe_resize` after the decision, the closure it spawns, and `fn batch` -/")
    L.append("def resize : ResizeShape :=")
    L.append("  { setResizingFirst := " + lbool(resize["setResizingFirst"]) + ",")
    L.append("    deferCond := ." + resize["deferCond"] + ",")
    L.append("    waiter := " + lwait(resize["waiter"], 14) + ",")
    L.append("    immediate := " + llist(resize["immediate"], lambda a: "." + a) + ",")
    L.append("    batchChecksFirst := " + lbool(resize["batchChecksFirst"]) + " }")
    L.append("")
    L.append("/-- the functions that call `enter_tx`, in source order -/")
    L.append("def sites : List Site := [")
    rows = []
    for s in sites:
        rows.append("  { name := " + lstr(s["name"]) + ", gateCalls := " + str(s["gateCalls"]) + ", unconditional := " +
                    lbool(s["unconditional"]) + ", question := " + lbool(s["question"]) + ", held := " + lbool(s["held"]) +
                    ",\n    txn := ." + s["txn"] + ", gateBeforeTxn := " + lbool(s["gateBeforeTxn"]) + " }")
    L.append(",\n".join(rows))
    L.append("]")
    L.append("")
    L.append("/-- functions that open an LMDB transaction of their own WITHOUT calling `enter_tx` -/")
    L.append("def ungatedTxnFns : List String := " + llist(ungated, lstr))
    L.append("")
    if registry is None:
        registry = {"literals": ["unreadable"], "inserts": ["unreadable"], "writers": {f: ["unreadable"] for f in GATE_FIELDS},
                    "hasEnvContains": False, "underNotHasEnv": False, "elseTouches": ["unreadable"]}
    L.append("/-- `ENV_MAP` bookkeeping: which functions create an `EnvState`, insert into the map of")
    L.append("environments, write the gate fields; the branches of `if !has_env` in `Store::new` -/")
    L.append("def registry : RegistryShape :=")
    L.append("  { stateLiterals := " + llist(registry["literals"], lstr) + ",")
    L.append("    inserts := " + llist(registry["inserts"], lstr) + ",")
    L.append("    hasEnvIsContainsKey := " + lbool(registry["hasEnvContains"]) + ",")
    L.append("    initUnderNotHasEnv := " + lbool(registry["underNotHasEnv"]) + ",")
    L.append("    elseTouches := " + llist(registry["elseTouches"], lstr) + ",")
    L.append("    countWriters := " + llist(registry["writers"]["open_txs_count"], lstr) + ",")
    L.append("    resizingWriters := " + llist(registry["writers"]["resizing"], lstr) + ",")
    L.append("    checkingWriters := " + llist(registry["writers"]["resize_checking"], lstr) + " }")
    L.append("")
    L.append("end GV.Gen.KvGate")
    return "\n".join(L) + "\n"


def failed(msg):
    w = Wait()
    w.loop = "other"
    w.exits = [("other", ["other"])]
    enter = {"impl": "?", "params": 0, "ret": "other", "wait": w}
    rw = Wait()
    rw.loop = "other"
    rw.exits = [("other", ["other"])]
    resize = {"setResizingFirst": False, "deferCond": "other", "waiter": rw, "immediate": ["other"], "batchChecksFirst": False}
    return render(enter, resize, [], [], msg or "unreadable")


def extract(path):
    if not os.path.exists(path):
        raise Bad("store/src/lmdb.rs is missing")
    src = strip_comments_strings(open(path, errors="replace").read())
    items = tokenize(src)
    fns = []
    find_fns(items, "", fns)
    enter = extract_enter(fns)
    resize = extract_resize(fns)
    sites, ungated = extract_sites(fns, items)
    try:
        registry = extract_registry(fns)
    except BaseException as ex:  # noqa: fail closed for this table only
        if isinstance(ex, (KeyboardInterrupt, SystemExit)):
            raise
        registry = None
    return render(enter, resize, sites, ungated, None, registry)


def generate(repo_root, die):
    """never raises, never calls `die`: an unreadable source yields a table whose obligations fail"""
    try:
        content = extract(os.path.join(repo_root, "store/src/lmdb.rs"))
    except BaseException as ex:  # noqa: fail closed, whatever happened
        if isinstance(ex, (KeyboardInterrupt, SystemExit)):
            content = failed("interrupted")
        else:
            content = failed(f"{type(ex).__name__}: {ex}")
    return {"KvGate.lean": content}


if __name__ == "__main__":
    sys.stdout.write(generate(sys.argv[1] if len(sys.argv) > 1 else os.environ.get("VERIF_REPO", "/repo"), None)["KvGate.lean"])
