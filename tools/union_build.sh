#!/bin/sh
# Builds every Props module named in checks/*.json and imports them all into one file: detects
# declarations with the same name in modules that no single check imports together.
cd "$(dirname "$0")/.."
mkdir -p work
python3 - <<'PY'
import json,glob
mods=set()
for f in glob.glob('checks/C*.json'):
    mods|=set(json.load(open(f)).get('props_modules',[]))
open('work/AllProps.lean','w').write(''.join(f'import {m}\n' for m in sorted(mods)))
PY
cd lean && lake build $(sed 's/import //' ../work/AllProps.lean | tr '\n' ' ') 2>&1 | tail -2 && lake env lean ../work/AllProps.lean && echo UNION-OK
