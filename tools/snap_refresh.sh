#!/bin/sh
# tools/snap_refresh.sh : bring the mutation-testing snapshot /root/vsnap to /verif's HEAD (commit first), keeping the
# translator-owned files at the snapshot's version while that agent is mid-edit (pass --all to take everything).
# Waits for running mutchecks (both lanes) so no check sees a half-updated snapshot.
ALL=$1
mkdir -p /tmp/gvmut /tmp/gvmut2
exec 8>/tmp/gvmut/lock 9>/tmp/gvmut2/lock
flock 8; flock 9
cd /root/vsnap || exit 1
OLD=$(git rev-parse HEAD)
git checkout -q -f --detach $(git -C /verif rev-parse HEAD) || exit 1
if [ "$ALL" != "--all" ]; then
  git checkout -q $OLD -- tools/rs2lean.py tools/gen_fns.py $(git ls-tree -r --name-only $OLD | grep -E 'Props/Xlate|Lemmas/Xlate|Gen/Fns')
fi
cp /verif/harness/Cargo.lock harness/ 2>/dev/null
git log --oneline | head -1
