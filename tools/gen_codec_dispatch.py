#!/usr/bin/env python3
"""Generator plug-in for tools/gen_tables.py: regenerates lean/GrinVerif/Gen/CodecDispatch.lean from
/repo/p2p/src/codec.rs, protocol.rs, peer.rs and handshake.rs on every check run - the DISPATCH tables
above the framing layer:

* `decodeArms` / `decodeRefused`: the arms of `decode_message` (codec.rs): `Type::X => Message::Y(msg.body()?)`
  and the types refused with `UnexpectedMessage`;
* `messageVariants`: the variants of `enum Message` (msg.rs) in source order;
* `consumeArms`: the arms of the `match message` of `Protocol::consume` (protocol.rs) in source order:
  the `Message` variant, the adapter methods the arm calls (source order) and the outcomes the arm can
  end in (source order): `Response:<Type>` (`+attachment` when `add_attachment` is called on it), `None`,
  `Disconnect`, `Attachment`, `Err:<variant>` (an early `return Err(Error::..)`);
* `senders`: every `pub fn send_*` of `Peer` (peer.rs): the `msg::Type` it hands to `Peer::send`, whether
  it consults the TrackingAdapter (`has_recv`), its side effects (`push_req`, `state_sync_requested`),
  and the sender it delegates to (`send_transaction` -> `send_tx_kernel_hash` under `TX_KERNEL_HASH`);
* the four handshake timeouts of handshake.rs and the order in which `accept` / `initiate` install them
  (before the first read / write on the socket).

A change of shape stops the generator (the check reports the table as unparsable); a change of content
changes the generated definitions and with them the theorems of Props/C19Dispatch.lean."""
import re, os


def _strip_comments(s):
    return re.sub(r"//[^\n]*", "", s)


def lean_str_list(xs):
    return "[" + ", ".join('"%s"' % x for x in xs) + "]"


# ---- a small statement walker for the arms of Protocol::consume -----------------------------------------
_LOG_MACROS = ("debug!", "trace!", "error!", "warn!", "info!")


def _match(text, i, open_c, close_c):
    """index just behind the bracket that closes the one at text[i]"""
    depth = 0
    j = i
    while j < len(text):
        c = text[j]
        if c == '"':
            j += 1
            while j < len(text) and text[j] != '"':
                j += 2 if text[j] == "\\" else 1
        elif c == open_c:
            depth += 1
        elif c == close_c:
            depth -= 1
            if depth == 0:
                return j + 1
        j += 1
    return -1


def _strip_log_macros(text):
    out, i = [], 0
    while i < len(text):
        hit = None
        for m in _LOG_MACROS:
            if text.startswith(m + "(", i) and (i == 0 or not (text[i - 1].isalnum() or text[i - 1] == "_")):
                hit = m
                break
        if hit:
            j = _match(text, i + len(hit), "(", ")")
            if j < 0:
                return None
            i = j
        else:
            out.append(text[i])
            i += 1
    return "".join(out)


def _split_items(block, die, where):
    """block text (without its outer braces) -> [('stmt', text) | ('if', cond, then_items, else_items or None)]"""
    items, i, n = [], 0, len(block)
    while i < n:
        while i < n and block[i] in " \t\n;":
            i += 1
        if i >= n:
            break
        if re.match(r"if\b", block[i:]):
            # condition: up to the `{` at bracket depth 0
            j, depth = i + 2, 0
            while j < n and not (block[j] == "{" and depth == 0):
                if block[j] in "([":
                    depth += 1
                elif block[j] in ")]":
                    depth -= 1
                j += 1
            if j >= n:
                die(f"gen_codec_dispatch: {where}: `if` without a block")
            cond = " ".join(block[i + 2:j].split())
            k = _match(block, j, "{", "}")
            then_items = _split_items(block[j + 1:k - 1], die, where)
            else_items = None
            m = re.match(r"\s*else\s*\{", block[k:])
            if m:
                e0 = k + m.end() - 1
                e1 = _match(block, e0, "{", "}")
                else_items = _split_items(block[e0 + 1:e1 - 1], die, where)
                k = e1
            elif re.match(r"\s*else\b", block[k:]):
                die(f"gen_codec_dispatch: {where}: `else if` is not understood")
            items.append(("if", cond, then_items, else_items))
            i = k
        else:
            j, depth = i, 0
            while j < n:
                c = block[j]
                if c == '"':
                    j += 1
                    while j < n and block[j] != '"':
                        j += 2 if block[j] == "\\" else 1
                elif c in "([{":
                    depth += 1
                elif c in ")]}":
                    depth -= 1
                elif c == ";" and depth == 0:
                    break
                j += 1
            st = block[i:j]
            if re.search(r"\b(match|while|for|loop)\b", st):
                die(f"gen_codec_dispatch: {where}: control flow other than `if` / `?` / `return` is not understood: {st[:60]!r}")
            items.append(("stmt", st))
            i = j + 1
    return items


_TRY_CLASS = {"new": "ser", "into_segment": "ser", "open": "io", "metadata": "io"}


def _events(text, die, where):
    """adapter calls (with `?` suffix when the result goes through `?`), other `?` points, outcomes - textual order
    = evaluation order inside one statement"""
    ev = []
    tok = re.compile(r"(?<![\w.])(?:self\s*\.\s*)?adapter\s*\.\s*(\w+)\(|Msg::new\(\s*Type::(\w+)|Consumed::Response\(\s*(resp\b)?"
                     r"|Consumed::(None|Disconnect)\b|Consumed::(Attachment)\(|return Err\(Error::(\w+)\)|(add_attachment)\(|\?")
    for t in tok.finditer(text):
        if t.group(1):
            close = _match(text, t.end() - 1, "(", ")")
            q = close >= 0 and text[close:close + 1] == "?"
            ev.append((t.start(), "call", t.group(1) + ("?" if q else "")))
        elif t.group(2):
            ev.append((t.start(), "new", t.group(2)))
        elif t.group(0).startswith("Consumed::Response("):
            ev.append((t.start(), "response", "resp" if t.group(3) else "inline"))
        elif t.group(4):
            ev.append((t.start(), "outcome", t.group(4)))
        elif t.group(5):
            ev.append((t.start(), "outcome", "Attachment"))
        elif t.group(6):
            ev.append((t.start(), "return", "Err:" + t.group(6)))
        elif t.group(7):
            ev.append((t.start(), "att", ""))
        else:
            # a `?`: behind which call?
            j = t.start() - 1
            if j >= 0 and text[j] == ")":
                depth, k = 0, j
                while k >= 0:
                    if text[k] == ")":
                        depth += 1
                    elif text[k] == "(":
                        depth -= 1
                        if depth == 0:
                            break
                    k -= 1
                m = re.search(r"(\w+)\s*$", text[:k])
                callee = m.group(1) if m else "?"
                if re.search(r"adapter\s*\.\s*" + re.escape(callee) + r"\s*$", text[:k]):
                    continue  # recorded with the call
                if callee not in _TRY_CLASS:
                    die(f"gen_codec_dispatch: {where}: `?` behind `{callee}(..)`: error class not known")
                ev.append((t.start(), "try", _TRY_CLASS[callee] + ":" + callee))
            else:
                die(f"gen_codec_dispatch: {where}: a `?` that does not follow a call")
    return [(k, v) for _, k, v in sorted(ev)]


def _paths(items, die, where):
    """-> list of (conds, calls, others, outcome or None, ended)"""
    paths = [([], [], [], None, False, {"new": None, "att": False})]

    def run_events(p, evs):
        conds, calls, others, outc, ended, st = p
        calls, others, st = list(calls), list(others), dict(st)
        for k, v in evs:
            if ended:
                break
            if k == "call":
                calls.append(v)
            elif k == "try":
                others.append(v)
            elif k == "new":
                st["new"] = v
                st["pending_inline"] = v if st.get("want_inline") else st.get("pending_inline")
                if st.get("want_inline"):
                    outc = "Response:" + v
                    st["want_inline"] = False
            elif k == "att":
                st["att"] = True
            elif k == "response":
                if v == "resp":
                    if st["new"] is None:
                        die(f"gen_codec_dispatch: {where}: Consumed::Response(resp) without a Msg::new on the path")
                    outc = "Response:" + st["new"] + ("+attachment" if st["att"] else "")
                else:
                    st["want_inline"] = True
            elif k == "outcome":
                outc = v
            elif k == "return":
                outc, ended = v, True
        return (conds, calls, others, outc, ended, st)

    for it in items:
        new_paths = []
        for p in paths:
            if p[4]:
                new_paths.append(p)
                continue
            if it[0] == "stmt":
                new_paths.append(run_events(p, _events(it[1], die, where)))
            else:
                _, cond, then_items, else_items = it
                p1 = run_events(p, _events(cond, die, where))
                for label, sub in ((cond, then_items), ("!(" + cond + ")", else_items)):
                    base = (p1[0] + [label], p1[1], p1[2], p1[3], p1[4], p1[5])
                    if sub is None:
                        new_paths.append(base)
                        continue
                    subs = [base]
                    for sit in sub:
                        nxt = []
                        for sp in subs:
                            if sp[4]:
                                nxt.append(sp)
                            elif sit[0] == "stmt":
                                nxt.append(run_events(sp, _events(sit[1], die, where)))
                            else:
                                # nested if: recurse through a one-item walk
                                for q in _paths_from(sp, [sit], die, where):
                                    nxt.append(q)
                        subs = nxt
                    new_paths.extend(subs)
        paths = new_paths
    return paths


def _paths_from(start, items, die, where):
    saved = start
    res = _paths(items, die, where)
    out = []
    for conds, calls, others, outc, ended, st in res:
        st2 = dict(saved[5]); st2.update({k: v for k, v in st.items() if v})
        out.append((saved[0] + conds, saved[1] + calls, saved[2] + others, outc if outc is not None else saved[3], ended, st2))
    return out


def _bool_paths(items, die, where):
    """paths of a function whose exits are `return true|false;` and a tail `true|false`: [(conds, value)]"""
    def walk(items, conds):
        # returns (finished paths, open cond-lists that fell through)
        done, open_ = [], [conds]
        for it in items:
            if not open_:
                break
            if it[0] == "stmt":
                m = re.fullmatch(r"\s*(?:return\s+)?(true|false)\s*", it[1])
                if m:
                    for c in open_:
                        done.append((c, m.group(1) == "true"))
                    open_ = []
                elif re.search(r"\breturn\b", it[1]):
                    die(f"gen_codec_dispatch: {where}: return of something other than a literal")
            else:
                _, cond, then_items, else_items = it
                nxt = []
                for c in open_:
                    d1, o1 = walk(then_items, c + [cond])
                    done += d1
                    nxt += o1
                    if else_items is None:
                        nxt.append(c + ["!(" + cond + ")"])
                    else:
                        d2, o2 = walk(else_items, c + ["!(" + cond + ")"])
                        done += d2
                        nxt += o2
                open_ = nxt
        return done, open_
    done, open_ = walk(items, [])
    if open_:
        die(f"gen_codec_dispatch: {where}: a path without a boolean result")
    return done


def generate(repo_root, die):
    def src(rel):
        p = os.path.join(repo_root, rel)
        if not os.path.exists(p):
            die(f"gen_codec_dispatch: missing {rel}")
        return open(p).read()

    codec = src("p2p/src/codec.rs")
    proto = src("p2p/src/protocol.rs")
    peer = src("p2p/src/peer.rs")
    msg = src("p2p/src/msg.rs")
    hs = src("p2p/src/handshake.rs")

    out = ["/-! GENERATED by tools/gen_codec_dispatch.py (plug-in of gen_tables.py) from /repo/p2p/src/codec.rs,",
           "protocol.rs, peer.rs, msg.rs, handshake.rs on every run. Do not edit. -/",
           "namespace GV.Gen.CodecDispatch", ""]

    # ---- decode_message ------------------------------------------------------------------------------
    m = re.search(r"fn decode_message\((.*?)\n\}", codec, flags=re.S)
    if not m:
        die("gen_codec_dispatch: decode_message not found")
    body = m.group(1)
    mm = re.search(r"let c = match header\.msg_type \{(.*?)\n\t\};\n\tOk\(c\)", body, flags=re.S)
    if not mm:
        die("gen_codec_dispatch: decode_message: `let c = match header.msg_type { .. }; Ok(c)` changed shape")
    arms_txt = mm.group(1)
    arms = re.findall(r"^\t\tType::(\w+) => Message::(\w+)\(msg\.body\(\)\?\),$", arms_txt, flags=re.M)
    refused = re.search(r"^\t\t((?:Type::\w+\s*\|\s*)*Type::\w+) => \{\s*return Err\(Error::UnexpectedMessage\)\s*\}$",
                        arms_txt, flags=re.M | re.S)
    if not refused:
        die("gen_codec_dispatch: decode_message: the arm refusing Error | Hand | Shake | Headers changed shape")
    refused_l = re.findall(r"Type::(\w+)", refused.group(1))
    n_arms = len(re.findall(r"^\t\t(?:Type::\w+\s*\|?\s*)+=>", arms_txt, flags=re.M))
    if n_arms != len(arms) + 1:
        die(f"gen_codec_dispatch: decode_message has {n_arms} arms, {len(arms)} + 1 understood")
    out.append("/-- `decode_message` (codec.rs): `Type::X => Message::Y(msg.body()?)` in source order -/")
    out.append("def decodeArms : List (String × String) :=\n  [" + ",\n   ".join(f'("{a}", "{b}")' for a, b in arms) + "]")
    out.append("/-- the types `decode_message` refuses with `Error::UnexpectedMessage` -/")
    out.append("def decodeRefused : List String := " + lean_str_list(refused_l))

    # ---- enum Message ----------------------------------------------------------------------------------
    m = re.search(r"pub enum Message \{(.*?)\n\}", msg, flags=re.S)
    if not m:
        die("gen_codec_dispatch: enum Message not found")
    variants = re.findall(r"^\t(\w+)\(", m.group(1), flags=re.M)
    out.append("/-- variants of `enum Message` (msg.rs) -/")
    out.append("def messageVariants : List String := " + lean_str_list(variants))
    out.append("")

    # ---- Protocol::consume -------------------------------------------------------------------------------
    m = re.search(r"let consumed = match message \{\n(.*?)\n\t\t\};\n\t\tOk\(consumed\)", proto, flags=re.S)
    if not m:
        die("gen_codec_dispatch: Protocol::consume: `let consumed = match message { .. }; Ok(consumed)` changed shape")
    body = m.group(1)
    starts = [(x.start(), x.group(1)) for x in re.finditer(r"^\t\t\tMessage::(\w+)\(", body, flags=re.M)]
    if not starts:
        die("gen_codec_dispatch: Protocol::consume: no arms found")
    carms = []
    for i, (pos, name) in enumerate(starts):
        end = starts[i + 1][0] if i + 1 < len(starts) else len(body)
        arm = _strip_comments(body[pos:end])
        calls = re.findall(r"(?<![\w.])(?:self\s*\.\s*)?adapter\s*\.\s*(\w+)\(", arm)
        outcomes = []
        tok = re.compile(r"Msg::new\(\s*Type::(\w+)|Consumed::Response\(\s*(resp\)|Msg::new\(\s*Type::(\w+))"
                         r"|Consumed::(None|Disconnect)\b|Consumed::(Attachment)\(|return Err\(Error::(\w+)\)")
        last_new = None
        for t in tok.finditer(arm):
            if t.group(1) and not arm[max(0, t.start() - 20):t.start()].rstrip().endswith("Consumed::Response("):
                last_new = t.group(1)
            elif t.group(2):
                if t.group(2).startswith("resp"):
                    if last_new is None:
                        die(f"gen_codec_dispatch: Protocol::consume arm {name}: Consumed::Response(resp) without a Msg::new before it")
                    outcomes.append("Response:" + last_new + ("+attachment" if "add_attachment(" in arm else ""))
                else:
                    outcomes.append("Response:" + t.group(3))
            elif t.group(4):
                outcomes.append(t.group(4))
            elif t.group(5):
                outcomes.append("Attachment")
            elif t.group(6):
                outcomes.append("Err:" + t.group(6))
        if not outcomes:
            die(f"gen_codec_dispatch: Protocol::consume arm {name}: no outcome understood")
        # every response is built with the negotiated version
        n_new = len(re.findall(r"Msg::new\(", arm))
        n_ver = len(re.findall(r"self\.peer_info\.version,?\s*\)\?", arm))
        if n_new != n_ver:
            die(f"gen_codec_dispatch: Protocol::consume arm {name}: {n_new} Msg::new, {n_ver} with self.peer_info.version")
        carms.append((name, calls, outcomes))
    n_all = len(re.findall(r"^\t\t\tMessage::\w+", body, flags=re.M))
    if n_all != len(carms):
        die(f"gen_codec_dispatch: Protocol::consume has {n_all} arms, {len(carms)} understood")
    # ---- the same arms walked STATEMENT by statement: every path through an arm ------------------------------
    types_rs = src("p2p/src/types.rs")
    cpaths = []
    for i, (pos, name) in enumerate(starts):
        end = starts[i + 1][0] if i + 1 < len(starts) else len(body)
        arm = _strip_comments(body[pos:end])
        m2 = re.match(r"\t\t\tMessage::\w+\([^)]*\) => ", arm)
        if not m2:
            die(f"gen_codec_dispatch: Protocol::consume arm {name}: head not understood")
        rest = arm[m2.end():].strip()
        if rest.startswith("{"):
            k = _match(rest, 0, "{", "}")
            inner = rest[1:k - 1]
        else:
            inner = rest.rstrip(",")
        inner = _strip_log_macros(inner)
        if inner is None:
            die(f"gen_codec_dispatch: Protocol::consume arm {name}: unbalanced log macro")
        items = _split_items(inner, die, f"Protocol::consume arm {name}")
        seen, plist = set(), []
        for conds, calls, others, outc, ended, st in _paths(items, die, f"Protocol::consume arm {name}"):
            if outc is None:
                die(f"gen_codec_dispatch: Protocol::consume arm {name}: a path without outcome")
            key = (tuple(calls), tuple(others), outc)
            if key in seen:
                continue
            seen.add(key)
            plist.append((conds, calls, others, outc))
        cpaths.append((name, plist))
    # consistency with the flat table: every call / outcome of a path is in the arm's flat lists
    for (name, calls, outcomes), (_, plist) in zip(carms, cpaths):
        for conds, pc, others, outc in plist:
            if any(c.rstrip("?") not in calls for c in pc) or outc not in outcomes:
                die(f"gen_codec_dispatch: Protocol::consume arm {name}: path {pc} -> {outc} disagrees with the flat table {calls} -> {outcomes}")
    # which adapter methods return Result<_, chain::Error> (types.rs, trait ChainAdapter)
    mt = re.search(r"pub trait ChainAdapter[^{]*\{(.*?)\n\}", types_rs, flags=re.S)
    if not mt:
        die("gen_codec_dispatch: trait ChainAdapter not found")
    trait = _strip_comments(mt.group(1))
    result_methods = re.findall(r"fn (\w+)\s*\([^;]*?\)\s*->\s*Result<[^;]*?chain::Error>\s*;", trait, flags=re.S)
    all_methods = re.findall(r"fn (\w+)\s*\(", trait)
    convs = re.findall(r"impl From<([\w:]+)> for Error \{\s*fn from\(e: [\w:]+\) -> Error \{\s*Error::(\w+)\(e\)", types_rs)
    if ("chain::Error", "Chain") not in convs or ("io::Error", "Connection") not in convs or ("ser::Error", "Serialization") not in convs:
        die(f"gen_codec_dispatch: the From<..> for Error conversions changed: {convs}")
    out.append("/-- `Protocol::consume` (protocol.rs): (`Message` variant, adapter methods called, possible outcomes), source order -/")
    out.append("def consumeArms : List (String × List String × List String) :=\n  [" +
               ",\n   ".join(f'("{n}", {lean_str_list(c)}, {lean_str_list(o)})' for n, c, o in carms) + "]")
    out.append("")

    out.append("/-- every PATH through an arm of `Protocol::consume`, statements in execution order: (arm, [(branch conditions,")
    out.append("adapter calls in execution order - a `?` suffix: the result goes through `?` -, other `?` points as class:callee, outcome)]) -/")
    def _lp(p):
        conds, calls, others, outc = p
        esc = lambda x: x.replace("\\", "\\\\").replace('"', '\\"')
        return f'({lean_str_list([esc(c) for c in conds])}, {lean_str_list(calls)}, {lean_str_list(others)}, "{outc}")'
    out.append("def consumePaths : List (String × List (List String × List String × List String × String)) :=\n  [" +
               ",\n   ".join(f'("{n}", [' + ",\n      ".join(_lp(p) for p in pl) + "])" for n, pl in cpaths) + "]")
    out.append("/-- the `ChainAdapter` methods that return `Result<_, chain::Error>` (types.rs) -/")
    out.append("def adapterResultMethods : List String := " + lean_str_list(result_methods))
    out.append("def adapterMethods : List String := " + lean_str_list(all_methods))
    out.append("/-- `impl From<X> for Error` (types.rs): what a `?` turns an error of type X into -/")
    out.append("def errorConversions : List (String × String) := [" + ", ".join(f'("{a}", "{b}")' for a, b in convs) + "]")
    out.append("")

    # ---- Peer::send_* ------------------------------------------------------------------------------------
    m = re.search(r"\nimpl Peer \{(.*?)\n\}\n", peer, flags=re.S)
    if not m:
        die("gen_codec_dispatch: impl Peer not found")
    ipeer = m.group(1)
    senders = []
    for f in re.finditer(r"^\tpub fn (send_\w+)\((.*?)\n\t\}$", ipeer, flags=re.M | re.S):
        name, fb = f.group(1), _strip_comments(f.group(2))
        types = re.findall(r"self\s*\.send\(.*?msg::Type::(\w+),?\s*\)", fb, flags=re.S)
        guarded = "self.tracking_adapter.has_recv(" in fb
        effects = []
        if "self.tracking_adapter.push_req(" in fb:
            effects.append("push_req")
        if re.search(r"self\.state_sync_requested\.store\(true,", fb):
            effects.append("state_sync_requested")
        deleg = re.findall(r"return self\.(send_\w+)\(", fb)
        for d in deleg:
            effects.append("delegate:" + d)
        if len(types) != 1:
            die(f"gen_codec_dispatch: Peer::{name}: {len(types)} calls of self.send with a literal msg::Type (1 expected)")
        ret_bool = re.search(r"-> Result<bool, Error>", fb) is not None
        if ret_bool != (guarded or bool(deleg)):
            die(f"gen_codec_dispatch: Peer::{name}: returns Result<bool> = {ret_bool} but consults has_recv = {guarded}")
        senders.append((name, types[0], guarded, effects))
    n_send_fns = len(re.findall(r"^\tpub fn send_\w+\(", ipeer, flags=re.M))
    if n_send_fns != len(senders) or not senders:
        die(f"gen_codec_dispatch: impl Peer has {n_send_fns} send_* functions, {len(senders)} understood")
    n_send_calls = len(re.findall(r"self\s*\.send\(", _strip_comments(ipeer)))
    if n_send_calls != len(senders):
        die(f"gen_codec_dispatch: impl Peer calls self.send {n_send_calls} times, {len(senders)} senders understood")
    if not re.search(r"if self\s*\.info\s*\.capabilities\s*\.contains\(Capabilities::TX_KERNEL_HASH\)\s*\{\s*"
                     r"return self\.send_tx_kernel_hash\(kernel\.hash\(\)\);\s*\}", _strip_comments(ipeer)):
        die("gen_codec_dispatch: Peer::send_transaction: the TX_KERNEL_HASH delegation changed shape")
    out.append("/-- `Peer::send_*` (peer.rs): (function, `msg::Type` handed to `Peer::send`, consults `has_recv`, side effects) -/")
    out.append("def senders : List (String × String × Bool × List String) :=\n  [" +
               ",\n   ".join(f'("{n}", "{t}", {"true" if g else "false"}, {lean_str_list(e)})' for n, t, g, e in senders) + "]")
    out.append("")

    # ---- small decision functions: Peer::is_denied, resolve_peer_addr, negotiate_protocol_version -------------
    m = re.search(r"pub fn is_denied\(config: &P2PConfig, peer_addr: PeerAddr\) -> bool \{\n(.*?)\n\t\}\n", peer, flags=re.S)
    if not m:
        die("gen_codec_dispatch: Peer::is_denied not found")
    idb = _strip_log_macros(_strip_comments(m.group(1)))
    ipaths = _bool_paths(_split_items(idb, die, "Peer::is_denied"), die, "Peer::is_denied")
    out.append("/-- `Peer::is_denied` (peer.rs): every path, (branch conditions in order, result) -/")
    out.append("def isDeniedPaths : List (List String × Bool) :=\n  [" +
               ",\n   ".join(f'({lean_str_list(c)}, {"true" if v else "false"})' for c, v in ipaths) + "]")
    m = re.search(r"fn resolve_peer_addr\(advertised: PeerAddr, conn: &TcpStream\) -> PeerAddr \{\s*let port = ([^;]+);\s*"
                  r"if let Ok\(addr\) = conn\.peer_addr\(\) \{\s*PeerAddr\(SocketAddr::new\(([^,]+), ([^)]+)\)\)\s*\} else \{\s*(\w+)\s*\}\s*\}", hs)
    if not m:
        die("gen_codec_dispatch: resolve_peer_addr changed shape")
    out.append("/-- `resolve_peer_addr` (handshake.rs): where the ip and the port come from when the socket knows its peer, and the fall-back -/")
    out.append(f'def resolveParts : List (String × String) := [("port", "{m.group(1).strip()}"), ("ok.ip", "{m.group(2).strip()}"), ("ok.port", "{m.group(3).strip()}"), ("err", "{m.group(4)}")]')
    m = re.search(r"fn negotiate_protocol_version\(&self, other: ProtocolVersion\) -> Result<ProtocolVersion, Error> \{\s*"
                  r"let version = ([^;]+);\s*Ok\(version\)\s*\}", hs)
    if not m:
        die("gen_codec_dispatch: negotiate_protocol_version changed shape")
    out.append("/-- `negotiate_protocol_version` (handshake.rs): the expression -/")
    out.append(f'def negotiateExpr : String := "{m.group(1).strip()}"')
    nu = re.findall(r"self\.negotiate_protocol_version\((\w+)\.version\)\?", hs)
    out.append("/-- whose announced version it is applied to, in source order (accept: the Hand, initiate: the Shake) -/")
    out.append("def negotiateArgs : List String := " + lean_str_list(nu))
    out.append("")

    # ---- handshake timeouts ------------------------------------------------------------------------------
    for name in ("HAND_READ_TIMEOUT", "SHAKE_READ_TIMEOUT", "HAND_WRITE_TIMEOUT", "SHAKE_WRITE_TIMEOUT"):
        m = re.search(r"^const " + name + r": Duration = Duration::from_millis\(([\d_]+)\);", hs, flags=re.M)
        if not m:
            die(f"gen_codec_dispatch: {name} not found in handshake.rs")
        out.append(f"def {name}_MS : Nat := {int(m.group(1).replace('_', ''))}")
    m = re.search(r"pub fn accept\((.*?)\n\t\}", hs, flags=re.S)
    if not m:
        die("gen_codec_dispatch: Handshake::accept not found")
    acc = _strip_comments(m.group(1))
    ma = re.search(r"\{\s*let _ = conn\.set_read_timeout\(Some\(HAND_READ_TIMEOUT\)\);\s*"
                   r"let _ = conn\.set_write_timeout\(Some\(SHAKE_WRITE_TIMEOUT\)\);\s*"
                   r"let hand: Hand = read_message\(conn, self\.protocol_version, Type::Hand\)\?;", acc)
    if not ma:
        die("gen_codec_dispatch: Handshake::accept no longer installs HAND_READ_TIMEOUT / SHAKE_WRITE_TIMEOUT before read_message")
    m = re.search(r"pub fn initiate\((.*?)\n\t\}", hs, flags=re.S)
    if not m:
        die("gen_codec_dispatch: Handshake::initiate not found")
    ini = _strip_comments(m.group(1))
    mi = re.search(r"\{\s*let _ = conn\.set_write_timeout\(Some\(HAND_WRITE_TIMEOUT\)\);\s*"
                   r"let _ = conn\.set_read_timeout\(Some\(SHAKE_READ_TIMEOUT\)\);", ini)
    if not mi or ini.find("write_message(conn") < mi.end():
        die("gen_codec_dispatch: Handshake::initiate no longer installs HAND_WRITE_TIMEOUT / SHAKE_READ_TIMEOUT first")
    if len(re.findall(r"set_read_timeout\(", hs)) != 2 or len(re.findall(r"set_write_timeout\(", hs)) != 2:
        die("gen_codec_dispatch: handshake.rs sets socket timeouts in more / fewer places than accept and initiate")
    out.append("/-- which constant `accept` / `initiate` install as READ timeout before their `read_message` -/")
    out.append('def acceptReadTimeout : String := "HAND_READ_TIMEOUT"')
    out.append('def initiateReadTimeout : String := "SHAKE_READ_TIMEOUT"')
    # read_message: read_exact of the 11 header bytes, then read_exact of the announced body
    if not re.search(r"let mut head = vec!\[0u8; MsgHeader::LEN\];\s*stream\.read_exact\(&mut head\)\?;", msg) or \
       not re.search(r"let mut body = vec!\[0u8; h\.msg_len as usize\];\s*stream\.read_exact\(&mut body\)\?;", msg):
        die("gen_codec_dispatch: read_header / read_body (one read_exact each) changed shape")
    out.append("")
    out.append("end GV.Gen.CodecDispatch")
    return {"CodecDispatch.lean": "\n".join(out) + "\n"}


if __name__ == "__main__":
    import sys

    def _die(s):
        print("DIE", s)
        sys.exit(1)
    print(generate("/repo", _die)["CodecDispatch.lean"])
