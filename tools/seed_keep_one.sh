#!/bin/sh
# tools/seed_keep_one.sh <Cxx> <round> <variant A|B> <id> "<detection text>" : files one processed variant
# (after strengthening) under seeded/<id>/; requires the CONFIRM line to be good and the last mutcheck to have violations.
P=$1; R=$2; V=$3; ID=$4; TXT=$5
D=/tmp/seed/${P}r${R}
m=$(grep "^$P-$V: mutcheck" $D/summary.txt | tail -1); c=$(grep "^$P-$V: CONFIRM" $D/summary.txt | tail -1)
viol=$(echo "$m" | sed -n 's/.*violations=\([0-9]*\).*/\1/p'); nf=$(echo "$m" | sed -n 's/.*nofailinginput=\([0-9]*\).*/\1/p')
okc=$(echo "$c" | grep -c 'demo_clean_exit=0 demo_patched_exit=[1-9][0-9]* suites_with_patch_exit=0')
if [ "$okc" = 1 ] && [ "${viol:-0}" -gt 0 ] && [ "${nf:-0}" = 0 ]; then
  python3 /verif/tools/keep_seed.py $D/out/$V $ID "$c" "$P" "$TXT; then detected ($viol violations)"
else
  echo "NOT KEPT $P-$V: $m | $c"
fi
