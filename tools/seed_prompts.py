#!/usr/bin/env python3
"""seed_prompts.py <round> [Cxx ...]  -> /tmp/r<round>prompts/Cxx.txt

Prompt for one independent "bug seeder" per property: the property text, the summaries of the
changes already kept under seeded/Cxx-*/ (a new round must use other functions and mechanisms) and
the delivery format (patch.diff, demo.rs, demo_cmd.txt, meta.json under /tmp/seed/Cxxr<round>/out/{A,B}).
Nothing else from /verif goes into the prompt. See tools/seed_round.md."""
import json, os, glob, sys

VERIF = os.path.dirname(os.path.dirname(os.path.abspath(__file__)))
CFG = {
    'C01': (['grin_core', 'grin_chain', 'grin_pool'], 'core/tests/block.rs, chain/tests/mine_simple_chain.rs', 'core/tests', 'grin_core'),
    'C02': (['grin_chain', 'grin_pool'], 'chain/tests/mine_simple_chain.rs', 'chain/tests', 'grin_chain'),
    'C03': (['grin_chain'], 'chain/tests/mine_simple_chain.rs', 'chain/tests', 'grin_chain'),
    'C04': (['grin_core', 'grin_chain'], 'core/tests/consensus_automated.rs, chain/tests/mine_simple_chain.rs', 'core/tests', 'grin_core'),
    'C05': (['grin_core'], 'core/tests and the unit tests in core/src/pow', 'core/tests', 'grin_core'),
    'C06': (['grin_chain', 'grin_pool'], 'chain/tests/mine_simple_chain.rs', 'chain/tests', 'grin_chain'),
    'C07': (['grin_core', 'grin_store', 'grin_chain'], 'core/tests/pmmr.rs, core/tests/merkle_proof.rs', 'core/tests', 'grin_core'),
    'C08': (['grin_store', 'grin_chain'], 'store/tests/pmmr.rs', 'store/tests', 'grin_store'),
    'C09': (['grin_store', 'grin_chain'], 'chain/tests/mine_simple_chain.rs, store/tests/pmmr.rs (a demonstration may simulate a crash by copying the chain directory at a chosen moment, or by dropping a handle without finishing, then reopening)', 'chain/tests', 'grin_chain'),
    'C10': (['grin_core', 'grin_chain', 'grin_p2p'], 'core/tests/transaction.rs, core/tests/block.rs, p2p/tests/ser_deser.rs', 'core/tests', 'grin_core'),
    'C11': (['grin_core', 'grin_util', 'grin_p2p', 'grin_chain'], 'core/tests/merkle_proof.rs, p2p/tests/ser_deser.rs', 'core/tests', 'grin_core'),
    'C12': (['grin_core', 'grin_pool', 'grin_chain'], 'core/tests/transaction.rs, core/tests/block.rs', 'core/tests', 'grin_core'),
    'C13': (['grin_core', 'grin_chain', 'grin_pool'], 'chain/tests/mine_simple_chain.rs, chain/tests/nrd_validation_rules.rs', 'chain/tests', 'grin_chain'),
    'C14': (['grin_pool', 'grin_chain'], 'pool/tests/transaction_pool.rs, pool/tests/block_building.rs (pool/tests/common.rs helpers)', 'pool/tests', 'grin_pool'),
    'C15': (['grin_chain', 'grin_core'], 'chain/tests/bitmap_accumulator.rs, chain/tests/bitmap_segment.rs', 'chain/tests', 'grin_chain'),
    'C16': (['grin_core', 'grin_store', 'grin_chain'], 'core/tests/segment.rs, store/tests/segment.rs, chain/tests/bitmap_segment.rs', 'core/tests', 'grin_core'),
    'C17': (['grin_chain', 'grin_store'], 'chain/tests/mine_simple_chain.rs (threads via std::thread; the demonstration must be deterministic or fail with overwhelming probability within a minute and never fail without the change)', 'chain/tests', 'grin_chain'),
    'C18': (['grin_store', 'grin_chain'], 'store/tests/lmdb.rs', 'store/tests', 'grin_store'),
    'C19': (['grin_p2p'], 'p2p/tests/ser_deser.rs, p2p/tests/peer_handshake.rs and the unit tests in p2p/src/codec.rs', 'p2p/tests', 'grin_p2p'),
    'C20': (['grin_keychain', 'grin_core', 'grin_util'], 'keychain unit tests, core/tests/transaction.rs, core/src/libtx tests', 'core/tests', 'grin_core'),
}


def main():
    rnd = sys.argv[1]
    which = sys.argv[2:] or sorted(CFG)
    props = {json.loads(l)['id']: json.loads(l) for l in open(os.path.join(VERIF, 'properties.jsonl'))}
    outdir = f'/tmp/r{rnd}prompts'
    os.makedirs(outdir, exist_ok=True)
    for pid in which:
        crates, models, dest, pkg = CFG[pid]
        p = props[pid]
        prev = []
        for mp in sorted(glob.glob(os.path.join(VERIF, f'seeded/{pid}-*/meta.json'))):
            v = os.path.basename(os.path.dirname(mp)).split('-')[1]
            prev.append(f"({v}) " + json.load(open(mp))['summary'][:700])
        low = pid.lower()
        tag = f'{pid}r{rnd}'
        suites = ', '.join(f'-p {c} --offline' for c in crates)
        earlier = ('Earlier rounds already produced these changes (do NOT repeat them or close variants of them; use DIFFERENT '
                   'functions and DIFFERENT mechanisms): ' + ' '.join(prev) + '\n\n') if prev else ''
        t = f'''You are a software engineer asked to play "bug seeder" (round {rnd}) for a robustness study of the Rust cryptocurrency node mimblewimble/grin. You work ONLY inside your own scratch git worktree of the repository at /tmp/seed/{tag}/repo (build with `cargo … --offline`, no network; set `CARGO_TARGET_DIR=/tmp/seed/{tag}/target`). Do NOT read or touch /verif or /repo or any other directory under /tmp/seed; do not look for any verification tooling — your work must be independent of it.

The property under study: "{pid} — {p['title']}. {p['statement']}" Quantified over: {p['quantifier']['text']} Relevant code: {', '.join(p['anchors']['files'])}.

{earlier}YOUR TASK: produce TWO further, different, realistic code changes (call them A and B, with different mechanisms, in different functions — look at parts of the relevant code the earlier rounds did not touch (helper functions, rarely taken branches, configuration and boundary handling, glue between the modules named in "Relevant code"), at clauses of the property statement not yet attacked, and at rarer corners of the quantifier) that each BREAK this property while (1) the project still compiles, and (2) the existing test suites still pass (cargo test {suites}; run them and report — the change must not be caught by the existing tests). Each change must look like a plausible regression a maintainer could introduce (off-by-one at a boundary, dropped or weakened check, wrong branch, stale index/cache, an "optimisation" that skips work, two sites that each look fine alone) and must NOT be something ordinary use would expose at once: it should need something specific to manifest — a particular multi-step history, an unusual input or size, a particular order of operations, or two cooperating sites. Prefer subtle over blunt: the harder it is to trigger, the more useful it is for the study, as long as you can demonstrate it deterministically.

For each change deliver, under /tmp/seed/{tag}/out/A/ and /tmp/seed/{tag}/out/B/: `patch.diff` (`git diff` against the worktree's HEAD, source files only, applies cleanly with `git apply`); a demonstration `demo.rs` — a Rust test (modelled on {models}; destination e.g. `{dest}/seeded_{low}r{rnd}_a.rs`; it may live in whichever crate's tests directory fits) that FAILS with the change applied and PASSES without it — with the exact commands in `demo_cmd.txt`, verified by you in both directions; and `meta.json`: {{"property":"{pid}","variant":"A","summary":"what was changed","mechanism":"why it breaks the property","needs":"what specific history/input is needed for it to manifest","existing_tests":"which suites you ran with the change applied and that they passed","demo":"how to run the demonstration and what it shows","demo_dest":"relative path the demo file must be copied to","demo_pkg":"{pkg} (the cargo package the demo belongs to)","demo_test":"test target name"}}. Leave the worktree clean at the end (no applied change). Final message: a short report of both variants (files, what they need to manifest, test results).'''
        open(os.path.join(outdir, f'{pid}.txt'), 'w').write(t)
    print(f'{len(which)} prompts in {outdir}')


if __name__ == '__main__':
    main()
