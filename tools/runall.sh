#!/bin/sh
# Run every enabled check (quick tier unless VERIF_TIER is set) and print one summary line each.
cd "$(dirname "$0")/.."
for c in $(cat checks/enabled.txt); do
  out=$(./check $c 2>&1)
  rc=$?
  echo "rc=$rc $(echo "$out" | grep "^$c tier" | cut -c1-200)"
  echo "$out" | grep "^VIOLATION" | head -3
done
