#!/usr/bin/env python3
"""Lock-table translator for property C17 (plug-in of gen_tables.py).

Reads /repo/chain/src/chain.rs (and, for the wrappers that open an LMDB write transaction
internally, /repo/chain/src/txhashset/txhashset.rs; for the state-serving side
/repo/chain/src/txhashset/segmenter.rs; for the state-receiving side
/repo/chain/src/txhashset/desegmenter.rs, whose pub fns are emitted inside the caller's
`pibd_desegmenter.write()` guard) and produces, for every `pub fn` of `impl Chain`
taking `self`, the brace-scoped sequence of lock acquisitions / releases, with the private
functions they call on `self` (and free functions of the same file) inlined by call-graph
closure.  Output: lean/GrinVerif/Gen/Locks.lean, `GV.Gen.lockTable`.

HONEST STATEMENT OF THE APPROXIMATION.  This is a *text-level* reading of Rust: a tokenizer
(comments / strings removed), a brace/paren tree, and the following lifetime rules
  * `let [mut] g = <lock call>[?];`  -> the guard lives to the end of the enclosing `{}` block;
  * any other occurrence of a lock call is a temporary and lives to the end of the enclosing
    *statement* (for `if let` / `match` / `for` / `while` that includes the bodies, which is
    what Rust (edition <= 2021) does for scrutinee temporaries and an over-approximation for
    plain `if` / `while` conditions);
  * `<x>.batch.commit()` / `batch.commit()` consumes (`commit(self)`) the innermost live batch
    guard of the function: release at that point, accepted only when every block between the
    binding and the commit is an unconditional block (else the generator dies);
  * `txhashset::{extending_readonly, utxo_view, rewindable_kernel_view,
    header_extending_readonly}` (the set is recomputed: module-level fns of txhashset.rs whose
    body calls `.batch()`) hold a batch for the duration of the call, closure body included;
  * closure bodies are read as executed where they are written (true for every closure handed
    to the txhashset:: wrappers and iterator adaptors); a closure that is *stored* (`let f =
    |..|`, `Box::new(move |..|)`) must not acquire anything, else the generator dies;
  * `self.store.<method>(…)` other than `batch()` / `clone()` is recorded as `!dbread` (a lock-free
    LMDB read through a read transaction of its own); used for the view classification
    (`GV.Conc.views`): how many separate snapshots of the chain state an op combines;
  * branches and loop bodies are emitted once, one after the other.  Because guards are
    lexically scoped, the set of guards held at an acquisition site is the same in the
    emitted sequence as in any real execution reaching that site (early `return`/`?` only
    release); the emitted sequence is therefore not a real trace but has, at every
    acquisition, the real held set (or a superset).
Nothing here is a Rust type checker: a guard smuggled out of its scope through a struct
field, `mem::forget`, a lock taken through a clone of the `Arc` obtained by
`Chain::txhashset()` / `header_pmmr()` outside chain.rs (Segmenter / Desegmenter / api
handlers / pool adapter) is not seen.  Every `.read()` / `.write()` / `.batch()` /
`.lock()` … with an empty argument list that is not one of the recognised shapes makes the
generator die (so a new locking construct breaks the tie loudly instead of being missed).
"""
import re, os, sys

LOCK_METHODS = ("read", "write", "batch", "lock", "try_read", "try_write", "try_lock",
                "read_recursive", "upgradable_read", "try_read_for", "try_write_for")

# (struct, field) -> Lean lock constructor.  The alphabet is fixed; a field of lock type
# that is not listed here makes the generator die.
LOCK_FIELDS = {
    ("Chain", "header_pmmr"): "hp",
    ("Chain", "txhashset"): "ts",
    ("Chain", "pibd_segmenter"): "segm",
    ("Chain", "pibd_desegmenter"): "deseg",
    ("Chain", "denylist"): "deny",
    ("OrphanBlockPool", "orphans"): "orph",
    ("OrphanBlockPool", "height_idx"): "hidx",
    ("Segmenter", "txhashset"): "ts",
    ("Desegmenter", "txhashset"): "ts",
    ("Desegmenter", "header_pmmr"): "hp",
}
SUBOBJECTS = {("Chain", "orphans"): "OrphanBlockPool"}
STORE_FIELDS = {("Chain", "store"), ("Desegmenter", "store")}
CALLBACK_FIELDS = {("Chain", "adapter")}


class Tok:
    __slots__ = ("kind", "text", "line", "items")

    def __init__(self, kind, text, line, items=None):
        self.kind, self.text, self.line, self.items = kind, text, line, items

    def __repr__(self):
        return f"{self.text}@{self.line}" if self.kind != "group" else f"{self.text}…@{self.line}"


def strip_comments_strings(src):
    out, i, n = [], 0, len(src)
    while i < n:
        c = src[i]
        if src.startswith("//", i):
            j = src.find("\n", i)
            j = n if j < 0 else j
            i = j
        elif src.startswith("/*", i):
            depth, j = 1, i + 2
            while j < n and depth:
                if src.startswith("/*", j): depth += 1; j += 2
                elif src.startswith("*/", j): depth -= 1; j += 2
                else:
                    if src[j] == "\n": out.append("\n")
                    j += 1
            i = j
        elif c == '"':
            j = i + 1
            while j < n and src[j] != '"':
                if src[j] == "\\": j += 1
                if j < n and src[j] == "\n": out.append("\n")
                j += 1
            out.append('""'); i = j + 1
        elif c == "r" and re.match(r'r#*"', src[i:]) and (i == 0 or not (src[i - 1].isalnum() or src[i - 1] == "_")):
            m = re.match(r'r(#*)"', src[i:])
            end = '"' + m.group(1)
            j = src.find(end, i + len(m.group(0)))
            out.append('""' + "\n" * src[i:j].count("\n")); i = j + len(end)
        elif c == "'":
            m = re.match(r"'(\\.[^']*|[^\\'])'", src[i:])
            if m: out.append("' '"); i += len(m.group(0))
            else: out.append(c); i += 1
        else:
            out.append(c); i += 1
    return "".join(out)


TOKEN_RE = re.compile(r"\s+|[A-Za-z_][A-Za-z0-9_]*|\d[\dA-Za-z_\.]*|::|=>|->|==|!=|<=|>=|&&|\|\||\.\.=|\.\.|.", re.S)


def tokenize(src, die, fname):
    toks, line = [], 1
    for m in TOKEN_RE.finditer(src):
        t = m.group(0)
        if t.isspace():
            line += t.count("\n"); continue
        kind = "id" if re.match(r"[A-Za-z_]", t) else ("num" if t[0].isdigit() else "p")
        toks.append(Tok(kind, t, line))
    # tree
    close = {"(": ")", "[": "]", "{": "}"}
    root = Tok("group", "", 1, [])
    stack = [root]
    for t in toks:
        if t.kind == "p" and t.text in close:
            g = Tok("group", t.text, t.line, [])
            stack[-1].items.append(g); stack.append(g)
        elif t.kind == "p" and t.text in close.values():
            if len(stack) < 2 or close[stack[-1].text] != t.text:
                die(f"gen_locks: unbalanced '{t.text}' at {fname}:{t.line}")
            stack.pop()
        else:
            stack[-1].items.append(t)
    if len(stack) != 1:
        die(f"gen_locks: unclosed '{stack[-1].text}' opened at {fname}:{stack[-1].line}")
    return root.items


def is_id(t, text=None):
    return t is not None and t.kind == "id" and (text is None or t.text == text)


def is_p(t, text):
    return t is not None and t.kind == "p" and t.text == text


def is_grp(t, ch=None):
    return t is not None and t.kind == "group" and (ch is None or t.text == ch)


def at(items, i):
    return items[i] if 0 <= i < len(items) else None


class FnDef:
    def __init__(self, impl, name, pub, has_self, body, line, params=()):
        self.impl, self.name, self.pub, self.has_self, self.body, self.line = impl, name, pub, has_self, body, line
        self.params = set(params)   # names of the parameters (`name :` inside the parameter list)


def find_fns(items, impl, out):
    i = 0
    while i < len(items):
        t = items[i]
        if is_id(t, "fn") and is_id(at(items, i + 1)):
            name = items[i + 1].text
            j = i + 2
            while j < len(items) and not is_grp(items[j], "("): j += 1
            params = at(items, j)
            k = j + 1
            body = None
            while k < len(items):
                if is_p(items[k], ";"): break
                if is_grp(items[k], "{"): body = items[k]; break
                k += 1
            pub = is_id(at(items, i - 1), "pub") or (is_grp(at(items, i - 1), "(") and is_id(at(items, i - 2), "pub"))
            has_self = params is not None and any(is_id(x, "self") for x in params.items)
            if body is not None:
                pnames = []
                if params is not None:
                    for q in range(len(params.items) - 1):
                        if is_id(params.items[q]) and is_p(params.items[q + 1], ":") and not is_p(at(params.items, q + 2), ":"):
                            pnames.append(params.items[q].text)
                out[(impl, name)] = FnDef(impl, name, pub, has_self, body, t.line, pnames)
            i = k + 1
            continue
        i += 1


def parse_file(items):
    """-> (fns {(impl|None, name): FnDef}, structs {name: {field: type-text}})"""
    fns, structs = {}, {}
    i = 0
    while i < len(items):
        t = items[i]
        if is_id(t, "impl"):
            j = i + 1
            hdr = []
            while j < len(items) and not is_grp(items[j], "{"):
                hdr.append(items[j]); j += 1
            ids = [x.text for x in hdr if x.kind == "id"]
            name = None
            if "for" in ids:
                name = ids[ids.index("for") + 1] if ids.index("for") + 1 < len(ids) else None
            else:
                # skip a leading generics list `<...>`
                depth, cand = 0, None
                for x in hdr:
                    if is_p(x, "<"): depth += 1
                    elif is_p(x, ">"): depth -= 1
                    elif x.kind == "id" and depth == 0 and cand is None: cand = x.text
                name = cand
            if j < len(items):
                find_fns(items[j].items, name, fns)
            i = j + 1
            continue
        if is_id(t, "struct") and is_id(at(items, i + 1)):
            name = items[i + 1].text
            j = i + 2
            while j < len(items) and not is_grp(items[j], "{") and not is_p(items[j], ";"): j += 1
            if j < len(items) and is_grp(items[j], "{"):
                fields, cur, depth = {}, [], 0
                for x in items[j].items + [Tok("p", ",", 0)]:
                    if is_p(x, "<"): depth += 1
                    if is_p(x, ">"): depth -= 1
                    if is_p(x, ",") and depth == 0:
                        txt = [y for y in cur if not is_grp(y, "[")]  # attributes / arrays
                        for q in range(len(txt) - 1):
                            if is_id(txt[q]) and is_p(txt[q + 1], ":") and txt[q].text != "pub":
                                fields[txt[q].text] = " ".join(flat(txt[q + 2:]))
                                break
                        cur = []
                    else:
                        cur.append(x)
                structs[name] = fields
            i = j + 1
            continue
        i += 1
    find_fns(items, None, fns)  # free functions (top level only: find_fns does not descend)
    return fns, structs


def flat(items):
    out = []
    for x in items:
        if x.kind == "group":
            out.append(x.text); out += flat(x.items); out.append({"(": ")", "[": "]", "{": "}"}[x.text])
        else:
            out.append(x.text)
    return out


class Guard:
    def __init__(self, lock, var, line):
        self.lock, self.var, self.line, self.live = lock, var, line, True


class Scope:
    def __init__(self, plain):
        self.plain, self.guards = plain, []


class Translator:
    def __init__(self, fname, items, die, batch_wrappers, wrapper_mod):
        self.fname, self.die_, self.batch_wrappers, self.wrapper_mod = fname, die, batch_wrappers, wrapper_mod
        self.fns, self.structs = parse_file(items)
        self.memo, self.active = {}, []
        self.sites = {}        # fn key -> list of "L<line> lock.mode"
        self.recognised = {"guard": 0, "temp": 0, "commit": 0, "wrapper": 0, "inline": 0, "callback": 0}
        # configuration (overridden by the node-level translator of gen_locks_node.py)
        self.lock_fields, self.subobjects = LOCK_FIELDS, SUBOBJECTS
        self.store_fields, self.callback_fields = STORE_FIELDS, CALLBACK_FIELDS

    def pre(self, items, i, ctx):
        """hook for subclasses: recognise a construct at items[i]; return the number of tokens consumed (0 = not mine)"""
        return 0

    def die(self, msg):
        self.die_(f"gen_locks: {self.fname}: {msg}")

    # ---- events of a function, memoised (context-free: guards never escape a function)
    def events(self, key):
        if key in self.memo: return self.memo[key]
        if key in self.active:
            self.die(f"recursive call cycle through {key[0]}::{key[1]} — cannot inline")
        self.active.append(key)
        fd = self.fns[key]
        ctx = {"impl": fd.impl, "out": [], "scopes": [], "temps": [], "fn": fd.name, "scratch": 0,
               "status": "status" in fd.params}
        self.block(fd.body.items, ctx, plain=True)
        self.active.pop()
        self.memo[key] = ctx["out"]
        return ctx["out"]

    def emit(self, ctx, ev):
        ctx["out"].append(ev)

    # ---- statements of a block
    def split(self, items):
        stmts, cur = [], []
        blocklike = ("if", "match", "for", "while", "loop", "unsafe")
        i = 0
        while i < len(items):
            t = items[i]
            if is_p(t, ";"):
                if cur: stmts.append(cur)
                cur = []
            else:
                cur.append(t)
                if is_grp(t, "{"):
                    first = cur[0]
                    starts_blocklike = (first.kind == "id" and first.text in blocklike) or (first is t)
                    nxt = at(items, i + 1)
                    if starts_blocklike and not is_id(nxt, "else") and not is_p(nxt, ".") and not is_p(nxt, "?"):
                        # `if c {..}` / `match x {..}` / bare block: statement ends here.  For `if`/`match`
                        # the first brace group is the body (a scrutinee cannot contain a bare struct literal).
                        stmts.append(cur); cur = []
            i += 1
        if cur: stmts.append(cur)
        return stmts

    def block(self, items, ctx, plain):
        sc = Scope(plain)
        ctx["scopes"].append(sc)
        for st in self.split(items):
            self.stmt(st, ctx, sc)
        for g in reversed(sc.guards):
            if g.live: self.emit(ctx, ("rel", g.lock))
        ctx["scopes"].pop()

    # ---- recognisers
    def lock_call_at(self, items, i, ctx):
        """-> (lock, mode, ntokens) if items[i:] starts with a recognised lock call"""
        impl = ctx["impl"]
        t = at(items, i)
        if is_id(t, "self") and is_p(at(items, i + 1), ".") and is_id(at(items, i + 2)) and is_p(at(items, i + 3), ".") \
                and is_id(at(items, i + 4)) and is_grp(at(items, i + 5), "(") and not at(items, i + 5).items:
            f, m = items[i + 2].text, items[i + 4].text
            if (impl, f) in self.lock_fields and m in ("read", "write"):
                return (self.lock_fields[(impl, f)], "R" if m == "read" else "W", 6)
            if (impl, f) in self.store_fields and m == "batch":
                return ("batch", "W", 6)
        # `store.batch()` on a parameter / local named `store`
        if is_id(t, "store") and not is_p(at(items, i - 1), ".") and is_p(at(items, i + 1), ".") and is_id(at(items, i + 2), "batch") \
                and is_grp(at(items, i + 3), "(") and not at(items, i + 3).items:
            return ("batch", "W", 4)
        return None

    def stmt(self, st, ctx, sc):
        temps = []
        ctx["temps"].append(temps)
        handled = False
        if is_id(st[0], "let"):
            # let [mut] NAME = <lock call>[?]
            j = 1
            if is_id(at(st, j), "mut"): j += 1
            if is_id(at(st, j)) and is_p(at(st, j + 1), "="):
                lc = self.lock_call_at(st, j + 2, ctx)
                if lc:
                    rest = st[j + 2 + lc[2]:]
                    if not rest or (len(rest) == 1 and is_p(rest[0], "?")):
                        lock, mode, _ = lc
                        self.acquire(ctx, lock, mode, st[j + 2].line)
                        sc.guards.append(Guard(lock, st[j].text, st[j + 2].line))
                        self.recognised["guard"] += 1
                        handled = True
            if not handled:
                # temporaries whose lifetime is extended by `let x = &<tmp>` / `let ref x`
                eq = next((k for k, x in enumerate(st) if is_p(x, "=")), None)
                if eq is not None and (is_p(at(st, eq + 1), "&") or any(is_id(x, "ref") for x in st[:eq])):
                    if self.contains_direct_lock(st[eq + 1:], ctx):
                        self.die(f"line {st[0].line}: `let … = &<lock call>` (temporary lifetime extension) not understood")
                # stored closure: let f = [move] |..| body
                if eq is not None and (is_p(at(st, eq + 1), "|") or is_p(at(st, eq + 1), "||") or
                                       (is_id(at(st, eq + 1), "move") and (is_p(at(st, eq + 2), "|") or is_p(at(st, eq + 2), "||")))):
                    self.scratch(st[eq + 1:], ctx, f"stored closure at line {st[0].line}")
                    handled = True
        if not handled:
            self.walk(st, ctx, stmt_start=True)
        for (lock) in reversed(temps):
            self.emit(ctx, ("rel", lock))
        ctx["temps"].pop()

    def contains_direct_lock(self, items, ctx):
        for i, x in enumerate(items):
            if self.lock_call_at(items, i, ctx): return True
            if x.kind == "group" and self.contains_direct_lock(x.items, ctx): return True
        return False

    def scratch(self, items, ctx, what):
        """process `items` in a scratch context; it must not produce any event"""
        sub = {"impl": ctx["impl"], "out": [], "scopes": [Scope(False)], "temps": [[]], "fn": ctx["fn"], "scratch": 1,
               "status": False}
        self.walk(items, sub, stmt_start=False)
        if sub["out"] or sub["temps"][0]:
            self.die(f"{what} in fn {ctx['fn']} acquires locks; its execution context is unknown")

    def acquire(self, ctx, lock, mode, line):
        self.emit(ctx, ("acq", lock, mode, line))

    def walk(self, items, ctx, stmt_start=False):
        i, n = 0, len(items)
        impl = ctx["impl"]
        while i < n:
            t = items[i]
            k = self.pre(items, i, ctx)
            if k:
                i += k; continue
            # -- the sync-status callback object (`status: &dyn TxHashsetWriteStatus` / `Arc<SyncState>` parameter):
            # a method call on it, or handing it to a callee, may take the SyncState leaf locks here
            if ctx.get("status") and is_id(t, "status") and not is_p(at(items, i - 1), ".") and not is_p(at(items, i - 1), "::") \
                    and not is_p(at(items, i + 1), ":"):
                self.emit(ctx, ("mark", "status", t.line))
                self.recognised["status"] = self.recognised.get("status", 0) + 1
            # -- direct lock call (temporary)
            lc = self.lock_call_at(items, i, ctx)
            if lc:
                lock, mode, k = lc
                self.acquire(ctx, lock, mode, t.line)
                ctx["temps"][-1].append(lock)
                self.recognised["temp"] += 1
                i += k; continue
            # -- batch.commit() / ctx.batch.commit()
            if is_id(t, "batch") and is_p(at(items, i + 1), ".") and is_id(at(items, i + 2), "commit") and is_grp(at(items, i + 3), "("):
                self.commit(ctx, t.line)
                i += 4; continue
            if is_id(t, "commit") and is_p(at(items, i - 1), ".") and is_grp(at(items, i + 1), "("):
                self.die(f"line {t.line}: `.commit()` on something that is not named `batch`")
            if is_id(t, "drop") and is_grp(at(items, i + 1), "(") and not is_p(at(items, i - 1), "."):
                names = [x.text for x in items[i + 1].items if x.kind == "id"]
                live = [g.var for s in ctx["scopes"] for g in s.guards if g.live]
                if any(v in live for v in names):
                    self.die(f"line {t.line}: explicit drop() of a guard is not understood")
            # -- self.…
            if is_id(t, "self") and is_p(at(items, i + 1), ".") and is_id(at(items, i + 2)):
                a = items[i + 2].text
                if is_grp(at(items, i + 3), "("):
                    # self.NAME(args)
                    key = (impl, a)
                    if key not in self.fns:
                        self.die(f"line {t.line}: call self.{a}(…) of an unknown method of {impl}")
                    self.walk(items[i + 3].items, ctx)
                    self.inline(ctx, key, t.line)
                    i += 4; continue
                if is_p(at(items, i + 3), ".") and is_id(at(items, i + 4)) and is_grp(at(items, i + 5), "("):
                    b, args = items[i + 4].text, items[i + 5]
                    if (impl, a) in self.subobjects:
                        key = (self.subobjects[(impl, a)], b)
                        if key not in self.fns:
                            self.die(f"line {t.line}: self.{a}.{b}(…): unknown method of {key[0]}")
                        self.walk(args.items, ctx)
                        self.inline(ctx, key, t.line)
                        i += 6; continue
                    if (impl, a) in self.lock_fields:
                        if b != "clone":
                            self.die(f"line {t.line}: self.{a}.{b}(…) on a lock field is not a recognised locking construct")
                        i += 6; continue
                    if (impl, a) in self.store_fields and b in LOCK_METHODS:
                        self.die(f"line {t.line}: self.{a}.{b}(…) not understood")
                    if (impl, a) in self.store_fields and b != "clone":
                        # a read of LMDB through the store handle: a read transaction of its own (one
                        # snapshot); whether it falls inside a lock region is decided on the Lean side
                        self.walk(args.items, ctx)
                        self.emit(ctx, ("mark", "dbread", t.line, b))
                        self.recognised["dbread"] = self.recognised.get("dbread", 0) + 1
                        i += 6; continue
                    if (impl, a) in self.callback_fields:
                        self.walk(args.items, ctx)
                        self.emit(ctx, ("mark", "callback", t.line))
                        self.recognised["callback"] += 1
                        i += 6; continue
                # a field of lock type used in any other way must be looked at by a human
                if (impl, a) in self.lock_fields and not (is_p(at(items, i + 3), ".") and is_id(at(items, i + 4), "clone")):
                    self.die(f"line {t.line}: lock field self.{a} used in an unrecognised way")
                i += 3; continue
            # -- path call  a::b::c(args)
            if t.kind == "id" and is_p(at(items, i + 1), "::"):
                path, j = [t.text], i + 1
                while is_p(at(items, j), "::") and is_id(at(items, j + 1)):
                    path.append(items[j + 1].text); j += 2
                if is_p(at(items, j), "::") and is_p(at(items, j + 1), "<"):  # turbofish: skip to the args
                    while j < n and not is_grp(items[j], "("): j += 1
                if is_grp(at(items, j), "("):
                    args = items[j]
                    if len(path) == 2 and path[0] == self.wrapper_mod and path[1] in self.batch_wrappers:
                        self.acquire(ctx, "batch", "W", t.line)
                        self.walk(args.items, ctx)
                        self.emit(ctx, ("rel", "batch"))
                        self.recognised["wrapper"] += 1
                    elif path == ["Box", "new"]:
                        self.scratch(args.items, ctx, f"boxed closure at line {t.line}")
                    else:
                        self.walk(args.items, ctx)
                    i = j + 1; continue
                i = j; continue
            # -- free function of this file
            if t.kind == "id" and is_grp(at(items, i + 1), "(") and (None, t.text) in self.fns \
                    and not is_p(at(items, i - 1), ".") and not is_id(at(items, i - 1), "fn"):
                self.walk(items[i + 1].items, ctx)
                self.inline(ctx, (None, t.text), t.line)
                i += 2; continue
            # -- safety net: any other zero-argument .read()/.write()/.batch()/.lock()…
            if t.kind == "id" and t.text in LOCK_METHODS and is_p(at(items, i - 1), ".") and is_grp(at(items, i + 1), "(") \
                    and not items[i + 1].items:
                self.die(f"line {t.line}: unrecognised locking construct `.{t.text}()` in fn {ctx['fn']}")
            # -- groups
            if t.kind == "group":
                if t.text == "{":
                    prev = at(items, i - 1)
                    plain = (i == 0 and stmt_start) or (is_p(prev, "=") and stmt_start and is_id(items[0], "let"))
                    self.block(t.items, ctx, plain)
                else:
                    self.walk(t.items, ctx)
            i += 1

    def inline(self, ctx, key, line):
        evs = self.events(key)
        self.recognised["inline"] += 1
        for e in evs:
            self.emit(ctx, e)

    def commit(self, ctx, line):
        # innermost live batch guard of this function; every scope from the commit up to the
        # binding's scope (exclusive) must be an unconditional block
        for depth in range(len(ctx["scopes"]) - 1, -1, -1):
            sc = ctx["scopes"][depth]
            for g in reversed(sc.guards):
                if g.live and g.lock == "batch":
                    for inner in ctx["scopes"][depth + 1:]:
                        if not inner.plain:
                            self.die(f"line {line}: batch.commit() inside a conditional block while the batch was bound "
                                     f"outside it (line {g.line}): guard lifetime not determinable")
                    g.live = False
                    self.emit(ctx, ("mark", "commit", line))
                    self.emit(ctx, ("rel", "batch"))
                    self.recognised["commit"] += 1
                    return
        if ctx.get("scratch"): return
        # a `batch` received as parameter (closure / fn arg `&mut Batch`) cannot be committed (commit(self))
        self.die(f"line {line}: batch.commit() in fn {ctx['fn']} but no live batch guard bound in this function")


def module_batch_wrappers(path, die):
    """module-level fns of txhashset.rs whose body opens a batch; dies if any other locking appears there"""
    src = strip_comments_strings(open(path).read())
    items = tokenize(src, die, os.path.basename(path))
    fns, _ = parse_file(items)
    wrappers = []

    def has_batch(its):
        for i, x in enumerate(its):
            if is_id(x, "batch") and is_p(at(its, i - 1), ".") and is_grp(at(its, i + 1), "(") and not its[i + 1].items:
                return True
            if x.kind == "group" and has_batch(x.items): return True
        return False

    def has_rw(its):
        for i, x in enumerate(its):
            if x.kind == "id" and x.text in LOCK_METHODS and x.text != "batch" and is_p(at(its, i - 1), ".") \
                    and is_grp(at(its, i + 1), "(") and not its[i + 1].items:
                return x.line
            if x.kind == "group":
                r = has_rw(x.items)
                if r: return r
        return None

    for (impl, name), fd in fns.items():
        ln = has_rw(fd.body.items)
        if ln:
            die(f"gen_locks: {path}:{ln}: lock acquisition inside txhashset.rs fn {name}: not understood")
        if has_batch(fd.body.items):
            if impl is not None:
                die(f"gen_locks: {path}: method {impl}::{name} opens a batch internally: not understood")
            wrappers.append(name)
    return sorted(wrappers)


def assert_no_locks(path, die):
    src = strip_comments_strings(open(path).read())
    m = re.search(r"\.\s*(" + "|".join(LOCK_METHODS) + r")\s*\(\s*\)", src)
    if m:
        ln = src[:m.start()].count("\n") + 1
        die(f"gen_locks: {path}:{ln}: `{m.group(0)}` — this file was assumed to take no locks")


def outside_reads(evs, inside=False):
    """names of the store look-ups made at state-lock depth 0 (inside=True: at depth > 0)"""
    depth, out = 0, []
    for e in evs:
        if e[0] == "acq" and e[1] in ("hp", "ts"): depth += 1
        elif e[0] == "rel" and e[1] in ("hp", "ts"): depth -= 1
        elif e[0] == "mark" and e[1] == "dbread":
            if (depth == 0) != inside: out.append(e[3] if len(e) > 3 else "?")
    return out


def lean_ev(e):
    if e[0] == "acq": return f".acq .{e[1]} .{e[2]}"
    if e[0] == "rel": return f".rel .{e[1]}"
    return f".mark .{e[1]}"


def show(evs):
    out = []
    for e in evs:
        if e[0] == "acq": out.append(f"+{e[1]}.{e[2]}@{e[3]}")
        elif e[0] == "rel": out.append(f"-{e[1]}")
        else: out.append(f"!{e[1]}@{e[2]}")
    return " ".join(out)


_CACHE = {}


def _build(repo_root, die):
    if repo_root in _CACHE: return _CACHE[repo_root]
    chain_rs = os.path.join(repo_root, "chain/src/chain.rs")
    ts_rs = os.path.join(repo_root, "chain/src/txhashset/txhashset.rs")
    pipe_rs = os.path.join(repo_root, "chain/src/pipe.rs")
    seg_rs = os.path.join(repo_root, "chain/src/txhashset/segmenter.rs")
    des_rs = os.path.join(repo_root, "chain/src/txhashset/desegmenter.rs")
    for p in (chain_rs, ts_rs, pipe_rs, seg_rs, des_rs):
        if not os.path.exists(p): die(f"gen_locks: missing {p}")
    wrappers = module_batch_wrappers(ts_rs, die)
    if not wrappers:
        die("gen_locks: txhashset.rs: no module-level fn opening a batch found (expected extending_readonly, utxo_view, …)")
    assert_no_locks(pipe_rs, die)

    src = strip_comments_strings(open(chain_rs).read())
    items = tokenize(src, die, "chain.rs")
    tr = Translator("chain/src/chain.rs", items, die, wrappers, "txhashset")

    # the struct definitions must carry exactly the lock fields of the fixed alphabet
    for sname in ("Chain", "OrphanBlockPool"):
        if sname not in tr.structs: die(f"gen_locks: struct {sname} not found in chain.rs")
        for f, ty in tr.structs[sname].items():
            is_lock = ("RwLock" in ty) or ("Mutex" in ty)
            if is_lock and (sname, f) not in LOCK_FIELDS:
                die(f"gen_locks: {sname}.{f} : {ty} is a lock that is not in the fixed alphabet")
        for (s, f) in LOCK_FIELDS:
            if s == sname and f not in tr.structs[sname]:
                die(f"gen_locks: expected lock field {sname}.{f} is gone")
            if s == sname and not ("RwLock" in tr.structs[sname][f]):
                die(f"gen_locks: {sname}.{f} is no longer an RwLock: {tr.structs[sname][f]}")
    for (s, f), target in SUBOBJECTS.items():
        if target not in tr.structs.get(s, {}).get(f, ""):
            die(f"gen_locks: {s}.{f} is no longer a {target}")

    table, skipped = [], []
    for (impl, name), fd in sorted(tr.fns.items(), key=lambda kv: kv[1].line):
        if impl != "Chain" or not fd.pub: continue
        if not fd.has_self:
            skipped.append(name); continue
        table.append((name, fd.line, tr.events((impl, name))))
    if len(table) < 40:
        die(f"gen_locks: only {len(table)} pub fns of impl Chain recognised (expected > 40): parse went wrong")
    for must in ("process_block", "process_block_header", "validate_tx", "get_unspent", "compact", "validate",
                 "set_txhashset_roots", "segmenter", "get_header_by_height", "head", "txhashset_write"):
        if must not in [n for n, _, _ in table]:
            die(f"gen_locks: pub fn {must} of impl Chain not found")

    # the state-serving side: impl Segmenter (segmenter.rs) — same translator, its own lock field
    ssrc = strip_comments_strings(open(seg_rs).read())
    sitems = tokenize(ssrc, die, "segmenter.rs")
    st = Translator("chain/src/txhashset/segmenter.rs", sitems, die, wrappers, "txhashset")
    if "Segmenter" not in st.structs or "RwLock" not in st.structs["Segmenter"].get("txhashset", ""):
        die("gen_locks: struct Segmenter { txhashset: Arc<RwLock<..>> } not found in segmenter.rs")
    for f, ty in st.structs["Segmenter"].items():
        if ("RwLock" in ty or "Mutex" in ty) and ("Segmenter", f) not in LOCK_FIELDS:
            die(f"gen_locks: Segmenter.{f} : {ty} is a lock that is not in the fixed alphabet")
    seg_table = []
    for (impl, name), fd in sorted(st.fns.items(), key=lambda kv: kv[1].line):
        if impl == "Segmenter" and fd.pub and fd.has_self:
            seg_table.append(("Segmenter::" + name, fd.line, st.events((impl, name))))

    # the state-receiving side: impl Desegmenter (desegmenter.rs).  It locks the chain's header_pmmr /
    # txhashset through the Arcs it was constructed with (Chain::desegmenter hands them over) and opens
    # batches on the chain's store.  The only way to reach a Desegmenter is the
    # Arc<RwLock<Option<Desegmenter>>> returned by Chain::desegmenter() (= Chain.pibd_desegmenter): every
    # caller in /repo (servers/src/common/adapters.rs receive_*_segment, servers/src/grin/sync/state_sync.rs)
    # calls its methods under `.write()` / `.try_write()` of that lock, so each entry is emitted INSIDE
    # `+deseg.W … -deseg` (for the order discipline the mode is irrelevant; a caller that clones the
    # Desegmenter out and calls without the guard runs a subsequence of the entry).
    dsrc = strip_comments_strings(open(des_rs).read())
    ditems = tokenize(dsrc, die, "desegmenter.rs")
    dt = Translator("chain/src/txhashset/desegmenter.rs", ditems, die, wrappers, "txhashset")
    if "Desegmenter" not in dt.structs:
        die("gen_locks: struct Desegmenter not found in desegmenter.rs")
    for f, ty in dt.structs["Desegmenter"].items():
        if ("RwLock" in ty or "Mutex" in ty) and ("Desegmenter", f) not in LOCK_FIELDS:
            die(f"gen_locks: Desegmenter.{f} : {ty} is a lock that is not in the fixed alphabet")
    for (s_, f) in LOCK_FIELDS:
        if s_ == "Desegmenter" and "RwLock" not in dt.structs["Desegmenter"].get(f, ""):
            die(f"gen_locks: Desegmenter.{f} is no longer an Arc<RwLock<..>>")
    if "ChainStore" not in dt.structs["Desegmenter"].get("store", ""):
        die("gen_locks: Desegmenter.store is no longer the chain's ChainStore")
    des_table = []
    for (impl, name), fd in sorted(dt.fns.items(), key=lambda kv: kv[1].line):
        if impl == "Desegmenter" and fd.pub and fd.has_self:
            evs = dt.events((impl, name))
            des_table.append(("Desegmenter::" + name, fd.line, [("acq", "deseg", "W", fd.line)] + evs + [("rel", "deseg")]))
    for must in ("check_progress", "validate_complete_state", "apply_next_segments", "next_desired_segments",
                 "add_bitmap_segment", "add_output_segment", "add_rangeproof_segment", "add_kernel_segment",
                 "check_update_leaf_set_state"):
        if "Desegmenter::" + must not in [n for n, _, _ in des_table]:
            die(f"gen_locks: pub fn {must} of impl Desegmenter not found")
    seg_table = seg_table + des_table

    _CACHE[repo_root] = (table, seg_table, des_table, wrappers, skipped, tr)
    return _CACHE[repo_root]


def chain_level_rows(repo_root, die):
    """(name, line, events) of every entry of the chain-level table (for gen_locks_node.py)"""
    table, seg_table = _build(repo_root, die)[:2]
    return table + seg_table


def generate(repo_root, die):
    table, seg_table, des_table, wrappers, skipped, tr = _build(repo_root, die)
    n_acq = sum(1 for _, _, evs in table + seg_table for e in evs if e[0] == "acq")
    print(f"gen_locks: {len(table)} pub fns of impl Chain (+{len(seg_table) - len(des_table)} of impl Segmenter, +{len(des_table)} of impl Desegmenter), {n_acq} acquisitions after inlining; "
          f"recognised in chain.rs: {tr.recognised}; batch wrappers in txhashset.rs: {wrappers}; skipped (no self): {skipped}",
          file=sys.stderr)

    L = []
    L.append("import GrinVerif.Model.Conc")
    L.append("/-! GENERATED by tools/gen_locks.py (plug-in of gen_tables.py) from /repo/chain/src/chain.rs,")
    L.append("txhashset/txhashset.rs, txhashset/segmenter.rs, txhashset/desegmenter.rs on every check run. Do not edit.")
    L.append("")
    L.append("Text-level translation (see the header of tools/gen_locks.py for the exact rules and what they")
    L.append("cannot see).  One entry per `pub fn` of `impl Chain` with a `self` receiver; private methods and")
    L.append("free functions of the file are inlined.  Branches / loop bodies appear once, in source order.")
    L.append("`Desegmenter::x` = pub fn x of impl Desegmenter as its callers run it: under pibd_desegmenter.write().")
    L.append(f"batch wrappers found in txhashset.rs: {', '.join(wrappers)}")
    L.append(f"skipped (no self receiver, runs before the Chain is shared): {', '.join(skipped) or '-'}")
    L.append("Sites (+lock.mode@line acquire, -lock release, !mark@line):")
    for name, line, evs in table + seg_table:
        L.append(f"  {name} (line {line}): {show(evs) or '(lock-free)'}")
    L.append("-/")
    L.append("namespace GV.Gen")
    L.append("open GV.Conc")
    L.append("")
    L.append("def lockTable : List (String × List LockEv) := [")
    rows = []
    for name, line, evs in table + seg_table:
        rows.append(f"  (\"{name}\", [{', '.join(lean_ev(e) for e in evs)}])")
    L.append(",\n".join(rows))
    L.append("]")
    L.append("")
    L.append("/-- per entry: the `self.store.<method>` look-ups made while holding NEITHER header_pmmr NOR txhashset (a read")
    L.append("transaction of their own each), by store method name, in source order -/")
    L.append("def dbReadsOutside : List (String × List String) := [")
    L.append(",\n".join(f"  (\"{name}\", [{', '.join(chr(34) + m + chr(34) for m in outside_reads(evs))}])" for name, line, evs in table + seg_table))
    L.append("]")
    L.append("")
    L.append("/-- per entry: the look-ups made inside a header_pmmr / txhashset hold -/")
    L.append("def dbReadsInside : List (String × List String) := [")
    L.append(",\n".join(f"  (\"{name}\", [{', '.join(chr(34) + m + chr(34) for m in outside_reads(evs, inside=True))}])" for name, line, evs in table + seg_table))
    L.append("]")
    L.append("")
    L.append("/-- module-level functions of txhashset.rs that hold an LMDB write transaction for the duration of the call -/")
    L.append("def batchWrappers : List String := [" + ", ".join(f"\"{w}\"" for w in wrappers) + "]")
    L.append("")
    L.append("end GV.Gen")
    return {"Locks.lean": "\n".join(L) + "\n"}


if __name__ == "__main__":

    def _die(m):
        print(m); sys.exit(1)
    out = generate(os.environ.get("VERIF_REPO", "/repo"), _die)
    sys.stdout.write(out["Locks.lean"])
