#!/bin/sh
# Mutation testing without touching /repo:  tools/mutcheck.sh <patch.diff> <Cxx> [<Cxx> ...]
# Creates a scratch worktree of /repo under /tmp/gvmut, applies the patch, builds a copy of the
# harness against it (own target dir) and runs the given checks against it. Evidence and work
# files go to the scratch area. Everything is removed afterwards.
set -e
PATCH="$1"; shift
ROOT=/tmp/gvmut.$$
mkdir -p $ROOT
git -C /repo worktree add --detach $ROOT/repo HEAD >/dev/null 2>&1
(cd $ROOT/repo && git apply "$PATCH")
mkdir -p $ROOT/harness
cp -r /verif/harness/src /verif/harness/Cargo.toml /verif/harness/Cargo.lock $ROOT/harness/
mkdir -p $ROOT/harness/.cargo
cp /verif/harness/.cargo/config.toml $ROOT/harness/.cargo/config.toml
sed -i "s|/repo/|$ROOT/repo/|g" $ROOT/harness/Cargo.toml
rc=0
for c in "$@"; do
  VERIF_REPO=$ROOT/repo VERIF_HARNESS_DIR=$ROOT/harness VERIF_WORKDIR=$ROOT/work VERIF_EVIDENCE_DIR=$ROOT/evidence /verif/check $c ${MUT_TIER:+--tier $MUT_TIER} || rc=1
done
if [ -n "$MUT_KEEP" ]; then mkdir -p /tmp/mutkeep && rm -rf /tmp/mutkeep/work && cp -r $ROOT/work /tmp/mutkeep/work; fi
git -C /repo worktree remove --force $ROOT/repo
rm -rf $ROOT
# restore generated tables for the real tree
python3 /verif/tools/gen_tables.py
exit $rc
