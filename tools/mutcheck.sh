#!/bin/sh
# Mutation testing without touching /repo:  tools/mutcheck.sh <patch.diff> <Cxx> [<Cxx> ...]
# Keeps ONE persistent scratch worktree of /repo under /tmp/gvmut (reset to HEAD before and after
# every use, so source mtimes survive and the scratch copy of the harness is rebuilt incrementally),
# applies the patch there and runs the given checks against it. Calls are serialised with flock.
# Evidence and work files go to the scratch area. `tools/mutcheck.sh --clean` removes everything.
ROOT=${MUT_ROOT:-/tmp/gvmut}
V=${VERIF_ROOT:-/verif}   # which copy of the framework runs the checks (a snapshot worktree keeps agents' in-progress edits out)
if [ "$1" = "--clean" ]; then
  git -C /repo worktree remove --force $ROOT/repo 2>/dev/null
  rm -rf $ROOT; git -C /repo worktree prune; exit 0
fi
PATCH="$1"; shift
mkdir -p $ROOT
exec 9>$ROOT/lock
flock 9
if [ ! -d $ROOT/repo ]; then
  git -C /repo worktree add --detach $ROOT/repo HEAD >/dev/null 2>&1 || exit 2
fi
(cd $ROOT/repo && git checkout -q --detach $(git -C /repo rev-parse HEAD) && git checkout -q -- . && git clean -fdq)
(cd $ROOT/repo && git apply "$PATCH") || { echo "mutcheck: patch does not apply"; exit 2; }
mkdir -p $ROOT/harness/.cargo
rsync -a --delete $V/harness/src/ $ROOT/harness/src/
cp $V/harness/Cargo.lock $ROOT/harness/Cargo.lock
sed "s|/repo/|$ROOT/repo/|g" $V/harness/Cargo.toml > $ROOT/harness/Cargo.toml.new
cmp -s $ROOT/harness/Cargo.toml.new $ROOT/harness/Cargo.toml || mv $ROOT/harness/Cargo.toml.new $ROOT/harness/Cargo.toml
cp $V/harness/.cargo/config.toml $ROOT/harness/.cargo/config.toml
rc=0
rm -rf $ROOT/work $ROOT/evidence
for c in "$@"; do
  VERIF_REPO=$ROOT/repo VERIF_HARNESS_DIR=$ROOT/harness VERIF_WORKDIR=$ROOT/work VERIF_EVIDENCE_DIR=$ROOT/evidence $V/check $c ${MUT_TIER:+--tier $MUT_TIER} || rc=1
done
if [ -n "$MUT_KEEP" ]; then mkdir -p /tmp/mutkeep && rm -rf /tmp/mutkeep/work && cp -r $ROOT/work /tmp/mutkeep/work; fi
(cd $ROOT/repo && git checkout -q -- . && git clean -fdq)
# restore generated tables for the real tree
python3 $V/tools/gen_tables.py
exit $rc
