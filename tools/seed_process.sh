#!/bin/sh
# tools/seed_process.sh <Cxx> <round> [extra checks...] : for variants A and B of a delivered seed
# run the property's check against the change (tools/mutcheck.sh, serialised) and confirm the seed
# independently (tools/confirm_meta.sh in the seed's own worktree). Summary in /tmp/seed/<Cxx>r<round>/summary.txt
P=$1; R=$2; shift 2
D=/tmp/seed/${P}r${R}
CR=$(python3 - <<PY
import sys; sys.path.insert(0,'/verif/tools')
import seed_prompts
print(' '.join(seed_prompts.CFG['$P'][0]))
PY
)
: > $D/summary.txt
for V in A B; do
  O=$D/out/$V
  [ -f $O/patch.diff ] || { echo "$P-$V: no patch" >> $D/summary.txt; continue; }
  /verif/tools/mutcheck.sh $O/patch.diff $P "$@" > $D/mut_$V.log 2>&1; mrc=$?
  viol=$(grep -c '^VIOLATION' $D/mut_$V.log)
  nf=$(grep -c 'no-failing-input-found' $D/mut_$V.log)
  echo "$P-$V: mutcheck rc=$mrc violations=$viol nofailinginput=$nf | $(grep "^$P tier" $D/mut_$V.log | cut -c1-220)" >> $D/summary.txt
done
for V in A B; do
  O=$D/out/$V
  [ -f $O/patch.diff ] || continue
  c=$(/verif/tools/confirm_meta.sh $O $CR 2>&1 | tail -1)
  echo "$P-$V: $c" >> $D/summary.txt
done
echo "DONE" >> $D/summary.txt
