#!/usr/bin/env python3
"""Node-level lock table for property C17 (plug-in of gen_tables.py; second tier above gen_locks.py).

The chain-level table (gen_locks.py -> Gen/Locks.lean) stops at the boundary of the chain crate.  A
running node wraps the chain in more locks, taken by code OUTSIDE chain.rs:

  pool      servers `ServerTxPool = Arc<RwLock<TransactionPool>>` (adapters.rs NetToChainAdapter /
            ChainToPoolAndNetAdapter field `tx_pool`, parameters `tx_pool: &ServerTxPool` of
            mining/mine_block.rs and grin/dandelion_monitor.rs)
  reorg     pool/src/transaction_pool.rs `TransactionPool.reorg_cache`
  dand      adapters.rs `PoolToNetAdapter.dandelion_epoch`
  secp      the static secp256k1 context mutex as taken inside the pool crate (pool.rs `secp.lock()`)
  syncCur / syncErr / syncSegs   chain/src/types.rs `SyncState.{current,sync_error,requested_pibd_segments}`
  chain(l)  the eight locks of the chain-level table, reached through `self.chain().<op>(…)`,
            `chain.<op>(…)`, `self.blockchain.<op>(…)` (PoolToChainAdapter), the Arcs handed out by
            `Chain::header_pmmr()` (`header_pmmr.read()` in adapters.rs), `Chain::desegmenter()`.

This generator reads adapters.rs, pool.rs, transaction_pool.rs, chain/src/types.rs, mine_block.rs,
dandelion_monitor.rs with the SAME text-level translator as gen_locks.py (guard lifetimes by lexical
rules, see there) plus these node-level rules:

  * `self.chain().NAME(args)` / `chain.NAME(args)` (identifier `chain` that is a parameter): the
    chain-level entry NAME is inlined (the table of gen_locks.py, computed in the same run), its
    `!callback` (Chain -> adapter.block_accepted) replaced by the events of
    ChainToPoolAndNetAdapter::block_accepted and every `!status` (a call on the sync-status object handed
    into txhashset_write / the desegmenter) by the events of SyncState::update; an unknown NAME kills the
    generator;
  * `self.chain().desegmenter(..)?.write()` is `+chain.deseg.W` and `d.NAME(..)` under it the
    Desegmenter::NAME entry without its wrapper;
  * a method call on a pool guard (`tx_pool.NAME(..)` after `let mut tx_pool = ….write()`, or directly
    `self.tx_pool.read().NAME(..)`) inlines TransactionPool::NAME; `tx_pool.txpool.NAME` / `.stempool.NAME`
    inline Pool::NAME;
  * `self.blockchain.NAME` -> PoolToChainAdapter::NAME, `self.adapter.NAME` (pool crate) / `adapter.NAME`
    (dandelion monitor) -> PoolToNetAdapter::NAME, `self.sync_state.NAME` -> SyncState::NAME,
    `self.txpool.NAME` / `self.stempool.NAME` -> Pool::NAME;
  * `self.peers().NAME(..)` = a call into the p2p crate: `!callback` (p2p's own locks are outside).
Output: lean/GrinVerif/Gen/LocksNode.lean, `GV.Gen.nodeTable : List (String × List (Ev NLock))`.

Increment 2: servers/src/grin/sync/{state_sync,header_sync,body_sync,syncer}.rs are entry points
(`self.chain.op(..)`, `self.sync_state.op(..)`, `desegmenter.write()` / `try_write()` + `d.op(..)`), and p2p/src/peers.rs
`impl Peers` is translated: `Peers.peers` (p2pPeers), `Peers.blocked` (p2pBlocked) with their TIMED acquisitions
(`try_read_for` / `try_write_for`: an acquisition for the order graph; a timed-out attempt returns an error instead
of waiting for ever, which the model does not use), the per-peer data locks `live_info` / `received_bytes` /
`sent_bytes` (p2pPeerData, leaves).  `self.peers().op(..)` / `self.peers.op(..)` inline `Peers::op`; the p2p-facing
trait impls of `Peers` (`impl ChainAdapter for Peers`: block_received, transaction_received, …) call
`self.adapter.op(..)` = `NetToChainAdapter::op`, inlined.  A stored closure that locks is accepted when it releases
everything it takes and is emitted where it is written.  Still a `!callback` mark: calls on a `Peer`
(send_* = the `send_handle` Mutex and the connection's channels).
Increment 3: api/src/handlers/*.rs (`w(&self.chain)?.op(..)`, `let pool = w(&self.tx_pool)?.read()` … = plain
references / acquisitions; entries `api::<Handler>::<fn>`), servers/src/mining/stratumserver.rs (`Stratum::…`:
`current_state` = stratumState held ACROSS `chain.process_block` in handle_submit and across `mine_block::get_block`
in run; WorkersList locks), mining/test_miner.rs (`Miner::run_loop`), p2p/src/peer.rs (`Peer::…`: state, send_handle,
stop_handle Mutexes; `TrackingAdapter::…` = what a connection thread calls, resolved to `Peers::…` ->
`NetToChainAdapter::…`); a call `p.op(..)` / `peer.op(..)` / `sync_peer.op(..)` is `Peer::op` when that exists.
Increment 4: api/src/{foreign,owner}.rs (`let h = XHandler { .. }; h.op(..)` resolved to `XHandler::op`; entries
`api::Foreign::…`, `api::Owner::…`).
NOT covered: api/ handlers (they take `tx_pool.read()/write()` through a Weak and call the same
TransactionPool methods; shapes `w(&self.tx_pool)?.read()` are not translated), servers/src/grin/sync/*
(they call chain ops and SyncState methods one after the other, holding nothing of their own except the
desegmenter guard, which the chain-level table already wraps around every Desegmenter entry), stratum.
Like gen_locks.py this is not a Rust type checker.
"""
import os, sys

sys.path.insert(0, os.path.dirname(os.path.abspath(__file__)))
import gen_locks as G
from gen_locks import is_id, is_p, is_grp, at

NODE_LOCK_FIELDS = {
    ("NetToChainAdapter", "tx_pool"): "pool",
    ("ChainToPoolAndNetAdapter", "tx_pool"): "pool",
    ("PoolToNetAdapter", "dandelion_epoch"): "dand",
    ("TransactionPool", "reorg_cache"): "reorg",
    ("SyncState", "current"): "syncCur",
    ("SyncState", "sync_error"): "syncErr",
    ("SyncState", "requested_pibd_segments"): "syncSegs",
    ("Peers", "peers"): "p2pPeers",
    ("Peers", "blocked"): "p2pBlocked",
    ("Handler", "current_state"): "stratumState",
    ("WorkersList", "workers_list"): "stratumWorkers",
    ("WorkersList", "stratum_stats"): "stratumStats",
    ("StratumServer", "stratum_stats"): "stratumStats",
    ("Peer", "state"): "peerState",
    ("Peer", "send_handle"): "peerSend",
    ("Peer", "stop_handle"): "peerStop",
    ("TrackingAdapter", "received"): "peerTrack",
    ("TrackingAdapter", "requested"): "peerTrack",
}
# impls whose field `chain` is the Arc<Chain> (self.chain.op(..)) / whose field `peers` is the Arc<Peers>
CHAIN_FIELD_IMPLS = ("StateSync", "HeaderSync", "BodySync", "SyncRunner", "Handler", "StratumServer", "Miner")
# identifiers that name a `Peer` in the translated files (closure parameters / locals), for `IDENT.send_*(..)` etc.
PEER_IDENTS = ("p", "peer", "sync_peer")
SYNC_IMPLS = ("StateSync", "HeaderSync", "BodySync", "SyncRunner")
TIMED = ("try_read_for", "try_write_for", "try_read", "try_write")
# per-peer leaf data locks of the p2p crate reached through a field chain ending in one of these names
PEER_DATA_LOCKS = ("live_info", "received_bytes", "sent_bytes")
NODE_SUBOBJECTS = {("TransactionPool", "txpool"): "Pool", ("TransactionPool", "stempool"): "Pool", ("Handler", "workers"): "WorkersList"}
# field -> impl whose method of the same name is what runs (the concrete types servers/ instantiates)
DISPATCH_FIELDS = {
    ("TransactionPool", "blockchain"): "PoolToChainAdapter",
    ("Pool", "blockchain"): "PoolToChainAdapter",
    ("TransactionPool", "adapter"): "PoolToNetAdapter",
    ("NetToChainAdapter", "sync_state"): "SyncState",
    ("StateSync", "sync_state"): "SyncState",
    ("HeaderSync", "sync_state"): "SyncState",
    ("BodySync", "sync_state"): "SyncState",
    ("SyncRunner", "sync_state"): "SyncState",
    ("Peers", "adapter"): "NetToChainAdapter",
    ("TrackingAdapter", "adapter"): "Peers",
}
# identifiers (parameters / locals, not preceded by `.`) standing for a lock or an object
IDENT_LOCKS = {"tx_pool": "pool", "pool_arc": "pool", "pool": "pool", "header_pmmr": "hp", "txhashset": "ts", "desegmenter": "deseg"}
IDENT_OBJECTS = {"adapter": "PoolToNetAdapter"}
GUARD_OBJECT = {"pool": "TransactionPool"}
CHAIN_LOCKS = ("orph", "hidx", "segm", "deseg", "hp", "ts", "batch", "deny")
NODE_LOCKS = ("pool", "reorg", "dand", "secp", "syncCur", "syncErr", "syncSegs", "p2pPeers", "p2pBlocked", "p2pPeerData",
              "stratumState", "stratumWorkers", "stratumStats", "peerState", "peerSend", "peerStop", "peerTrack")
ARC_GETTERS = ("header_pmmr", "txhashset", "store")

FILES = [
    "servers/src/common/adapters.rs",
    "pool/src/pool.rs",
    "pool/src/transaction_pool.rs",
    "chain/src/types.rs",
    "servers/src/mining/mine_block.rs",
    "servers/src/grin/dandelion_monitor.rs",
    "servers/src/grin/sync/state_sync.rs",
    "servers/src/grin/sync/header_sync.rs",
    "servers/src/grin/sync/body_sync.rs",
    "servers/src/grin/sync/syncer.rs",
    "p2p/src/peers.rs",
    "p2p/src/peer.rs",
    "servers/src/mining/stratumserver.rs",
    "servers/src/mining/test_miner.rs",
    "api/src/handlers/utils.rs",
    "api/src/handlers/blocks_api.rs",
    "api/src/handlers/chain_api.rs",
    "api/src/handlers/pool_api.rs",
    "api/src/handlers/server_api.rs",
    "api/src/handlers/transactions_api.rs",
    "api/src/handlers/peers_api.rs",
    "api/src/handlers/version_api.rs",
    "api/src/foreign.rs",
    "api/src/owner.rs",
    "api/src/types.rs",
]


class NodeTranslator(G.Translator):
    def __init__(self, items, die, chain_table):
        super().__init__("node level (adapters.rs, pool/src, types.rs, mine_block.rs, dandelion_monitor.rs)", items, die, [], "txhashset")
        self.lock_fields, self.subobjects = NODE_LOCK_FIELDS, NODE_SUBOBJECTS
        self.store_fields, self.callback_fields = set(), set()
        self.chain_table = chain_table          # name -> events of the chain-level table
        self.rec = {"chain-op": 0, "guard-method": 0, "dispatch": 0, "p2p": 0, "deseg": 0, "ident-lock": 0}
        self.chain_ops_used = set()

    # ---- chain-level entries, with the callback / status marks resolved
    def chain_events(self, name, line, strip_wrapper=False):
        evs = self.chain_table[name]
        if strip_wrapper:
            evs = evs[1:-1]
        out = []
        for e in evs:
            if e[0] == "mark" and e[1] == "callback":
                out += self.events(("ChainToPoolAndNetAdapter", "block_accepted"))
            elif e[0] == "mark" and e[1] == "status":
                out += self.events(("SyncState", "update"))
            elif e[0] == "acq":
                out.append(("acq", "c_" + e[1], e[2], e[3]))
            elif e[0] == "rel":
                out.append(("rel", "c_" + e[1]))
            else:
                out.append(e)
        return out

    def holds(self, ctx, lock):
        for sc in ctx["scopes"]:
            for g in sc.guards:
                if g.live and g.lock == lock: return True
        return any(lock in ts for ts in ctx["temps"])

    def guard_lock_of(self, ctx, var):
        for sc in reversed(ctx["scopes"]):
            for g in reversed(sc.guards):
                if g.live and g.var == var: return g.lock
        return None

    def lock_call_at(self, items, i, ctx):
        r = super().lock_call_at(items, i, ctx)
        if r: return r
        t = at(items, i)
        impl = ctx["impl"]
        # self.FIELD.try_write_for(TIMEOUT) / try_read_for(..): a timed acquisition is an acquisition
        if is_id(t, "self") and is_p(at(items, i + 1), ".") and is_id(at(items, i + 2)) and is_p(at(items, i + 3), ".") \
                and is_id(at(items, i + 4)) and items[i + 4].text in TIMED and is_grp(at(items, i + 5), "(") \
                and (impl, items[i + 2].text) in self.lock_fields:
            return (self.lock_fields[(impl, items[i + 2].text)], "R" if "read" in items[i + 4].text else "W", 6)
        # self.workers.FIELD.read()/write() (stratum: Handler.workers is the WorkersList)
        if is_id(t, "self") and is_p(at(items, i + 1), ".") and is_id(at(items, i + 2), "workers") and is_p(at(items, i + 3), ".") \
                and is_id(at(items, i + 4)) and is_p(at(items, i + 5), ".") and is_id(at(items, i + 6)) \
                and items[i + 6].text in ("read", "write") and is_grp(at(items, i + 7), "(") and not items[i + 7].items \
                and ("WorkersList", items[i + 4].text) in self.lock_fields:
            return (self.lock_fields[("WorkersList", items[i + 4].text)], "R" if items[i + 6].text == "read" else "W", 8)
        # self.FIELD.lock() on a Mutex field of the alphabet (Peer.send_handle / stop_handle)
        if is_id(t, "self") and is_p(at(items, i + 1), ".") and is_id(at(items, i + 2)) and is_p(at(items, i + 3), ".") \
                and is_id(at(items, i + 4)) and items[i + 4].text in ("lock", "try_lock") and is_grp(at(items, i + 5), "(") and not items[i + 5].items \
                and (impl, items[i + 2].text) in self.lock_fields:
            return (self.lock_fields[(impl, items[i + 2].text)], "W", 6)
        # ….live_info.read() / .received_bytes.read() / .sent_bytes.read(): per-peer data locks of p2p (leaves)
        if t is not None and t.kind == "id" and t.text in PEER_DATA_LOCKS and is_p(at(items, i - 1), ".") \
                and is_p(at(items, i + 1), ".") and is_id(at(items, i + 2)) and items[i + 2].text in ("read", "write") \
                and is_grp(at(items, i + 3), "(") and not items[i + 3].items:
            return ("p2pPeerData", "R" if items[i + 2].text == "read" else "W", 4)
        # IDENT.read() / IDENT.write() on a parameter / local that is one of the shared locks
        if t is not None and t.kind == "id" and t.text in IDENT_LOCKS and not is_p(at(items, i - 1), ".") \
                and is_p(at(items, i + 1), ".") and is_id(at(items, i + 2)) and items[i + 2].text in ("read", "write", "try_write", "try_read") \
                and is_grp(at(items, i + 3), "(") and not items[i + 3].items:
            # not when IDENT currently names a guard (`let mut tx_pool = tx_pool.write();` shadows the Arc)
            if self.guard_lock_of(ctx, t.text) is None:
                lk = IDENT_LOCKS[t.text]
                lk = "c_" + lk if lk in CHAIN_LOCKS else lk
                self.rec["ident-lock"] += 1
                return (lk, "R" if "read" in items[i + 2].text else "W", 4)
        if is_id(t, "secp") and not is_p(at(items, i - 1), ".") and is_p(at(items, i + 1), ".") and is_id(at(items, i + 2), "lock") \
                and is_grp(at(items, i + 3), "(") and not items[i + 3].items:
            if self.guard_lock_of(ctx, "secp") is None:
                return ("secp", "W", 4)
        return None

    def call_method(self, ctx, impl, name, args, line, must=False):
        key = (impl, name)
        if key not in self.fns:
            if must: self.die(f"line {line}: {impl}::{name} not found")
            return False
        if args is not None: self.walk(args.items, ctx)
        self.inline(ctx, key, line)
        return True

    def pre(self, items, i, ctx):
        t = items[i]
        impl = ctx["impl"]
        prev = at(items, i - 1)
        # ---- self.chain().NAME(args)   /   self.peers().NAME(args)
        if is_id(t, "self") and is_p(at(items, i + 1), ".") and is_id(at(items, i + 2)) and is_grp(at(items, i + 3), "(") \
                and not items[i + 3].items and items[i + 2].text in ("chain", "peers"):
            which = items[i + 2].text
            if is_p(at(items, i + 4), ".") and is_id(at(items, i + 5)) and is_grp(at(items, i + 6), "("):
                name, args = items[i + 5].text, items[i + 6]
                if which == "peers":
                    self.p2p_call(ctx, name, args, t.line)
                    return 7
                return 4 + self.chain_call(items, i + 4, ctx)
            return 4
        # ---- self.chain.NAME(args) / self.peers.NAME(args) in the sync runners (fields, not getters)
        if impl in CHAIN_FIELD_IMPLS and is_id(t, "self") and is_p(at(items, i + 1), ".") and is_id(at(items, i + 2)) \
                and items[i + 2].text in ("chain", "peers") and is_p(at(items, i + 3), ".") and is_id(at(items, i + 4)) \
                and is_grp(at(items, i + 5), "("):
            name = items[i + 4].text
            if name == "clone":
                return 6
            if items[i + 2].text == "peers":
                self.p2p_call(ctx, name, items[i + 5], t.line)
                return 6
            return 3 + self.chain_call(items, i + 3, ctx)
        # ---- api handlers: w(&self.chain)?.op(..) / w(&self.sync_state)?.op(..) / w(&self.peers)?.op(..) / w(chain)?.op(..)
        # (`w` upgrades the Weak: a plain reference for the lock order)
        if is_id(t, "w") and not is_p(prev, ".") and is_grp(at(items, i + 1), "(") and is_p(at(items, i + 2), "?") \
                and is_p(at(items, i + 3), ".") and is_id(at(items, i + 4)) and is_grp(at(items, i + 5), "("):
            inner = [x.text for x in items[i + 1].items if x.kind == "id"]
            target = inner[-1] if inner else ""
            if target == "chain":
                return 3 + self.chain_call(items, i + 3, ctx)
            if target == "sync_state":
                self.walk(items[i + 5].items, ctx)
                self.call_method(ctx, "SyncState", items[i + 4].text, None, t.line, must=True)
                self.rec["dispatch"] += 1
                return 6
            if target == "peers":
                self.p2p_call(ctx, items[i + 4].text, items[i + 5], t.line)
                return 6
        # ---- mine_block::get_block(chain, tx_pool, ..) from the stratum server / the test miner
        if is_id(t, "mine_block") and is_p(at(items, i + 1), "::") and is_id(at(items, i + 2), "get_block") and is_grp(at(items, i + 3), "("):
            self.walk(items[i + 3].items, ctx)
            self.inline(ctx, (None, "get_block"), t.line)
            return 4
        # ---- a call on a `Peer` (closure parameter / local named p / peer / sync_peer): Peer::NAME when it exists
        if t.kind == "id" and t.text in PEER_IDENTS and not is_p(prev, ".") and not is_p(prev, "::") and is_p(at(items, i + 1), ".") \
                and is_id(at(items, i + 2)) and is_grp(at(items, i + 3), "(") and ("Peer", items[i + 2].text) in self.fns \
                and self.fns[("Peer", items[i + 2].text)].has_self and self.guard_lock_of(ctx, t.text) is None:
            self.walk(items[i + 3].items, ctx)
            self.inline(ctx, ("Peer", items[i + 2].text), t.line)
            self.rec["peer-call"] = self.rec.get("peer-call", 0) + 1
            return 4
        # ---- Type::func(.., &chain, ..): an associated function (no self) that is handed the chain (api/src/types.rs
        # OutputPrintable::from_output, BlockPrintable::from_block, …: one more look-up per printed item)
        if t.kind == "id" and is_p(at(items, i + 1), "::") and is_id(at(items, i + 2)) and is_grp(at(items, i + 3), "(") \
                and not is_p(prev, "::") and (t.text, items[i + 2].text) in self.fns:
            fd = self.fns[(t.text, items[i + 2].text)]
            if not fd.has_self and "chain" in fd.params:
                self.walk(items[i + 3].items, ctx)
                self.inline(ctx, (t.text, items[i + 2].text), t.line)
                self.rec["assoc-fn-with-chain"] = self.rec.get("assoc-fn-with-chain", 0) + 1
                return 4
        # ---- h.NAME(args) on a handler object built in this function (foreign.rs / owner.rs)
        if t.kind == "id" and t.text in ctx.get("objs", {}) and not is_p(prev, ".") and is_p(at(items, i + 1), ".") \
                and is_id(at(items, i + 2)) and is_grp(at(items, i + 3), "("):
            if self.call_method(ctx, ctx["objs"][t.text], items[i + 2].text, items[i + 3], t.line, must=True):
                self.rec["api-wrapper"] = self.rec.get("api-wrapper", 0) + 1
                return 4
        # ---- chain.NAME(args): `chain` a parameter (mine_block.rs)
        if is_id(t, "chain") and ("chain" in ctx.get("params", ()) or (impl or "").endswith("Handler") and impl != "Handler") and not is_p(prev, ".") and not is_p(prev, "::") \
                and is_p(at(items, i + 1), ".") and is_id(at(items, i + 2)) and is_grp(at(items, i + 3), "("):
            return 1 + self.chain_call(items, i + 1, ctx)
        # ---- direct pool lock call followed by a method: self.tx_pool.read().NAME(args)
        lc = self.lock_call_at(items, i, ctx)
        if lc and lc[0] in GUARD_OBJECT and is_p(at(items, i + lc[2]), ".") and is_id(at(items, i + lc[2] + 1)) \
                and is_grp(at(items, i + lc[2] + 2), "("):
            lock, mode, k = lc
            self.acquire(ctx, lock, mode, t.line)
            ctx["temps"][-1].append(lock)
            self.recognised["temp"] += 1
            if self.call_method(ctx, GUARD_OBJECT[lock], items[i + k + 1].text, items[i + k + 2], t.line):
                self.rec["guard-method"] += 1
                return k + 3
            return k
        # ---- GUARDVAR.NAME(args) / GUARDVAR.txpool.NAME(args)
        if t.kind == "id" and not is_p(prev, ".") and not is_p(prev, "::") and is_p(at(items, i + 1), "."):
            lock = self.guard_lock_of(ctx, t.text)
            if lock in GUARD_OBJECT and is_id(at(items, i + 2)):
                obj = GUARD_OBJECT[lock]
                if is_grp(at(items, i + 3), "("):
                    if self.call_method(ctx, obj, items[i + 2].text, items[i + 3], t.line):
                        self.rec["guard-method"] += 1
                        return 4
                elif is_p(at(items, i + 3), ".") and is_id(at(items, i + 4)) and is_grp(at(items, i + 5), "(") \
                        and (obj, items[i + 2].text) in self.subobjects:
                    if self.call_method(ctx, self.subobjects[(obj, items[i + 2].text)], items[i + 4].text, items[i + 5], t.line):
                        self.rec["guard-method"] += 1
                        return 6
            # d.NAME(args) under the desegmenter guard
            if is_id(at(items, i + 2)) and is_grp(at(items, i + 3), "(") and self.holds(ctx, "c_deseg") \
                    and ("Desegmenter::" + items[i + 2].text) in self.chain_table and t.text not in ("self",):
                self.walk(items[i + 3].items, ctx)
                for e in self.chain_events("Desegmenter::" + items[i + 2].text, t.line, strip_wrapper=True):
                    self.emit(ctx, e)
                self.rec["deseg"] += 1
                return 4
            # adapter.NAME(args): the dandelion adapter handed to the monitor
            if t.text in IDENT_OBJECTS and t.text in ctx.get("params", ()) and is_id(at(items, i + 2)) and is_grp(at(items, i + 3), "("):
                if self.call_method(ctx, IDENT_OBJECTS[t.text], items[i + 2].text, items[i + 3], t.line):
                    self.rec["dispatch"] += 1
                    return 4
        # ---- self.FIELD.NAME(args) dispatched to the concrete implementation
        if is_id(t, "self") and is_p(at(items, i + 1), ".") and is_id(at(items, i + 2)) and is_p(at(items, i + 3), ".") \
                and is_id(at(items, i + 4)) and is_grp(at(items, i + 5), "(") and (impl, items[i + 2].text) in DISPATCH_FIELDS:
            target = DISPATCH_FIELDS[(impl, items[i + 2].text)]
            name = items[i + 4].text
            if name in ("clone", "as_ref"):
                return 6
            self.call_method(ctx, target, name, items[i + 5], t.line, must=True)
            self.rec["dispatch"] += 1
            return 6
        return 0

    def p2p_call(self, ctx, name, args, line):
        """a call of a Peers method: its events when it is a pub fn of impl Peers taking self, else a `!callback` mark"""
        self.walk(args.items, ctx)
        if ("Peers", name) in self.fns and self.fns[("Peers", name)].has_self:
            self.inline(ctx, ("Peers", name), line)
            self.rec["p2p-resolved"] = self.rec.get("p2p-resolved", 0) + 1
        else:
            self.emit(ctx, ("mark", "callback", line))
        self.rec["p2p"] += 1

    def chain_call(self, items, j, ctx):
        """items[j:] = . NAME (args) [? . write ( )]; returns tokens consumed"""
        name, args = items[j + 1].text, items[j + 2]
        line = items[j + 1].line
        self.walk(args.items, ctx)
        if name in ARC_GETTERS:
            return 3
        if name not in self.chain_table:
            self.die(f"line {line}: call of Chain::{name} which is not an entry of the chain-level lock table")
        for e in self.chain_events(name, line):
            self.emit(ctx, e)
        self.rec["chain-op"] += 1
        self.chain_ops_used.add(name)
        k = 3
        if name == "desegmenter":
            q = j + 3
            if is_p(at(items, q), "?"): q += 1
            if is_p(at(items, q), ".") and is_id(at(items, q + 1)) and items[q + 1].text in ("write", "read", "try_write") \
                    and is_grp(at(items, q + 2), "(") and not items[q + 2].items:
                self.acquire(ctx, "c_deseg", "W" if items[q + 1].text != "read" else "R", line)
                ctx["temps"][-1].append("c_deseg")
                k = q + 3 - j
        return k

    def stmt(self, st, ctx, sc):
        # `let h = SomeHandler { chain: self.chain.clone(), .. };` (api/src/foreign.rs, owner.rs): remember the type of `h`
        if is_id(st[0], "let"):
            j = 2 if is_id(at(st, 1), "mut") else 1
            if is_id(at(st, j)) and is_p(at(st, j + 1), "=") and is_id(at(st, j + 2)) and is_grp(at(st, j + 3), "{") \
                    and len(st) == j + 4 and st[j + 2].text.endswith("Handler"):
                ctx.setdefault("objs", {})[st[j].text] = st[j + 2].text
        # `let x[: T] = &[mut] <lock call>;` - the temporary guard's lifetime is extended to the end of the
        # enclosing block (types.rs SyncState::update_header_sync): a block-scoped guard
        if is_id(st[0], "let"):
            eq = next((k for k, x in enumerate(st) if is_p(x, "=")), None)
            if eq is not None and is_p(at(st, eq + 1), "&"):
                j = eq + 2
                if is_id(at(st, j), "mut"): j += 1
                lc = self.lock_call_at(st, j, ctx)
                if lc and len(st) == j + lc[2]:
                    var = st[2].text if is_id(st[1], "mut") else st[1].text
                    self.acquire(ctx, lc[0], lc[1], st[j].line)
                    sc.guards.append(G.Guard(lc[0], var, st[j].line))
                    self.recognised["guard"] += 1
                    return
            # `let [mut] g = <lock call>.ok_or_else(..)?;` / `let [mut] g = match <lock call> { Some(g) => g, None => .. };`
            # (p2p/src/peers.rs, timed acquisitions): the guard is moved into `g`, alive to the end of the block
            if eq is not None:
                j = eq + 1
                is_match = is_id(at(st, j), "match")
                if is_match: j += 1
                lc = self.lock_call_at(st, j, ctx)
                if lc:
                    rest = st[j + lc[2]:]
                    ok_or = len(rest) >= 3 and is_p(rest[0], ".") and is_id(rest[1]) and rest[1].text in ("ok_or_else", "ok_or", "unwrap", "expect")
                    if (is_match and len(rest) == 1 and is_grp(rest[0], "{")) or ok_or:
                        var = st[2].text if is_id(st[1], "mut") else st[1].text
                        self.acquire(ctx, lc[0], lc[1], st[j].line)
                        sc.guards.append(G.Guard(lc[0], var, st[j].line))
                        self.recognised["guard"] += 1
                        # the rest (closure of ok_or_else / arms of the match) may not lock
                        self.scratch(rest, ctx, f"tail of the guard binding at line {st[0].line}")
                        return
        super().stmt(st, ctx, sc)

    def inline(self, ctx, key, line):
        # direct self-recursion (TransactionPool::add_to_pool re-enters itself once with stem = false): with
        # no guard of this function live at the call site the recursive run acquires what the body acquires,
        # from the same held set - already in the sequence being emitted
        if self.active and key == self.active[-1]:
            live = [g for sc in ctx["scopes"] for g in sc.guards if g.live] + [l for ts in ctx["temps"] for l in ts]
            if live:
                self.die(f"line {line}: {key[0]}::{key[1]} calls itself while holding {live}")
            self.rec["self-recursion"] = self.rec.get("self-recursion", 0) + 1
            return
        super().inline(ctx, key, line)

    def events(self, key):
        if key in self.memo: return self.memo[key]
        if key in self.active:
            self.die(f"recursive call cycle through {key[0]}::{key[1]} — cannot inline; stack {self.active}")
        self.active.append(key)
        fd = self.fns[key]
        ctx = {"impl": fd.impl, "out": [], "scopes": [], "temps": [], "fn": fd.name, "scratch": 0,
               "status": False, "params": fd.params}
        self.block(fd.body.items, ctx, plain=True)
        self.active.pop()
        self.memo[key] = ctx["out"]
        return ctx["out"]

    def scratch(self, items, ctx, what):
        sub = {"impl": ctx["impl"], "out": [], "scopes": [G.Scope(False)], "temps": [[]], "fn": ctx["fn"], "scratch": 1,
               "status": False, "params": ctx.get("params", ())}
        self.walk(items, sub, stmt_start=False)
        for lock in reversed(sub["temps"][0]):
            sub["out"].append(("rel", lock))
        if sub["out"]:
            # a stored closure / binding tail that locks: accepted when it releases everything it takes (it holds
            # nothing when it returns); its events are emitted where it is WRITTEN - an approximation: the held set
            # at its call sites is assumed to be the one at its definition (body_sync.rs `peers_iter`, called at
            # once).  Anything else kills the generator.
            held = []
            for e in sub["out"]:
                if e[0] == "acq": held.append(e[1])
                elif e[0] == "rel":
                    if e[1] in held: held.remove(e[1])
                    else: self.die(f"{what} in fn {ctx['fn']} releases a lock it did not take")
            if held:
                self.die(f"{what} in fn {ctx['fn']} acquires locks it keeps; its execution context is unknown")
            for e in sub["out"]:
                self.emit(ctx, e)
            self.rec["stored-closure-inlined"] = self.rec.get("stored-closure-inlined", 0) + 1


def lean_lock(l):
    return f"(.chain .{l[2:]})" if l.startswith("c_") else f".{l}"


def lean_ev(e):
    if e[0] == "acq": return f".acq {lean_lock(e[1])} .{e[2]}"
    if e[0] == "rel": return f".rel {lean_lock(e[1])}"
    return f".mark .{e[1]}"


def show(evs):
    out = []
    for e in evs:
        if e[0] == "acq": out.append(f"+{e[1].replace('c_', 'chain.')}.{e[2]}")
        elif e[0] == "rel": out.append(f"-{e[1].replace('c_', 'chain.')}")
        else: out.append(f"!{e[1]}")
    return " ".join(out)


def generate(repo_root, die):
    chain_rows = G.chain_level_rows(repo_root, die)
    chain_table = {name: evs for name, _, evs in chain_rows}
    items = []
    for f in FILES:
        p = os.path.join(repo_root, f)
        if not os.path.exists(p): die(f"gen_locks_node: missing {p}")
        src = G.strip_comments_strings(open(p).read())
        items += G.tokenize(src, die, f)
    tr = NodeTranslator(items, die, chain_table)

    # the structs must carry exactly the lock fields of the node alphabet
    for sname in ("NetToChainAdapter", "ChainToPoolAndNetAdapter", "PoolToNetAdapter", "PoolToChainAdapter",
                  "TransactionPool", "Pool", "SyncState", "Peers", "StateSync", "HeaderSync", "BodySync", "SyncRunner"):
        if sname not in tr.structs: die(f"gen_locks_node: struct {sname} not found")
        for f, ty in tr.structs[sname].items():
            if ("RwLock" in ty or "Mutex" in ty) and (sname, f) not in NODE_LOCK_FIELDS:
                die(f"gen_locks_node: {sname}.{f} : {ty} is a lock that is not in the node alphabet")
    for (s, f) in NODE_LOCK_FIELDS:
        ty = tr.structs.get(s, {}).get(f, "")
        if "RwLock" not in ty and "Mutex" not in ty:
            die(f"gen_locks_node: expected lock field {s}.{f} : RwLock / Mutex is gone")
    for (s, f), target in DISPATCH_FIELDS.items():
        ty = tr.structs.get(s, {}).get(f)
        if ty is None: die(f"gen_locks_node: {s}.{f} is gone")

    # roots: every fn with a self receiver of the adapters, every pub fn of TransactionPool / SyncState,
    # the free functions of the miner and of the dandelion monitor
    roots = []
    for (impl, name), fd in sorted(tr.fns.items(), key=lambda kv: (str(kv[0][0]), kv[1].line)):
        if impl in ("NetToChainAdapter", "ChainToPoolAndNetAdapter", "PoolToNetAdapter", "PoolToChainAdapter") and fd.has_self:
            if name in ("chain", "peers", "init", "set_chain"): continue
            roots.append((impl + "::" + name, (impl, name)))
        elif impl in ("TransactionPool", "SyncState") and fd.has_self and fd.pub:
            roots.append((impl + "::" + name, (impl, name)))
        elif impl == "SyncState" and fd.has_self and name.startswith("on_"):
            roots.append((impl + "::" + name, (impl, name)))
        elif impl in SYNC_IMPLS and fd.has_self and (fd.pub or name in ("sync_loop", "continue_pibd", "body_sync", "header_sync")):
            roots.append((impl + "::" + name, (impl, name)))
        elif impl in ("Peer", "TrackingAdapter", "Handler", "WorkersList", "StratumServer", "Miner") and fd.has_self:
            roots.append((("Stratum" if impl == "Handler" else impl) + "::" + name, (impl, name)))
        elif impl is not None and impl.endswith("Handler") and impl != "Handler" and fd.has_self:
            roots.append(("api::" + impl + "::" + name, (impl, name)))
        elif impl in ("Foreign", "Owner") and fd.has_self and fd.pub:
            roots.append(("api::" + impl + "::" + name, (impl, name)))
        elif impl is None and name in ("get_output", "get_output_v2", "update_pool"):
            roots.append(("api::" + name, (None, name)))
        elif impl == "Peers" and fd.has_self:
            roots.append((impl + "::" + name, (impl, name)))
        elif impl is None and name in ("get_block", "build_block", "monitor_transactions", "process_fluff_phase",
                                       "process_expired_entries"):
            roots.append((("mine_block::" if name in ("get_block", "build_block") else "dandelion_monitor::") + name, (None, name)))
    table = [(n, tr.events(k)) for n, k in roots]
    names = [n for n, _ in table]
    for must in ("NetToChainAdapter::transaction_received", "NetToChainAdapter::block_received",
                 "NetToChainAdapter::process_block", "NetToChainAdapter::header_received",
                 "NetToChainAdapter::headers_received", "NetToChainAdapter::locate_headers",
                 "NetToChainAdapter::txhashset_write", "NetToChainAdapter::receive_bitmap_segment",
                 "ChainToPoolAndNetAdapter::block_accepted", "PoolToNetAdapter::stem_tx_accepted",
                 "PoolToChainAdapter::validate_tx", "TransactionPool::add_to_pool", "TransactionPool::reconcile_block",
                 "TransactionPool::reconcile_reorg_cache", "TransactionPool::prepare_mineable_transactions",
                 "SyncState::update", "SyncState::on_setup", "mine_block::build_block",
                 "dandelion_monitor::process_fluff_phase", "dandelion_monitor::process_expired_entries"):
        if must not in names: die(f"gen_locks_node: {must} not found")
    n_acq = sum(1 for _, evs in table for e in evs if e[0] == "acq")
    if n_acq < 100: die(f"gen_locks_node: only {n_acq} acquisitions found: parse went wrong")
    used = sorted(tr.chain_ops_used)
    print(f"gen_locks_node: {len(table)} node-level entries, {n_acq} acquisitions after inlining; recognised: {tr.rec} {tr.recognised}; "
          f"chain ops reached: {len(used)}", file=sys.stderr)

    L = ["import GrinVerif.Model.ConcNode",
         "/-! GENERATED by tools/gen_locks_node.py (plug-in of gen_tables.py) from /repo/servers/src/common/adapters.rs,",
         "pool/src/pool.rs, pool/src/transaction_pool.rs, chain/src/types.rs, servers/src/mining/mine_block.rs,",
         "servers/src/grin/dandelion_monitor.rs and the chain-level table of gen_locks.py on every check run. Do not edit.",
         "",
         "One entry per node-level entry point; calls into the chain are the chain-level entries inlined",
         "(`chain.x` = lock x of Gen/Locks.lean), with Chain's `!callback` replaced by",
         "ChainToPoolAndNetAdapter::block_accepted and `!status` by SyncState::update.",
         f"chain ops reached from node level: {', '.join(used)}",
         "Sites:"]
    for n, evs in table:
        L.append(f"  {n}: {show(evs) or '(lock-free)'}")
    L += ["-/", "namespace GV.Gen", "open GV.Conc", "",
          "/-! the node table in four chunks (kernel evaluation is decided per chunk) -/"]
    q = (len(table) + 3) // 4
    for ci in range(4):
        L.append(f"def nodeTable{ci + 1} : List (String × List (Ev NLock)) := [")
        L.append(",\n".join(f"  (\"{n}\", [{', '.join(lean_ev(e) for e in evs)}])" for n, evs in table[ci * q:(ci + 1) * q]))
        L += ["]", ""]
    L += ["def nodeTable : List (String × List (Ev NLock)) := nodeTable1 ++ nodeTable2 ++ nodeTable3 ++ nodeTable4", "",
          "/-- every entry of the chain-level table (Gen/Locks.lean) as it runs inside a node: `!callback` =",
          "ChainToPoolAndNetAdapter::block_accepted, `!status` = SyncState::update (threads of servers/src/grin/sync and",
          "the api call these directly) -/",
          "def chainTableN : List (String × List (Ev NLock)) := ["]
    L.append(",\n".join(f"  (\"Chain::{n}\", [{', '.join(lean_ev(e) for e in tr.chain_events(n, 0))}])" for n, _, _ in chain_rows))
    L += ["]", "", "/-- the chain-level ops that node-level code calls -/",
          "def chainOpsReached : List String := [" + ", ".join(f"\"{u}\"" for u in used) + "]", "", "end GV.Gen"]
    return {"LocksNode.lean": "\n".join(L) + "\n"}


if __name__ == "__main__":

    def _die(m):
        print(m); sys.exit(1)
    out = generate(os.environ.get("VERIF_REPO", "/repo"), _die)
    sys.stdout.write(out["LocksNode.lean"])
