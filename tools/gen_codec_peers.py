#!/usr/bin/env python3
"""Generator plug-in for tools/gen_tables.py: regenerates lean/GrinVerif/Gen/CodecPeers.lean from
/repo/p2p/src/serv.rs, peers.rs, store.rs, types.rs, peer.rs and /repo/servers/src/grin/seed.rs on every run -
the decisions ABOVE one connection:

* `checkUndesirablePaths`: every path through `Server::check_undesirable` (serv.rs) with its result, walked
  statement by statement (`if`, `if let`, `match` arms), and the operator / operands of the inbound limit;
* `broadcastArms`: the arms of `match inner(&p)` in `Peers::broadcast` (peers.rs) with what they do, and that
  the loop runs over `self.iter().connected()`; which `Peer::send_*` each `broadcast_*` uses;
* the peer limits of types.rs; `enum State` of store.rs with its discriminants; which timestamp
  `PeerStore::update_state` sets for which new state; `Peers::ban_peer` / `unban_peer` / `is_banned` shapes;
  the unban rule of `monitor_peers` (seed.rs: `interval >= config.ban_window()`), `BAN_WINDOW`;
* `Peer::is_connected` / `is_banned` (peer.rs): the ONLY writer of the per-connection state is `set_banned`;
* `Peer::stop` / `wait`: `try_lock` on `stop_handle`; `Peer::send`: `send_handle.lock()` held over `try_send` only.

A change of shape stops the generator; a change of content changes the definitions and with them the theorems
of Props/C19Peers.lean."""
import re, os, sys
sys.path.insert(0, os.path.dirname(os.path.abspath(__file__)))
import gen_codec_dispatch as gd


def _split_with_match(block, die, where):
    """like gd._split_items, but a statement that is a `match` becomes ('match', scrutinee, [(pattern, items)])"""
    items = []
    i, n = 0, len(block)
    while i < n:
        while i < n and block[i] in " \t\n;":
            i += 1
        if i >= n:
            break
        if re.match(r"match\b", block[i:]):
            j, depth = i + 5, 0
            while j < n and not (block[j] == "{" and depth == 0):
                if block[j] in "([":
                    depth += 1
                elif block[j] in ")]":
                    depth -= 1
                j += 1
            scrut = " ".join(block[i + 5:j].split())
            k = gd._match(block, j, "{", "}")
            inner = block[j + 1:k - 1]
            arms, p = [], 0
            while p < len(inner):
                while p < len(inner) and inner[p] in " \t\n,":
                    p += 1
                if p >= len(inner):
                    break
                q = inner.find("=>", p)
                if q < 0:
                    die(f"gen_codec_peers: {where}: match arm without =>")
                pat = " ".join(inner[p:q].split())
                r = q + 2
                while r < len(inner) and inner[r] in " \t\n":
                    r += 1
                if inner[r] == "{":
                    e = gd._match(inner, r, "{", "}")
                    body = inner[r + 1:e - 1]
                else:
                    e, depth = r, 0
                    while e < len(inner) and not (inner[e] == "," and depth == 0):
                        if inner[e] in "([{":
                            depth += 1
                        elif inner[e] in ")]}":
                            depth -= 1
                        e += 1
                    body = inner[r:e]
                arms.append((pat, _split_with_match(body, die, where)))
                p = e
            items.append(("match", scrut, arms))
            i = k
        elif re.match(r"if\b", block[i:]):
            j, depth = i + 2, 0
            while j < n and not (block[j] == "{" and depth == 0):
                if block[j] in "([":
                    depth += 1
                elif block[j] in ")]":
                    depth -= 1
                j += 1
            cond = " ".join(block[i + 2:j].split())
            k = gd._match(block, j, "{", "}")
            then_items = _split_with_match(block[j + 1:k - 1], die, where)
            else_items = None
            m = re.match(r"\s*else\s*\{", block[k:])
            if m:
                e0 = k + m.end() - 1
                e1 = gd._match(block, e0, "{", "}")
                else_items = _split_with_match(block[e0 + 1:e1 - 1], die, where)
                k = e1
            items.append(("if", cond, then_items, else_items))
            i = k
        else:
            j, depth = i, 0
            while j < n:
                c = block[j]
                if c in "([{":
                    depth += 1
                elif c in ")]}":
                    depth -= 1
                elif c == ";" and depth == 0:
                    break
                j += 1
            items.append(("stmt", block[i:j]))
            i = j + 1
    return items


def _bool_paths(items, die, where):
    def walk(items, conds):
        done, open_ = [], [conds]
        for it in items:
            if not open_:
                break
            if it[0] == "stmt":
                m = re.fullmatch(r"\s*(?:return\s+)?(true|false)\s*", it[1])
                if m:
                    done += [(c, m.group(1) == "true") for c in open_]
                    open_ = []
                elif re.search(r"\breturn\b", it[1]):
                    die(f"gen_codec_peers: {where}: return of something other than a literal")
            elif it[0] == "if":
                _, cond, then_items, else_items = it
                nxt = []
                for c in open_:
                    d1, o1 = walk(then_items, c + [cond])
                    done += d1
                    nxt += o1
                    if else_items is None:
                        nxt.append(c + ["!(" + cond + ")"])
                    else:
                        d2, o2 = walk(else_items, c + ["!(" + cond + ")"])
                        done += d2
                        nxt += o2
                open_ = nxt
            else:
                _, scrut, arms = it
                nxt = []
                for c in open_:
                    for pat, sub in arms:
                        d1, o1 = walk(sub, c + [scrut + " => " + pat])
                        done += d1
                        nxt += o1
                open_ = nxt
        return done, open_
    done, open_ = walk(items, [])
    if open_:
        die(f"gen_codec_peers: {where}: a path without a boolean result")
    return done


def generate(repo_root, die):
    def src(rel):
        p = os.path.join(repo_root, rel)
        if not os.path.exists(p):
            die(f"gen_codec_peers: missing {rel}")
        return open(p).read()

    serv, peers, store, types, peer = (src("p2p/src/" + f) for f in ("serv.rs", "peers.rs", "store.rs", "types.rs", "peer.rs"))
    seed = src("servers/src/grin/seed.rs")
    L = gd.lean_str_list
    esc = lambda x: x.replace("\\", "\\\\").replace('"', '\\"')
    out = ["/-! GENERATED by tools/gen_codec_peers.py (plug-in of gen_tables.py) from /repo/p2p/src/serv.rs, peers.rs, store.rs,",
           "types.rs, peer.rs and /repo/servers/src/grin/seed.rs on every run. Do not edit. -/",
           "namespace GV.Gen.CodecPeers", ""]

    # ---- check_undesirable ------------------------------------------------------------------------------
    m = re.search(r"fn check_undesirable\(&self, stream: &TcpStream\) -> bool \{\n(.*?)\n\t\}\n", serv, flags=re.S)
    if not m:
        die("gen_codec_peers: Server::check_undesirable not found")
    body = gd._strip_log_macros(gd._strip_comments(m.group(1)))
    paths = _bool_paths(_split_with_match(body, die, "check_undesirable"), die, "check_undesirable")
    out.append("/-- `Server::check_undesirable` (serv.rs): every path, (branch conditions in order, refuse?) -/")
    out.append("def checkUndesirablePaths : List (List String × Bool) :=\n  [" +
               ",\n   ".join(f'({L([esc(c) for c in cs])}, {"true" if v else "false"})' for cs, v in paths) + "]")
    m = re.search(r"if self\.peers\.iter\(\)\.inbound\(\)\.connected\(\)\.count\(\) as u32\s*(>=|>|==|<=|<)\s*"
                  r"self\.config\.(\w+)\(\) \+ self\.config\.(\w+)\(\)", body)
    if not m:
        die("gen_codec_peers: check_undesirable: the inbound limit changed shape")
    out.append(f'def inboundLimitOp : String := "{m.group(1)}"')
    out.append(f'def inboundLimitTerms : List String := {L([m.group(2), m.group(3)])}')
    for c in ("PEER_MAX_INBOUND_COUNT", "PEER_MAX_OUTBOUND_COUNT", "PEER_MIN_PREFERRED_OUTBOUND_COUNT", "PEER_LISTENER_BUFFER_COUNT"):
        mm = re.search(r"^const " + c + r": u32 = (\d+);", types, flags=re.M)
        if not mm:
            die(f"gen_codec_peers: {c} not found")
        out.append(f"def {c} : Nat := {mm.group(1)}")
    # where the accept loop uses it: refused connections are shut down, not handed to the handshake
    if not re.search(r"if self\.check_undesirable\(&stream\) \{.*?stream\.shutdown\(Shutdown::Both\).*?continue;", gd._strip_comments(serv), flags=re.S):
        die("gen_codec_peers: the accept loop no longer shuts an undesirable connection down before the handshake")
    out.append("")

    # ---- Peers::broadcast -----------------------------------------------------------------------------------
    m = re.search(r"fn broadcast<F>\(&self, obj_name: &str, inner: F\) -> u32.*?\{\s*let mut count = 0;\s*"
                  r"for p in self\.iter\(\)\.connected\(\) \{\s*match inner\(&p\) \{(.*?)\n\t\t\t\}\n\t\t\}\n\t\tcount\n\t\}", peers, flags=re.S)
    if not m:
        die("gen_codec_peers: Peers::broadcast changed shape")
    arms_txt = gd._strip_log_macros(gd._strip_comments(m.group(1)))
    arms = []
    for pat, act in (("Ok(true)", r"Ok\(true\) => count \+= 1,"), ("Ok(false)", r"Ok\(false\) => \(\),")):
        if not re.search(act, arms_txt):
            die(f"gen_codec_peers: Peers::broadcast: arm {pat} changed")
    arms.append(("Ok(true)", "count"))
    arms.append(("Ok(false)", "nothing"))
    if not re.search(r"Err\(e\) => \{.*?p\.stop\(\);\s*peers\.remove\(&p\.info\.addr\);\s*\}", arms_txt, flags=re.S):
        die("gen_codec_peers: Peers::broadcast: the Err arm (stop the peer, remove it from the map) changed")
    arms.append(("Err(e)", "stop+remove"))
    if len(re.findall(r"=>", arms_txt)) != 5:  # 3 arms + the two arms of the inner lock match
        die("gen_codec_peers: Peers::broadcast: number of arms changed")
    out.append("/-- `Peers::broadcast` (peers.rs): over `self.iter().connected()`, the arms of `match inner(&p)` -/")
    out.append("def broadcastArms : List (String × String) := [" + ", ".join(f'("{a}", "{b}")' for a, b in arms) + "]")
    users = re.findall(r"pub fn (broadcast_\w+)\(&self,[^)]*\)\s*\{\s*let count = self\.broadcast\(\"[^\"]*\", \|p\| p\.(send_\w+)\(", peers)
    if not users:
        die("gen_codec_peers: no broadcast_* function found")
    out.append("/-- which `Peer::send_*` each `Peers::broadcast_*` hands to `broadcast` -/")
    out.append("def broadcastUsers : List (String × String) := [" + ", ".join(f'("{a}", "{b}")' for a, b in users) + "]")
    if len(re.findall(r"self\.broadcast\(", peers)) != len(users):
        die("gen_codec_peers: a call of self.broadcast outside the understood broadcast_* functions")
    out.append("")

    # ---- the peer store state machine -----------------------------------------------------------------------
    m = re.search(r"pub enum State \{(.*?)\}", store, flags=re.S)
    if not m:
        die("gen_codec_peers: store.rs enum State not found")
    st = re.findall(r"(\w+) = (\d+),", m.group(1))
    out.append("/-- `enum State` of p2p/src/store.rs -/")
    out.append("def storeStates : List (String × Nat) := [" + ", ".join(f'("{a}", {b})' for a, b in st) + "]")
    m = re.search(r"peer\.flags = new_state;\s*if new_state == State::(\w+) \{\s*peer\.(\w+) = Utc::now\(\)\.timestamp\(\);\s*\} else \{\s*"
                  r"peer\.(\w+) = Utc::now\(\)\.timestamp\(\);\s*\}", store)
    if not m:
        die("gen_codec_peers: PeerStore::update_state changed shape")
    out.append("/-- `PeerStore::update_state`: (the state that stamps, the field it stamps, the field every other state stamps) -/")
    out.append(f'def updateStateStamps : String × String × String := ("{m.group(1)}", "{m.group(2)}", "{m.group(3)}")')
    if not re.search(r"pub fn is_banned\(&self, peer_addr: PeerAddr\) -> bool \{\s*if let Ok\(peer\) = self\.store\.get_peer\(peer_addr\) \{\s*"
                     r"return peer\.flags == State::Banned;\s*\}\s*false\s*\}", peers):
        die("gen_codec_peers: Peers::is_banned changed shape")
    m = re.search(r"pub fn unban_peer\(&self, peer_addr: PeerAddr\) -> Result<\(\), Error> \{(.*?)\n\t\}\n", peers, flags=re.S)
    if not m or not re.search(r"self\.get_peer\(peer_addr\)\?;\s*if self\.is_banned\(peer_addr\) \{\s*self\.update_state\(peer_addr, State::(\w+)\)\s*\} else \{\s*"
                              r"Err\(Error::PeerNotBanned\)", gd._strip_log_macros(gd._strip_comments(m.group(1)))):
        die("gen_codec_peers: Peers::unban_peer changed shape")
    un = re.search(r"self\.update_state\(peer_addr, State::(\w+)\)", m.group(1)).group(1)
    out.append(f'def unbanTarget : String := "{un}"')
    m = re.search(r"pub fn ban_peer\(&self, peer_addr: PeerAddr, ban_reason: ReasonForBan\) -> Result<\(\), Error> \{(.*?)\n\t\}\n", peers, flags=re.S)
    if not m:
        die("gen_codec_peers: Peers::ban_peer not found")
    bp = gd._strip_log_macros(gd._strip_comments(m.group(1)))
    steps = [k for k, rx in (("update_state:Banned", r"self\.update_state\(peer_addr, State::Banned\)\?;"),
                             ("send_ban_reason", r"peer\.send_ban_reason\(ban_reason\)\?;"),
                             ("set_banned", r"peer\.set_banned\(\);"), ("stop", r"peer\.stop\(\);"),
                             ("remove", r"peers\.remove\(&peer\.info\.addr\);"))
             if re.search(rx, bp)]
    pos = [re.search(rx, bp).start() for rx in (r"self\.update_state\(", r"peer\.send_ban_reason\(", r"peer\.set_banned\(", r"peer\.stop\(", r"peers\.remove\(") if re.search(rx, bp)]
    if len(steps) != 5 or pos != sorted(pos) or not re.search(r"None => Err\(Error::PeerNotFound\)", bp):
        die(f"gen_codec_peers: Peers::ban_peer: steps {steps} / order changed")
    out.append("/-- `Peers::ban_peer`: the steps in source order (the store first; not connected => `PeerNotFound` AFTER the store update) -/")
    out.append("def banPeerSteps : List String := " + L(steps))
    m = re.search(r"p2p::State::Banned => \{\s*let interval = Utc::now\(\)\.timestamp\(\) - x\.last_banned;\s*(?://[^\n]*\n\s*)*"
                  r"if interval (>=|>) config\.ban_window\(\) \{\s*if let Err\(e\) = peers\.unban_peer\(x\.addr\)", seed)
    if not m:
        die("gen_codec_peers: monitor_peers: the unban rule changed shape")
    out.append(f'def unbanOp : String := "{m.group(1)}"')
    m = re.search(r"^const BAN_WINDOW: i64 = (\d+)( \* \d+)*;", types, flags=re.M)
    if not m:
        die("gen_codec_peers: BAN_WINDOW not found in types.rs")
    val = eval(re.search(r"= ([\d *]+);", m.group(0)).group(1))
    out.append(f"def BAN_WINDOW : Nat := {val}")
    out.append("")

    # ---- Peers::clean_peers / add_connected -------------------------------------------------------------------
    m = re.search(r"pub fn clean_peers\((.*?)\n\t\}\n", peers, flags=re.S)
    if not m:
        die("gen_codec_peers: Peers::clean_peers not found")
    cp = gd._strip_log_macros(gd._strip_comments(m.group(1)))
    for _ in range(3):
        cp = re.sub(r"\{\s*;", "{", cp)
        cp = re.sub(r";\s*;", ";", cp)
    chain = re.search(r"for peer in self\.iter\(\) \{\s*let ref peer: &Peer = peer\.as_ref\(\);\s*"
                      r"if (peer\.is_banned\(\)) \{\s*rm\.push\(peer\.info\.addr\.clone\(\)\);\s*"
                      r"\} else if (!peer\.is_connected\(\)) \{\s*rm\.push\(peer\.info\.addr\.clone\(\)\);\s*"
                      r"\} else if (peer\.is_abusive\(\)) \{.*?let _ = self\.update_state\(peer\.info\.addr, State::(\w+)\);\s*rm\.push\(peer\.info\.addr\.clone\(\)\);\s*"
                      r"\} else \{\s*let \(stuck, diff\) = peer\.is_stuck\(\);\s*match self\.adapter\.total_difficulty\(\) \{\s*"
                      r"Ok\(total_difficulty\) => \{\s*if (stuck && diff (<|<=) total_difficulty) \{\s*"
                      r"let _ = self\.update_state\(peer\.info\.addr, State::(\w+)\);\s*rm\.push\(peer\.info\.addr\.clone\(\)\);\s*\}\s*\}\s*"
                      r"Err\(e\) => ,?\s*\}", cp, flags=re.S)
    if not chain:
        die("gen_codec_peers: clean_peers: the per-peer chain (banned / not connected / abusive / stuck) changed shape")
    out.append("/-- `Peers::clean_peers`, the per-peer chain in source order: (condition, store update, removed) -/")
    out.append('def cleanChain : List (String × String × Bool) := [' + ", ".join([
        f'("{chain.group(1)}", "", true)', f'("{chain.group(2)}", "", true)', f'("{chain.group(3)}", "{chain.group(4)}", true)',
        f'("{chain.group(5)}", "{chain.group(7)}", true)']) + "]")
    out.append(f'def stuckDiffOp : String := "{chain.group(6)}"')
    ob = re.search(r"let outbound_peers = \|\| self\.iter\(\)\.outbound\(\)\.connected\(\)\.into_iter\(\);\s*"
                   r"let excess_outgoing_count = outbound_peers\(\)\.count\(\)\.saturating_sub\(max_outbound_count\);\s*if excess_outgoing_count > 0 \{\s*"
                   r"let mut peer_infos: Vec<_> = outbound_peers\(\)\s*\.map\(\|x\| x\.info\.clone\(\)\)\s*\.filter\(\|x\| !preferred_peers\.contains\(&x\.addr\)\)\s*\.collect\(\);\s*"
                   r"peer_infos\.sort_unstable_by_key\(\|x\| x\.total_difficulty\(\)\);\s*let mut addrs = peer_infos\s*\.into_iter\(\)\s*\.map\(\|x\| x\.addr\)\s*"
                   r"\.take\(excess_outgoing_count\)\s*\.collect\(\);\s*rm\.append\(&mut addrs\);", cp)
    ib = re.search(r"let inbound_peers = \|\| self\.iter\(\)\.inbound\(\)\.connected\(\)\.into_iter\(\);\s*"
                   r"let excess_incoming_count = inbound_peers\(\)\.count\(\)\.saturating_sub\(max_inbound_count\);\s*if excess_incoming_count > 0 \{\s*"
                   r"let mut addrs: Vec<_> = inbound_peers\(\)\s*\.filter\(\|x\| !preferred_peers\.contains\(&x\.info\.addr\)\)\s*\.take\(excess_incoming_count\)\s*"
                   r"\.map\(\|x\| x\.info\.addr\)\s*\.collect\(\);\s*rm\.append\(&mut addrs\);", cp)
    if not ob or not ib or cp.find("outbound_peers") > cp.find("inbound_peers") or cp.find("for peer in self.iter()") > cp.find("outbound_peers"):
        die("gen_codec_peers: clean_peers: the excess outbound / inbound rules changed shape or order")
    out.append("/-- the excess rules, in source order: (direction, counted over, candidates, order, how many) -/")
    out.append('def cleanExcess : List (String × String × String × String × String) := ['
               '("outbound", "connected", "not preferred", "total_difficulty ascending", "count - max, saturating"), '
               '("inbound", "connected", "not preferred", "map order", "count - max, saturating")]')
    if not re.search(r"for addr in rm \{\s*let _ = peers\.get\(&addr\)\.map\(\|peer\| peer\.stop\(\)\);\s*peers\.remove\(&addr\);", cp):
        die("gen_codec_peers: clean_peers: the removal loop (stop, remove) changed shape")
    ac = re.search(r"let enough_outbound = self\.enough_outbound_peers\(\);.*?if (!enough_outbound \|\| !peer\.info\.is_outbound\(\)) \{[\s;]*peers\.insert\(peer_data\.addr, peer\);",
                   gd._strip_log_macros(gd._strip_comments(peers)), flags=re.S)
    eo = re.search(r"pub fn enough_outbound_peers\(&self\) -> bool \{\s*self\.iter\(\)\.outbound\(\)\.connected\(\)\.count\(\)\s*(>=|>)\s*self\.config\.(\w+)\(\) as usize", peers)
    if not ac or not eo:
        die("gen_codec_peers: add_connected / enough_outbound_peers changed shape")
    out.append(f'def addConnectedRule : String := "{ac.group(1)}"')
    out.append(f'def enoughOutbound : String × String := ("{eo.group(1)}", "{eo.group(2)}")')
    out.append("")

    # ---- the per-connection state and the two mutexes of Peer -------------------------------------------------
    writers = re.findall(r"\*self\.state\.write\(\) = State::(\w+);", peer)
    if writers != ["Banned"]:
        die(f"gen_codec_peers: peer.rs: writers of Peer.state: {writers} (only set_banned expected)")
    if not re.search(r"pub fn is_connected\(&self\) -> bool \{\s*State::Connected == \*self\.state\.read\(\)\s*\}", peer):
        die("gen_codec_peers: Peer::is_connected changed shape")
    out.append("/-- the values `Peer.state` is ever set to after construction (`Connected`) -/")
    out.append("def peerStateWrites : List String := " + L(writers))
    if not re.search(r"pub fn stop\(&self\) \{.*?match self\.stop_handle\.try_lock\(\) \{\s*Some\(handle\) => handle\.stop\(\),\s*None => error!", peer, flags=re.S) or \
       not re.search(r"pub fn wait\(&self\) \{.*?match self\.stop_handle\.try_lock\(\) \{\s*Some\(mut handle\) => handle\.wait\(\),\s*None => error!", peer, flags=re.S):
        die("gen_codec_peers: Peer::stop / wait (try_lock on stop_handle) changed shape")
    if not re.search(r"let msg = Msg::new\(msg_type, msg, self\.info\.version\)\?;\s*self\.send_handle\.lock\(\)\.send\(msg\)", peer):
        die("gen_codec_peers: Peer::send (serialise first, then send_handle.lock() over try_send only) changed shape")
    out.append("/-- (mutex, how it is taken, what runs under it) -/")
    out.append('def peerLocks : List (String × String × String) := [("send_handle", "lock", "try_send"), ("stop_handle", "try_lock", "stop"), ("stop_handle", "try_lock", "wait:join")]')
    out.append("")
    out.append("end GV.Gen.CodecPeers")
    return {"CodecPeers.lean": "\n".join(out) + "\n"}


if __name__ == "__main__":
    def _die(s):
        print("DIE", s)
        sys.exit(1)
    print(generate("/repo", _die)["CodecPeers.lean"])
