#!/bin/sh
# tools/keep_next.sh <Cxx> <round> <A|B> <checks run> <detection text> : file a confirmed seed of /tmp/seed/<Cxx>r<round>/out/<V>
# under the next free letter of seeded/<Cxx>-?/ (confirmation line taken from the seed's summary.txt)
P=$1; R=$2; V=$3; CHECKS=$4; DET=$5
D=/tmp/seed/${P}r${R}
CONF=$(grep "^$P-$V: CONFIRM" $D/summary.txt | sed "s/^$P-$V: //")
case "$CONF" in *"demo_clean_exit=0 demo_patched_exit=0"*|"") echo "not confirmed: $CONF"; exit 1;; esac
echo "$CONF" | grep -q "demo_clean_exit=0" || { echo "demo fails on clean tree: $CONF"; exit 1; }
echo "$CONF" | grep -q "suites_with_patch_exit=0" || { echo "suites fail with patch: $CONF"; exit 1; }
for L in A B C D E F G H I J K L M N O P Q R S T U V W X Y Z; do [ -d /verif/seeded/$P-$L ] || break; done
python3 /verif/tools/keep_seed.py $D/out/$V $P-$L "$CONF" "$CHECKS" "$DET"
