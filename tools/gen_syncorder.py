#!/usr/bin/env python3
"""Durable-write ORDER extractor for property C09 (plug-in of gen_tables.py).

Reads, on every check run,
  /repo/store/src/pmmr.rs                 `PMMRBackend::sync`            (order of the file flushes of ONE backend)
  /repo/store/src/types.rs                `AppendOnlyFile::flush`        (size file, set_len, write_all, sync_all)
  /repo/chain/src/txhashset/txhashset.rs  `extending`, `header_extending` (child commit, then which backend syncs in which order)
  /repo/chain/src/chain.rs                `process_block_single`         (pipe::process_block before batch.commit), `compact`
  and `PMMRBackend::check_compact`, `AppendOnlyFile::replace`, `TxHashSet::compact` (the compaction path)
and writes lean/GrinVerif/Gen/SyncOrder.lean (namespace GV.Gen.SyncOrder, data only: lists of
names in SOURCE ORDER).  Props/C09SyncOrder.lean holds the decided obligations: the step lists of
the crash models (`blockSteps`, `headerSteps`, `bodySteps`, `syncIns`, the kernel size-before-data
order) are the expansion of these lists, so a flush that is reordered in the source breaks an
obligation without any crash run having to hit the window.

READING RULES (text level).  Comments and string literals are blanked; a function body is the brace
block after the first `fn <name>` (with `<` or `(` after the name); inside it the listed patterns are
collected in the order of their first byte.  NOT SEEN: calls hidden behind other functions, macros,
conditional compilation, which branch of an `if` a statement is in (for `extending` only the
statements AFTER the last `.discard()` are taken: the commit branch is the last block of the
function).  FAIL CLOSED: anything unexpected gives `parseError := some ..` and empty lists; the
obligations then fail.  Never raises, never calls `die`.
"""
import os
import re
import sys


def blank(src):
    out = []
    i = 0
    n = len(src)
    while i < n:
        c = src[i]
        if src.startswith("//", i):
            j = src.find("\n", i)
            j = n if j < 0 else j
            out.append(" " * (j - i))
            i = j
        elif src.startswith("/*", i):
            j = src.find("*/", i + 2)
            j = n if j < 0 else j + 2
            out.append(re.sub(r"[^\n]", " ", src[i:j]))
            i = j
        elif c == '"':
            j = i + 1
            while j < n and src[j] != '"':
                j += 2 if src[j] == "\\" else 1
            out.append('"' + " " * (j - i - 1) + '"')
            i = j + 1
        else:
            out.append(c)
            i += 1
    return "".join(out)


def body(src, name):
    m = re.search(r"\bfn\s+" + re.escape(name) + r"\s*[<(]", src)
    if not m:
        raise ValueError(f"fn {name} not found")
    if len(re.findall(r"\bfn\s+" + re.escape(name) + r"\s*[<(]", src)) != 1:
        raise ValueError(f"fn {name} not unique")
    i = src.find("{", m.end())
    # skip a where-clause / generics: the body is the first `{` at paren depth 0 after the `)`
    depth = 0
    j = m.end() - 1
    while j < len(src):
        ch = src[j]
        if ch in "(<[":
            depth += 1 if ch != "<" else 0
        if ch == "(":
            pass
        if ch == ")":
            depth -= 1
        if ch == "{" and depth <= 0:
            i = j
            break
        j += 1
    d = 0
    for k in range(i, len(src)):
        if src[k] == "{":
            d += 1
        elif src[k] == "}":
            d -= 1
            if d == 0:
                return src[i + 1:k]
    raise ValueError(f"fn {name}: unbalanced braces")


def ordered(text, pats):
    hits = []
    for label, pat in pats:
        for m in re.finditer(pat, text):
            hits.append((m.start(), label))
    return [l for _, l in sorted(hits)]


def extract(root):
    rd = lambda p: blank(open(os.path.join(root, p)).read())
    pm = rd("store/src/pmmr.rs")
    ty = rd("store/src/types.rs")
    th = rd("chain/src/txhashset/txhashset.rs")
    ch = rd("chain/src/chain.rs")
    res = {}
    # PMMRBackend::sync: the chain of `.and(self.<call>)`
    b = body(pm, "sync")
    res["backendSync"] = [re.sub(r"\s+", "", x) for x in re.findall(r"\.and\(\s*self\.([a-z_\.]+)\(\)\s*\)", b)]
    # AppendOnlyFile::flush
    # the first `fn flush` of types.rs is DataFile::flush (a forwarder); take the one that calls set_len
    bodies = []
    for m in re.finditer(r"\bfn\s+flush\s*\(", ty):
        i = ty.find("{", m.end())
        d = 0
        for k in range(i, len(ty)):
            if ty[k] == "{":
                d += 1
            elif ty[k] == "}":
                d -= 1
                if d == 0:
                    bodies.append(ty[i + 1:k])
                    break
    real = [x for x in bodies if "set_len" in x]
    if len(real) != 1:
        raise ValueError("AppendOnlyFile::flush not unique")
    res["aofFlush"] = ordered(real[0], [("size_file.flush", r"size_file\.flush\(\)"), ("set_len", r"\.set_len\("),
                                        ("write_all", r"\.write_all\("), ("sync_all", r"\.sync_all\(\)")])
    # txhashset::extending: statements after the last discard()
    b = body(th, "extending")
    k = b.rfind(".discard()")
    if k < 0:
        raise ValueError("extending: no discard()")
    res["extendingCommit"] = ordered(b[k:], [("child_batch.commit", r"child_batch\.commit\(\)"),
                                             ("output.sync", r"trees\.output_pmmr_h\.backend\.sync\(\)"),
                                             ("rproof.sync", r"trees\.rproof_pmmr_h\.backend\.sync\(\)"),
                                             ("kernel.sync", r"trees\.kernel_pmmr_h\.backend\.sync\(\)")])
    b = body(th, "header_extending")
    k = b.rfind(".discard()")
    if k < 0:
        raise ValueError("header_extending: no discard()")
    res["headerExtendingCommit"] = ordered(b[k:], [("child_batch.commit", r"child_batch\.commit\(\)"),
                                                   ("header.sync", r"handle\.backend\.sync\(\)")])
    # compaction: PMMRBackend::check_compact, AppendOnlyFile::replace, TxHashSet::compact, Chain::compact
    b = body(pm, "check_compact")
    res["checkCompact"] = ordered(b, [("hash_file.write_tmp_pruned", r"hash_file\s*\.write_tmp_pruned\("),
                                      ("data_file.write_tmp_pruned", r"data_file\s*\.write_tmp_pruned\("),
                                      ("hash_file.replace_with_tmp", r"hash_file\.replace_with_tmp\(\)"),
                                      ("data_file.replace_with_tmp", r"data_file\.replace_with_tmp\(\)"),
                                      ("prune_list.flush", r"prune_list\.flush\(\)"),
                                      ("leaf_set.flush", r"leaf_set\.flush\(\)")])
    b = body(ty, "replace")
    res["aofReplace"] = ordered(b, [("remove_file", r"fs::remove_file\("), ("rename", r"fs::rename\(")])
    # TxHashSet::compact is the only `fn compact` of txhashset.rs
    b = body(th, "compact")
    res["txhashsetCompact"] = ordered(b, [("output.check_compact", r"output_pmmr_h\s*\.backend\s*\.check_compact\("),
                                          ("rproof.check_compact", r"rproof_pmmr_h\s*\.backend\s*\.check_compact\(")])
    b = body(ch, "compact")
    res["chainCompact"] = ordered(b, [("txhashset.compact", r"txhashset\.compact\("),
                                      ("remove_historical_blocks", r"remove_historical_blocks\("),
                                      ("batch.commit", r"\bbatch\.commit\(\)")])
    b = body(ch, "process_block_single")
    res["processBlockSingle"] = ordered(b, [("pipe.process_block", r"pipe::process_block\("),
                                            ("batch.commit", r"\bbatch\.commit\(\)")])
    return res


NAMES = ["backendSync", "aofFlush", "extendingCommit", "headerExtendingCommit", "processBlockSingle",
         "checkCompact", "aofReplace", "txhashsetCompact", "chainCompact"]


CODES = {"hash_file.flush": 1, "data_file.flush": 2, "sync_leaf_set": 3, "prune_list.flush": 4,
         "size_file.flush": 10, "set_len": 11, "write_all": 12, "sync_all": 13,
         "child_batch.commit": 20, "output.sync": 21, "rproof.sync": 22, "kernel.sync": 23, "header.sync": 24,
         "pipe.process_block": 30, "batch.commit": 31,
         "hash_file.write_tmp_pruned": 40, "data_file.write_tmp_pruned": 41, "hash_file.replace_with_tmp": 42,
         "data_file.replace_with_tmp": 43, "leaf_set.flush": 44, "remove_file": 45, "rename": 46,
         "output.check_compact": 50, "rproof.check_compact": 51, "txhashset.compact": 52,
         "remove_historical_blocks": 53}


def render(res, err):
    q = lambda s: '"' + s.replace("\\", "\\\\").replace('"', '\\"') + '"'
    out = ["/-! GENERATED by tools/gen_syncorder.py (plug-in of gen_tables.py) from /repo/store/src/pmmr.rs,",
           "store/src/types.rs, chain/src/txhashset/txhashset.rs, chain/src/chain.rs on every check run. Do not",
           "edit. Data only: durable-write calls in SOURCE ORDER, as codes (kernel-decidable); reading rules in",
           "the header of the generator; obligations in Props/C09SyncOrder.lean.",
           "Codes: " + ", ".join(f"{v} = {k}" for k, v in CODES.items()) + "; 0 = a call the generator does not know. -/",
           "namespace GV.Gen.SyncOrder", "",
           "/-- `some why` when a source could not be read (every obligation then fails) -/",
           f"def parseError : Option String := {'none' if err is None else 'some ' + q(err)}", ""]
    for n in NAMES:
        v = res.get(n, [])
        out.append(f"/-- {', '.join(v) if v else '(nothing read)'} -/")
        out.append(f"def {n} : List Nat := [{', '.join(str(CODES.get(x, 0)) for x in v)}]")
    out += ["", "end GV.Gen.SyncOrder", ""]
    return "\n".join(out)


def generate(repo_root, die):
    try:
        return {"SyncOrder.lean": render(extract(repo_root), None)}
    except BaseException as ex:  # noqa: fail closed
        return {"SyncOrder.lean": render({}, f"{type(ex).__name__}: {ex}")}


if __name__ == "__main__":
    sys.stdout.write(generate(sys.argv[1] if len(sys.argv) > 1 else os.environ.get("VERIF_REPO", "/repo"), None)["SyncOrder.lean"])
