#!/bin/sh
# tools/confirm_meta.sh <seed_out_dir> <crate>...  : confirm_seed.sh with demo destination / package / test read from meta.json
OUT="$1"; shift
DEST=$(jq -r .demo_dest "$OUT/meta.json"); PKG=$(jq -r .demo_pkg "$OUT/meta.json"); TEST=$(jq -r .demo_test "$OUT/meta.json")
exec /verif/tools/confirm_seed.sh "$OUT" "$DEST" "$PKG" "$TEST" "$@"
