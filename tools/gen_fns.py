#!/usr/bin/env python3
"""Plug-in of gen_tables.py: Gen/Fns*.lean = the whitelisted pure arithmetic Rust functions of /repo
translated to Lean by tools/rs2lean.py (see notes/xlate.md).  Never calls `die`: an untranslatable
function becomes a `-- UNTRANSLATABLE` comment, which breaks only the Props/Xlate* module naming it."""
from rs2lean import generate  # noqa: F401

if __name__ == "__main__":
    import sys, rs2lean
    sys.exit(rs2lean.main(sys.argv[1:]))
