#!/usr/bin/env python3
"""Chain-type parameter table for properties C04 / C05 (plug-in of gen_tables.py).

Reads /repo/core/src/global.rs and /repo/core/src/consensus.rs on every check run and writes
lean/GrinVerif/Gen/Params.lean (namespace GV.Gen.Params, data only): for every chain-type dependent
parameter function of global.rs the value of each of the four `ChainTypes` arms, the shape of
`consensus::header_version`, and the dispatch of `global::create_pow_context`.
Props/C04Params.lean holds the obligations (`decide`): the per-chain-type parameters the models use
(`Model/Cons.lean`, `Model/PowSelect.lean`, `Model/PowDiff.lean`, `Model/PowSize.lean`) equal this table.

WHAT IS READ (text level, comments removed):
 * `pub fn NAME() -> T { match get_chain_type() { ChainTypes::X => EXPR, ..., _ => EXPR, } }` for
   the functions in FUNCS: per chain type the arm that applies (explicit arm, `A | B` arm, or `_`).
   EXPR is `CONST` (resolved to a number through the `const` definitions of both files: literals,
   other constants, + - * / << >>, `as T`, parentheses) -> `num n`; `graph_weight(0, CONST)` with an
   optional `as u32` -> `gw0 eb as32`; anything else -> `unknown`.
 * `header_version`: per chain type `HeaderVersion(min(5, V))` with `V = (1 + height / CONST) as u16`
   -> `interval CONST`; an `if height < C1 {1} else if height < C2 {2} ...` chain -> `thresholds [C1..]`;
   anything else -> `hvUnknown`.
 * `valid_header_version`: the body is exactly `version == header_version(height)` (flag).
 * `create_pow_context`: the chain types of the `if chain_type == A || chain_type == B` test, the
   bound of `edge_bits > N`, the constructor above the bound, the `HeaderVersion(k) => new_X_ctx` arms,
   the default arm, the constructor of the `else` branch.
FAIL CLOSED: whatever is not recognised becomes `unknown` / an empty list, and the obligations of
Props/C04Params.lean then do not check.  Never raises, never calls `die`."""
import os
import re
import sys

CTS = ["AutomatedTesting", "UserTesting", "Testnet", "Mainnet"]
LEAN_CT = {"AutomatedTesting": "automatedTesting", "UserTesting": "userTesting", "Testnet": "testnet", "Mainnet": "mainnet"}
FUNCS = ["min_edge_bits", "base_edge_bits", "proofsize", "coinbase_maturity", "initial_block_difficulty",
         "initial_graph_weight", "min_wtema_graph_weight", "max_block_weight", "cut_through_horizon",
         "state_sync_threshold", "txhashset_archive_interval"]


def strip_comments(src):
    src = re.sub(r"/\*.*?\*/", "", src, flags=re.S)
    return re.sub(r"//[^\n]*", "", src)


def fn_body(src, name):
    m = re.search(r"\bfn\s+" + name + r"\s*(?:<[^>]*>)?\s*\(", src)
    if not m:
        return None
    i = src.find("{", m.end())
    if i < 0:
        return None
    depth, j = 0, i
    while j < len(src):
        if src[j] == "{":
            depth += 1
        elif src[j] == "}":
            depth -= 1
            if depth == 0:
                return src[i + 1:j]
        j += 1
    return None


class Consts:
    def __init__(self, srcs):
        self.defs = {}
        for s in srcs:
            for m in re.finditer(r"\bconst\s+([A-Z][A-Z0-9_]*)\s*:\s*[A-Za-z0-9_]+\s*=\s*(.*?);", s, flags=re.S):
                self.defs.setdefault(m.group(1), m.group(2))
        self.cache = {}

    def value(self, name, depth=0):
        if name in self.cache:
            return self.cache[name]
        if name not in self.defs or depth > 20:
            return None
        v = self.eval(self.defs[name], depth + 1)
        self.cache[name] = v
        return v

    def eval(self, expr, depth=0):
        toks = re.findall(r"[A-Za-z_][A-Za-z0-9_:]*|\d[\d_]*(?:[ui](?:8|16|32|64|128|size))?|<<|>>|[-+*/()]", expr)
        if "".join(toks).replace(" ", "") != re.sub(r"\s+", "", expr):
            return None
        pos = [0]

        def peek():
            return toks[pos[0]] if pos[0] < len(toks) else None

        def take():
            t = peek()
            pos[0] += 1
            return t

        def atom():
            t = take()
            if t is None:
                raise ValueError
            if t == "(":
                v = shift()
                if take() != ")":
                    raise ValueError
            elif t[0].isdigit():
                v = int(re.sub(r"[ui](?:8|16|32|64|128|size)$", "", t).replace("_", ""))
            else:
                nm = t.split("::")[-1]
                v = self.value(nm, depth)
                if v is None:
                    raise ValueError
            while peek() == "as":
                take()
                ty = take()
                bits = {"u8": 8, "u16": 16, "u32": 32, "u64": 64, "usize": 64, "u128": 128}.get(ty)
                if bits is None:
                    raise ValueError
                v %= 1 << bits
            return v

        def mul():
            v = atom()
            while peek() in ("*", "/"):
                op = take()
                w = atom()
                v = v * w if op == "*" else v // w
            return v

        def add():
            v = mul()
            while peek() in ("+", "-"):
                op = take()
                w = mul()
                v = v + w if op == "+" else v - w
                if v < 0:
                    raise ValueError
            return v

        def shift():
            v = add()
            while peek() in ("<<", ">>"):
                op = take()
                w = add()
                v = v << w if op == "<<" else v >> w
            return v

        try:
            v = shift()
            if pos[0] != len(toks):
                return None
            return v
        except (ValueError, ZeroDivisionError, RecursionError):
            return None


def match_arms(body):
    """arms of the first `match get_chain_type()` of a body: list of (patterns, expr)"""
    m = re.search(r"match\s+(?:global::)?get_chain_type\(\)\s*\{", body)
    if not m:
        return None
    depth, i, start = 1, m.end(), m.end()
    while i < len(body) and depth > 0:
        if body[i] in "{(":
            depth += 1
        elif body[i] in "})":
            depth -= 1
        i += 1
    inner = body[start:i - 1]
    out, k, n = [], 0, len(inner)
    while k < n:
        a = inner.find("=>", k)
        if a < 0:
            break
        pat = inner[k:a]
        j = a + 2
        while j < n and inner[j].isspace():
            j += 1
        if j < n and inner[j] == "{":
            depth, e = 0, j
            while e < n:
                if inner[e] == "{":
                    depth += 1
                elif inner[e] == "}":
                    depth -= 1
                    if depth == 0:
                        break
                e += 1
            ex = inner[j + 1:e]
            k = e + 1
            while k < n and (inner[k].isspace() or inner[k] == ","):
                k += 1
        else:
            depth, e = 0, j
            while e < n:
                if inner[e] in "{(":
                    depth += 1
                elif inner[e] in "})":
                    depth -= 1
                elif inner[e] == "," and depth == 0:
                    break
                e += 1
            ex = inner[j:e]
            k = e + 1
        pats = [q.strip().split("::")[-1] for q in pat.split("|")]
        out.append((pats, ex.strip()))
    return out


def arm_for(arms, ct):
    for pats, ex in arms:
        if ct in pats:
            return ex
    for pats, ex in arms:
        if pats == ["_"]:
            return ex
    return None


def val_of(consts, ex):
    if ex is None:
        return ".unknown"
    ex = ex.strip()
    m = re.fullmatch(r"graph_weight\(\s*0\s*,\s*([A-Z][A-Z0-9_]*)\s*\)(\s+as\s+u32)?", ex)
    if m:
        eb = consts.value(m.group(1))
        if eb is None:
            return ".unknown"
        return f".gw0 {eb} {'true' if m.group(2) else 'false'}"
    v = consts.eval(ex)
    return ".unknown" if v is None else f".num {v}"


def header_version(consts, src):
    body = fn_body(src, "header_version")
    res = {ct: ".hvUnknown" for ct in CTS}
    if body is None:
        return res
    lets = dict(re.findall(r"let\s+([a-z_]+)\s*=\s*\(\s*1\s*\+\s*height\s*/\s*([A-Z][A-Z0-9_]*)\s*\)\s*as\s+u16\s*;", body))
    arms = match_arms(body) or []
    for ct in CTS:
        ex = arm_for(arms, ct)
        if ex is None:
            continue
        inner_lets = dict(lets)
        inner_lets.update(re.findall(r"let\s+([a-z_]+)\s*=\s*\(\s*1\s*\+\s*height\s*/\s*([A-Z][A-Z0-9_]*)\s*\)\s*as\s+u16\s*;", ex))
        m = re.search(r"HeaderVersion\(\s*min\(\s*5\s*,\s*([a-z_]+)\s*\)\s*\)\s*$", ex)
        if m and m.group(1) in inner_lets and "if" not in ex:
            iv = consts.value(inner_lets[m.group(1)])
            if iv is not None:
                res[ct] = f".interval {iv}"
            continue
        chain = re.findall(r"if\s+height\s*<\s*([A-Z][A-Z0-9_]*)\s*\{\s*HeaderVersion\((\d+)\)\s*\}", ex)
        last = re.search(r"else\s*\{\s*HeaderVersion\((\d+)\)\s*\}\s*$", ex)
        if chain and last and [int(v) for _, v in chain] == list(range(1, len(chain) + 1)) and int(last.group(1)) == len(chain) + 1:
            vals = [consts.value(c) for c, _ in chain]
            if all(v is not None for v in vals) and len(re.findall(r"\bif\b", ex)) == len(chain):
                res[ct] = ".thresholds [" + ", ".join(str(v) for v in vals) + "]"
    return res


def dispatch(src):
    body = fn_body(src, "create_pow_context")
    d = {"prod": [], "bound": None, "above": "unknown", "arms": [], "fallback": "unknown", "other": "unknown", "ok": False}
    if body is None:
        return d
    m = re.search(r"if\s+((?:chain_type\s*==\s*ChainTypes::[A-Za-z]+\s*(?:\|\|\s*)?)+)\{", body)
    if not m:
        return d
    d["prod"] = re.findall(r"ChainTypes::([A-Za-z]+)", m.group(1))
    rest = body[m.end():]
    m2 = re.search(r"if\s+edge_bits\s*>\s*(\d+)\s*\{\s*new_([a-z]+)_ctx\(", rest)
    if not m2:
        return d
    d["bound"] = int(m2.group(1))
    d["above"] = m2.group(2)
    arms = re.findall(r"HeaderVersion\((\d+)\)\s*=>\s*new_([a-z]+)_ctx\(", rest)
    d["arms"] = [(int(k), v) for k, v in arms]
    m3 = re.search(r"_\s*=>\s*([a-z_]+)\(", rest)
    if m3:
        d["fallback"] = "none" if m3.group(1) == "no_cuckaroo_ctx" else m3.group(1)
    m4 = re.search(r"\}\s*else\s*\{\s*(?:[^{}]*?)new_([a-z]+)_ctx\([^{}]*\}\s*$", rest.strip(), flags=re.S)
    if m4:
        d["other"] = m4.group(1)
    # every constructor call of the function is accounted for
    d["ok"] = len(re.findall(r"new_[a-z]+_ctx\(", body)) == len(arms) + 2 and len(re.findall(r"\bmatch\b", body)) == 1
    return d


def render(glob_src, cons_src):
    consts = Consts([glob_src, cons_src])
    L = []
    L.append("-- GENERATED by tools/gen_params.py from core/src/global.rs and core/src/consensus.rs - do not edit")
    L.append("namespace GV.Gen.Params")
    L.append("")
    L.append("inductive CT | automatedTesting | userTesting | testnet | mainnet")
    L.append("  deriving DecidableEq, Repr")
    L.append("")
    L.append("/-- value of one arm: a number, `graph_weight(0, eb)` (`as u32` or not), or not understood -/")
    L.append("inductive Val | num (n : Nat) | gw0 (eb : Nat) (as32 : Bool) | unknown")
    L.append("  deriving DecidableEq, Repr")
    L.append("")
    L.append("/-- shape of `header_version` for one chain type -/")
    L.append("inductive HV | interval (i : Nat) | thresholds (ts : List Nat) | hvUnknown")
    L.append("  deriving DecidableEq, Repr")
    L.append("")
    for f in FUNCS:
        body = fn_body(glob_src, f)
        arms = match_arms(body) if body is not None else None
        L.append(f"/-- `global::{f}()` per chain type -/")
        L.append(f"def {f} : CT → Val")
        for ct in CTS:
            v = val_of(consts, arm_for(arms, ct)) if arms else ".unknown"
            L.append(f"  | .{LEAN_CT[ct]} => {v}")
        L.append("")
    hv = header_version(consts, cons_src)
    L.append("/-- `consensus::header_version(height)` per chain type -/")
    L.append("def header_version : CT → HV")
    for ct in CTS:
        L.append(f"  | .{LEAN_CT[ct]} => {hv[ct]}")
    L.append("")
    d = dispatch(glob_src)
    prod = ", ".join("." + LEAN_CT[c] for c in d["prod"] if c in LEAN_CT)
    L.append("/-- `global::create_pow_context`: the chain types of the first branch -/")
    L.append(f"def ctxProdChains : List CT := [{prod}]")
    L.append("/-- `edge_bits > N` selects `ctxAbove` there (`none` = not recognised) -/")
    L.append(f"def ctxBound : Option Nat := {'none' if d['bound'] is None else 'some ' + str(d['bound'])}")
    L.append(f"def ctxAbove : String := \"{d['above']}\"")
    L.append("/-- `HeaderVersion(k) => new_X_ctx` arms below the bound -/")
    L.append("def ctxByVersion : List (Nat × String) := [" + ", ".join(f"({k}, \"{v}\")" for k, v in d["arms"]) + "]")
    L.append(f"def ctxFallback : String := \"{d['fallback']}\"")
    L.append("/-- the constructor of every other chain type -/")
    L.append(f"def ctxOther : String := \"{d['other']}\"")
    L.append("/-- every constructor call of the function is one of the above -/")
    L.append(f"def ctxShapeOk : Bool := {'true' if d['ok'] else 'false'}")
    L.append("")
    vb = fn_body(cons_src, "valid_header_version")
    veq = vb is not None and re.sub(r"\s+", "", vb) in ("version==header_version(height)", "header_version(height)==version")
    L.append("/-- `consensus::valid_header_version(height, version)` is exactly `version == header_version(height)` -/")
    L.append(f"def validVersionIsScheduleEq : Bool := {'true' if veq else 'false'}")
    L.append("")
    L.append("def parseError : Option String := none")
    L.append("")
    L.append("end GV.Gen.Params")
    return "\n".join(L) + "\n"


def failed(msg):
    msg = msg.replace("\\", "/").replace('"', "'").replace("\n", " ")[:300]
    base = render("", "")
    return base.replace("def parseError : Option String := none", f"def parseError : Option String := some \"{msg}\"")


def generate(repo_root, die):
    """never raises, never calls `die`: an unreadable source yields a table whose obligations fail"""
    try:
        g = strip_comments(open(os.path.join(repo_root, "core/src/global.rs")).read())
        c = strip_comments(open(os.path.join(repo_root, "core/src/consensus.rs")).read())
        content = render(g, c)
    except BaseException as ex:  # noqa: fail closed
        try:
            content = failed(f"{type(ex).__name__}: {ex}")
        except BaseException:
            content = "namespace GV.Gen.Params\ndef parseError : Option String := some \"generator failed\"\nend GV.Gen.Params\n"
    return {"Params.lean": content}


if __name__ == "__main__":
    sys.stdout.write(generate(sys.argv[1] if len(sys.argv) > 1 else os.environ.get("VERIF_REPO", "/repo"), None)["Params.lean"])
