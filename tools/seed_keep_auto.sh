#!/bin/sh
# tools/seed_keep_auto.sh <Cxx> <round> <idA> <idB> : files both variants of a processed seed whose
# summary says "detected at once" under seeded/<id>/ and removes the scratch worktree + target.
# Variants that were missed are NOT kept automatically (they stay in /tmp/seed/... for strengthening).
P=$1; R=$2; IDA=$3; IDB=$4
D=/tmp/seed/${P}r${R}
all=1
for V in A B; do
  [ $V = A ] && ID=$IDA || ID=$IDB
  m=$(grep "^$P-$V: mutcheck" $D/summary.txt); c=$(grep "^$P-$V: CONFIRM" $D/summary.txt)
  viol=$(echo "$m" | sed -n 's/.*violations=\([0-9]*\).*/\1/p'); nf=$(echo "$m" | sed -n 's/.*nofailinginput=\([0-9]*\).*/\1/p')
  okc=$(echo "$c" | grep -c 'demo_clean_exit=0 demo_patched_exit=[1-9][0-9]* suites_with_patch_exit=0')
  if [ "$okc" = 1 ] && [ "${viol:-0}" -gt 0 ] && [ "${nf:-0}" = 0 ]; then
    python3 /verif/tools/keep_seed.py $D/out/$V $ID "$c" "$P" "detected at once ($viol violations)"
  else
    echo "NOT KEPT $P-$V: $m | $c"; all=0
  fi
done
if [ $all = 1 ]; then git -C /repo worktree remove --force $D/repo; rm -rf $D; echo "removed $D"; fi
