#!/usr/bin/env python3
"""Rewrites the table of DESIGN.md §11.2 from seeded/*/meta.json."""
import json, glob, os, re

def main():
    V = os.path.join(os.path.dirname(os.path.abspath(__file__)), "..")
    rows = []
    for f in sorted(glob.glob(os.path.join(V, "seeded", "*", "meta.json"))):
        m = json.load(open(f))
        def cell(s): return re.sub(r"\s+", " ", str(s)).replace("|", "/")[:330]
        rows.append(f"| {m['id']} | {cell(m.get('summary',''))} | {cell(m.get('needs',''))} | {cell(m.get('detection',''))} |")
    table = "| id | change | needs | result of running the checks against it |\n|---|---|---|---|\n" + "\n".join(rows) + "\n"
    p = os.path.join(V, "DESIGN.md")
    s = open(p).read()
    start = s.index("| id | change | needs |")
    end = s.index("\n\n", start)
    s = s[:start] + table.rstrip("\n") + s[end:]
    open(p, "w").write(s)
    print(len(rows), "seeded changes in the table")


if __name__ == "__main__":
    main()
