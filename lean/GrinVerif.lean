-- Root of the library: every module, so `lake build GrinVerif` checks everything.
import GrinVerif.Gen.Consts
import GrinVerif.Model.Basic
import GrinVerif.Model.Blake2b
import GrinVerif.Model.Pmmr
import GrinVerif.Lemmas.PmmrArith
import GrinVerif.Props.C07
import GrinVerif.Model.Chain
import GrinVerif.Lemmas.ChainBasic
import GrinVerif.Lemmas.ChainApply
import GrinVerif.Props.C01
import GrinVerif.Props.C02
import GrinVerif.Props.C03
import GrinVerif.Props.C06
import GrinVerif.Props.C13
