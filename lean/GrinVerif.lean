-- Root of the library: every module, so `lake build GrinVerif` checks everything.
import GrinVerif.Gen.Consts
import GrinVerif.Model.Basic
import GrinVerif.Model.Blake2b
import GrinVerif.Model.Pmmr
import GrinVerif.Lemmas.PmmrArith
import GrinVerif.Props.C07
