import GrinVerif.Props.XlatePmmr
import GrinVerif.Lemmas.XlatePmmr2
open GV GV.Pmmr GV.Pmmr.Co GV.Xlate GV.Xlate2
open GV.Gen
open GV.Props.XlatePmmr
theorem B (pos : Nat) (h : pos + 2 < 2^64) :
    Fns.bintree_leaf_pos_iter pos = bintreeLeafPosIter pos := by
  unfold Fns.bintree_leaf_pos_iter bintreeLeafPosIter
  have hl : bintreeLeftmost pos < 2^64 := by unfold bintreeLeftmost; omega
  have hr : bintreeRightmost pos < 2^64 := by unfold bintreeRightmost; omega
  rw [bintree_leftmost_eq pos h, bintree_rightmost_eq pos (by omega),
    pmmr_leaf_to_insertion_index_eq _ hl, pmmr_leaf_to_insertion_index_eq _ hr]
  cases hs : pmmrLeafToInsertionIndex (bintreeLeftmost pos) with
  | none => simp
  | some s =>
    cases he : pmmrLeafToInsertionIndex (bintreeRightmost pos) with
    | none => simp
    | some e => sorry
