import GrinVerif.Lemmas.XlatePmmr2
open GV
theorem subW_lt1 (a b : Nat) : subW a b < 2^64 := by
  unfold subW; exact Nat.mod_lt _ (Nat.pow_pos (by omega))
