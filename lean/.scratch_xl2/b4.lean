import GrinVerif.Props.XlatePmmr
import GrinVerif.Lemmas.XlatePmmr2
open GV GV.Pmmr GV.Pmmr.Co GV.Xlate GV.Xlate2
open GV.Gen
open GV.Props.XlatePmmr
theorem A (pos : Nat) : Fns.bintree_leaf_pos_iter pos = bintreeLeafPosIter pos := by
  simp only [Fns.bintree_leaf_pos_iter, bintreeLeafPosIter]
  sorry
