import GrinVerif.Props.XlatePmmr
import GrinVerif.Lemmas.XlatePmmr2
open GV GV.Pmmr GV.Pmmr.Co GV.Xlate GV.Xlate2
open GV.Gen
open GV.Props.XlatePmmr
