import GrinVerif.Props.XlatePmmr
import GrinVerif.Lemmas.XlatePmmr2
open GV GV.Pmmr GV.Pmmr.Co GV.Xlate GV.Xlate2
open GV.Gen
open GV.Props.XlatePmmr
theorem A (pos : Nat) (h : pos + 2 < 2^64) :
    Fns.bintree_leaf_pos_iter pos = bintreeLeafPosIter pos := by
  unfold Fns.bintree_leaf_pos_iter bintreeLeafPosIter
  rw [bintree_leftmost_eq pos h]
  sorry
