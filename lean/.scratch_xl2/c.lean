import GrinVerif.Props.XlatePmmr
import GrinVerif.Lemmas.XlatePmmr2
open GV GV.Pmmr GV.Pmmr.Co GV.Xlate GV.Xlate2
open GV.Gen
open GV.Props.XlatePmmr
theorem C (s e : Nat) (hle : e ≤ 2^63) : 
   List.map (fun n => Fns.insertion_to_pmmr_index n) (List.range' s (e + 1 - s)) = List.map (fun i => insertionToPmmrIndex (s+i)) (List.range (e+1-s)) := by
      exact map_range'_eq Fns.insertion_to_pmmr_index insertionToPmmrIndex s (e + 1 - s)
        (fun i hi => insertion_to_pmmr_index_eq (s + i) (by omega))
