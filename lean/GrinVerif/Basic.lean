def hello := "world"
