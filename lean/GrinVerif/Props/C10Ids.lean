import GrinVerif.Model.SerIds
import GrinVerif.Lemmas.SerStoreRt
import GrinVerif.Lemmas.SerSortAny
/-! # C10, fourth part — derived identifiers (`Model/SerIds.lean`)

`kernel_sig_msg`, `pre_pow` / `from_pre_pow_and_proof`, `short_id`: hashes of hash-mode bytes that
have no protocol-version parameter and that every node must compute alike. The run `ids` of the `ser`
harness compares each of them byte for byte with the code; the theorems say what the byte layouts
guarantee for ALL values:

* the bytes a kernel signature commits to determine the kernel features completely — variant, fee,
  lock height / relative height (`sigMsgBytes_injective`; with a collision-free hash: no two different
  feature values share a signature message, `sigMsg_covers_every_field`);
* a header's encoding is its `pre_pow()` followed by the proof, and `pre_pow()` determines every
  header field outside the proof (`header_is_prePow_then_proof`, `prePow_determines_header`): the
  proof of work commits to all of them;
* `from_pre_pow_and_proof` applied to the hex of a header's pre-pow part, its nonce and its proof
  rebuilds the header (`from_prePow_and_proof_roundtrip`);
* a short id is six bytes (`shortId_length`). -/
namespace GV.Props.C10Ids
open GV GV.Ser

/-- field ranges of the Rust types: `u64` fee and lock height, `u16` relative height -/
def InRange : KernelFeatures → Prop
  | .plain fee => fee < 2^64
  | .coinbase => True
  | .heightLocked fee lock => fee < 2^64 ∧ lock < 2^64
  | .noRecentDuplicate fee rel => fee < 2^64 ∧ rel < 2^16

theorem writeU64_inj {a b : Nat} {r1 r2 : Bytes} (ha : a < 2^64) (hb : b < 2^64)
    (h : writeU64 a ++ r1 = writeU64 b ++ r2) : a = b ∧ r1 = r2 := by
  have h1 := readU64_write a ha r1
  rw [h, readU64_write b hb r2] at h1
  simp only [Except.ok.injEq, Prod.mk.injEq] at h1
  exact ⟨h1.1.symm, h1.2.symm⟩

theorem writeU16_inj {a b : Nat} {r1 r2 : Bytes} (ha : a < 2^16) (hb : b < 2^16)
    (h : writeU16 a ++ r1 = writeU16 b ++ r2) : a = b ∧ r1 = r2 := by
  have h1 := readU16_write a ha r1
  rw [h, readU16_write b hb r2] at h1
  simp only [Except.ok.injEq, Prod.mk.injEq] at h1
  exact ⟨h1.1.symm, h1.2.symm⟩

/-- **The signed bytes determine the kernel features**: variant, fee, lock height, relative height. -/
theorem sigMsgBytes_injective (f g : KernelFeatures) (hf : InRange f) (hg : InRange g)
    (h : f.sigMsgBytes = g.sigMsgBytes) : f = g := by
  cases f <;> cases g <;>
    simp only [KernelFeatures.sigMsgBytes, writeU8, List.cons_append, List.nil_append,
      List.cons.injEq] at h <;>
    (try (exfalso; omega)) <;> (try (exact absurd h.1 (by decide)))
  · -- plain / plain
    rename_i a b
    have := @writeU64_inj a b [] [] hf hg (by simpa using h.2)
    rw [this.1]
  · rfl
  · rename_i a l b m
    obtain ⟨ha, hl⟩ := hf
    obtain ⟨hb, hm⟩ := hg
    obtain ⟨e1, e2⟩ := writeU64_inj ha hb h.2
    obtain ⟨e3, _⟩ := @writeU64_inj l m [] [] hl hm (by simpa using e2)
    rw [e1, e3]
  · rename_i a l b m
    obtain ⟨ha, hl⟩ := hf
    obtain ⟨hb, hm⟩ := hg
    obtain ⟨e1, e2⟩ := writeU64_inj ha hb h.2
    obtain ⟨e3, _⟩ := @writeU16_inj l m [] [] hl hm (by simpa using e2)
    rw [e1, e3]

/-- With a collision-free hash, no two different kernel feature values share a signature message:
a signature over one kernel cannot be moved to a kernel with another fee, lock height or variant. -/
theorem sigMsg_covers_every_field (H : Bytes → Bytes) (hH : ∀ x y, H x = H y → x = y)
    (f g : KernelFeatures) (hf : InRange f) (hg : InRange g)
    (h : H f.sigMsgBytes = H g.sigMsgBytes) : f = g :=
  sigMsgBytes_injective f g hf hg (hH _ _ h)

example : InRange (.heightLocked (2^64 - 1) 0) := by simp [InRange]
example : (KernelFeatures.heightLocked 7 5).sigMsgBytes ≠ (KernelFeatures.heightLocked 7 6).sigMsgBytes := by decide
example : (KernelFeatures.plain 7).sigMsgBytes ≠ (KernelFeatures.heightLocked 7 0).sigMsgBytes := by decide

/-! ## pre_pow -/

/-- a header's full-mode bytes are `pre_pow()` followed by the proof (edge bits, packed nonces) -/
theorem header_is_prePow_then_proof (proofSize : Nat) (h : BlockHeader) :
    encBlockHeader proofSize .full h = prePow h ++ encProof proofSize .full h.pow.proof := by
  simp [encBlockHeader, encProofOfWork, prePow, prePowNoNonce, encPowPrePow]

/-- `pre_pow()` is `from_pre_pow_and_proof`'s string followed by the nonce -/
theorem prePow_layout (h : BlockHeader) : prePow h = prePowNoNonce h ++ writeU64 h.pow.nonce := rfl

/-- the header with another proof -/
def withProof (h : BlockHeader) (p : Proof) : BlockHeader := { h with pow := { h.pow with proof := p } }

theorem prePow_withProof (h : BlockHeader) (p : Proof) : prePow (withProof h p) = prePow h := rfl

/-- **`pre_pow()` determines every header field outside the proof**: two headers (all field values of
the Rust types) with the same pre-pow bytes differ at most in their proof. -/
theorem prePow_determines_header (h g : BlockHeader) (hh : h.WFSkip) (hg : g.WFSkip)
    (e : prePow h = prePow g) (p : Proof) : withProof h p = withProof g p := by
  -- read both through the SkipPow reader with edge bits 1 and no nonces
  let q : Proof := { edgeBits := 1, nonces := [] }
  have wf : ∀ x : BlockHeader, x.WFSkip → (withProof x q).WFSkip := by
    intro x hx
    obtain ⟨a1, a2, a3, a4, a5, a6, a7, a8, a9, a10, a11, a12, b1, b2, b3, _, _⟩ := hx
    exact ⟨a1, a2, a3, a4, a5, a6, a7, a8, a9, a10, a11, a12, b1, b2, b3, Nat.le_refl 1, by show (1 : Nat) ≤ 63; omega⟩
  have enc : ∀ x : BlockHeader, encHeaderToEdgeBits (withProof x q) = prePow x ++ writeU8 1 := by
    intro x
    simp [encHeaderToEdgeBits, withProof, prePow, prePowNoNonce, encPowPrePow, q, encHeaderPrePow]
  have r1 := decBlockHeaderSkip_toEdgeBits (withProof h q) (wf h hh) []
  have r2 := decBlockHeaderSkip_toEdgeBits (withProof g q) (wf g hg) []
  rw [enc, e, ← enc g, r2] at r1
  simp only [Except.ok.injEq, Prod.mk.injEq, and_true] at r1
  -- `withoutNonces` of a header whose proof already has no nonces is the header itself
  have hq : ∀ x : BlockHeader, (withProof x q).withoutNonces = withProof x q := fun _ => rfl
  rw [hq, hq] at r1
  have : withProof (withProof h q) p = withProof (withProof g q) p := by rw [r1]
  simpa [withProof] using this

/-- `from_pre_pow_and_proof(hex(pre-pow part), nonce, proof)`: the bytes it assembles decode to the
header they were taken from, for every well-formed header. -/
theorem from_prePow_and_proof_roundtrip (c : Cfg) (h : BlockHeader) (hwf : h.WF c.proofSize) (rest : Bytes) :
    decBlockHeader c (prePowNoNonce h ++ writeU64 h.pow.nonce ++ encProof c.proofSize .full h.pow.proof ++ rest)
      = .ok (h, rest) := by
  have := decBlockHeader_enc c h hwf (decProof_enc c h.pow.proof hwf.2.2.2.2.2.2.2.2.2.2.2.2.2.2.2) rest
  rw [header_is_prePow_then_proof, prePow_layout] at this
  exact this

/-! ## short_id -/

theorem shortId_length (H : Bytes → Bytes) (item blk : Bytes) (nonce : Nat) :
    (shortId H item blk nonce).length = SHORT_ID_SIZE := by
  simp [shortId, leBytes_length, SHORT_ID_SIZE]

/-- SipHash-2-4 reference vector (key 00..0f, message 00..0e: a129ca6149be45e5) -/
example : sipHash24 0x0706050403020100 0x0f0e0d0c0b0a0908 (List.range 15) = 0xa129ca6149be45e5 := by decide

/-! ## the sorting algorithm does not matter

`Inputs::write` at version ≥ 3, `TransactionBody::init`, `CompactBlockBody::init` call
`sort_unstable()`; the model uses a stable insertion sort. The assumption "the two agree when no two
different items share a hash" is a theorem: -/

/-- Any algorithm that returns a permutation of `l` ordered by key returns exactly `sortByKey key l`
when the keys in `l` are pairwise different — stable or not, whatever its strategy. -/
theorem any_sort_is_the_model {α : Type} (key : α → Nat) (l s : List α)
    (hperm : s.Perm l) (hsorted : s.Pairwise (fun a b => key a ≤ key b))
    (hnd : (l.map key).Nodup) : s = sortByKey key l := sort_any_agrees key l s hperm hsorted hnd

example : sortByKey (fun x : Nat => x % 10) [13, 21, 7] = [21, 13, 7] := by decide

end GV.Props.C10Ids
