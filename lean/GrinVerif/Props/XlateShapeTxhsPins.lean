import GrinVerif.Gen.PipeShapeTxhs
/-! # Pinned shapes of the validation pipelines (Txhs)

Every `def pin_<fn>` below is a COPY, made when the shape was last reviewed, of the step list that
tools/gen_pipeshape.py reads from the source (`Gen/PipeShapeTxhs.lean`, regenerated on every check run);
`<fn>_pinned` states that the current source still has exactly that shape (kernel-checked by `rfl` /
`decide`).  A change of the order of checks, a dropped `?`, a new guard or early return, another error
variant, another argument breaks the theorem.  After a REVIEWED harmless change re-pin with
`python3 tools/gen_pipeshape.py --pin Txhs > lean/GrinVerif/Props/XlateShapeTxhsPins.lean`.
The semantic obligations (order the hand models assume, every check propagated, early returns) are in
`Props/XlateShapeTxhs.lean`, stated over the GENERATED tables. -/
namespace GV.Props.XlateShapeTxhsPins
open GV.Gen.PipeShape

/-- reviewed shape of `extending (chain/src/txhashset/txhashset.rs)` -/
def pin_txhs_extending : List Step := [
  ⟨.check, "head", "$2.head()", "", []⟩,
  ⟨.check, "header_head", "$2.header_head()", "", []⟩,
  ⟨.check, "child", "$2.child()", "", []⟩,
  ⟨.call, "discard", "$0.backend.discard()", "", []⟩,
  ⟨.call, "discard", "$1.output_pmmr_h.backend.discard()", "", ["$5 ~ Err(_)"]⟩,
  ⟨.call, "discard", "$1.rproof_pmmr_h.backend.discard()", "", ["$5 ~ Err(_)"]⟩,
  ⟨.call, "discard", "$1.kernel_pmmr_h.backend.discard()", "", ["$5 ~ Err(_)"]⟩,
  ⟨.fail, "e", "$15", "", ["$5 ~ Err(_)"]⟩,
  ⟨.call, "discard", "$1.output_pmmr_h.backend.discard()", "", ["$5 ~ Ok(_)", "$6"]⟩,
  ⟨.call, "discard", "$1.rproof_pmmr_h.backend.discard()", "", ["$5 ~ Ok(_)", "$6"]⟩,
  ⟨.call, "discard", "$1.kernel_pmmr_h.backend.discard()", "", ["$5 ~ Ok(_)", "$6"]⟩,
  ⟨.check, "commit", "$10.commit()", "", ["$5 ~ Ok(_)", "!($6)"]⟩,
  ⟨.check, "sync", "$1.output_pmmr_h.backend.sync()", "", ["$5 ~ Ok(_)", "!($6)"]⟩,
  ⟨.check, "sync", "$1.rproof_pmmr_h.backend.sync()", "", ["$5 ~ Ok(_)", "!($6)"]⟩,
  ⟨.check, "sync", "$1.kernel_pmmr_h.backend.sync()", "", ["$5 ~ Ok(_)", "!($6)"]⟩,
  ⟨.okFinal, "", "$16", "", ["$5 ~ Ok(_)"]⟩
]
/-- reviewed `let`s / assignments that feed a guard of `extending (chain/src/txhashset/txhashset.rs)` -/
def pin_lets_txhs_extending : List LetRec := [
  ⟨["$8"], "head", "$2.head()?", []⟩,
  ⟨["$9"], "header_head", "$2.header_head()?", []⟩,
  ⟨["$10"], "child", "$2.child()?", []⟩,
  ⟨["$11"], "at", "PMMR::at(&$0.backend, $0.size)", []⟩,
  ⟨["$12"], "new", "HeaderExtension::new($11, $9)", []⟩,
  ⟨["$13"], "new", "Extension::new($1, $8)", []⟩,
  ⟨["$14"], "<structlit>", "ExtensionPair{header_extension: &$12, extension: &$13}", []⟩,
  ⟨["$5"], "inner", "= inner(&$14, &$10)", []⟩,
  ⟨["$6"], "rollback", "= $14.extension.rollback", []⟩,
  ⟨["$4"], "sizes", "= $14.extension.sizes()", []⟩,
  ⟨["$7"], "bitmap_accumulator", "= $14.extension.bitmap_accumulator.clone()", []⟩,
  ⟨["$1.output_pmmr_h.size"], "0", "= $4.0", ["$5 ~ Ok(_)", "!($6)"]⟩,
  ⟨["$1.rproof_pmmr_h.size"], "1", "= $4.1", ["$5 ~ Ok(_)", "!($6)"]⟩,
  ⟨["$1.kernel_pmmr_h.size"], "2", "= $4.2", ["$5 ~ Ok(_)", "!($6)"]⟩,
  ⟨["$1.bitmap_accumulator"], "bitmap_accumulator", "= $7", ["$5 ~ Ok(_)", "!($6)"]⟩
]
theorem txhs_extending_pinned : txhs_extending.parseError = none ∧ txhs_extending.steps = pin_txhs_extending ∧ txhs_extending.lets = pin_lets_txhs_extending := ⟨rfl, rfl, rfl⟩

/-- reviewed shape of `extending_readonly (chain/src/txhashset/txhashset.rs)` -/
def pin_txhs_extending_readonly : List Step := [
  ⟨.check, "batch", "$3.batch()", "", []⟩,
  ⟨.check, "head", "$4.head()", "", []⟩,
  ⟨.check, "header_head", "$4.header_head()", "", []⟩,
  ⟨.call, "discard", "$0.backend.discard()", "", []⟩,
  ⟨.call, "discard", "$1.output_pmmr_h.backend.discard()", "", []⟩,
  ⟨.call, "discard", "$1.rproof_pmmr_h.backend.discard()", "", []⟩,
  ⟨.call, "discard", "$1.kernel_pmmr_h.backend.discard()", "", []⟩,
  ⟨.tail, "res", "$11", "", []⟩
]
/-- reviewed `let`s / assignments that feed a guard of `extending_readonly (chain/src/txhashset/txhashset.rs)` -/
def pin_lets_txhs_extending_readonly : List LetRec := [
]
theorem txhs_extending_readonly_pinned : txhs_extending_readonly.parseError = none ∧ txhs_extending_readonly.steps = pin_txhs_extending_readonly ∧ txhs_extending_readonly.lets = pin_lets_txhs_extending_readonly := ⟨rfl, rfl, rfl⟩

/-- reviewed shape of `header_extending (chain/src/txhashset/txhashset.rs)` -/
def pin_txhs_header_extending : List Step := [
  ⟨.check, "child", "$1.child()", "", []⟩,
  ⟨.check, "get_block_header", "$6.get_block_header(&$7)", "", ["$0.head_hash() ~ Ok(_)"]⟩,
  ⟨.call, "discard", "$0.backend.discard()", "", ["$4 ~ Err(_)"]⟩,
  ⟨.fail, "e", "$12", "", ["$4 ~ Err(_)"]⟩,
  ⟨.call, "discard", "$0.backend.discard()", "", ["$4 ~ Ok(_)", "$5"]⟩,
  ⟨.check, "commit", "$6.commit()", "", ["$4 ~ Ok(_)", "!($5)"]⟩,
  ⟨.check, "sync", "$0.backend.sync()", "", ["$4 ~ Ok(_)", "!($5)"]⟩,
  ⟨.okFinal, "", "$13", "", ["$4 ~ Ok(_)"]⟩
]
/-- reviewed `let`s / assignments that feed a guard of `header_extending (chain/src/txhashset/txhashset.rs)` -/
def pin_lets_txhs_header_extending : List LetRec := [
  ⟨["$6"], "child", "$1.child()?", []⟩,
  ⟨["$9"], "<match>", "<match>", []⟩,
  ⟨["$10"], "at", "PMMR::at(&$0.backend, $0.size)", []⟩,
  ⟨["$11"], "new", "HeaderExtension::new($10, $9)", []⟩,
  ⟨["$4"], "inner", "= inner(&$11, &$6)", []⟩,
  ⟨["$5"], "rollback", "= $11.rollback", []⟩,
  ⟨["$3"], "size", "= $11.size()", []⟩,
  ⟨["$0.size"], "size", "= $3", ["$4 ~ Ok(_)", "!($5)"]⟩
]
theorem txhs_header_extending_pinned : txhs_header_extending.parseError = none ∧ txhs_header_extending.steps = pin_txhs_header_extending ∧ txhs_header_extending.lets = pin_lets_txhs_header_extending := ⟨rfl, rfl, rfl⟩

/-- reviewed shape of `header_extending_readonly (chain/src/txhashset/txhashset.rs)` -/
def pin_txhs_header_extending_readonly : List Step := [
  ⟨.check, "batch", "$1.batch()", "", []⟩,
  ⟨.check, "get_block_header", "$3.get_block_header(&$4)", "", ["$0.head_hash() ~ Ok(_)"]⟩,
  ⟨.call, "discard", "$0.backend.discard()", "", []⟩,
  ⟨.tail, "res", "$9", "", []⟩
]
/-- reviewed `let`s / assignments that feed a guard of `header_extending_readonly (chain/src/txhashset/txhashset.rs)` -/
def pin_lets_txhs_header_extending_readonly : List LetRec := [
]
theorem txhs_header_extending_readonly_pinned : txhs_header_extending_readonly.parseError = none ∧ txhs_header_extending_readonly.steps = pin_txhs_header_extending_readonly ∧ txhs_header_extending_readonly.lets = pin_lets_txhs_header_extending_readonly := ⟨rfl, rfl, rfl⟩

/-- reviewed shape of `utxo_view (chain/src/txhashset/txhashset.rs)` -/
def pin_txhs_utxo_view : List Step := [
  ⟨.check, "batch", "$1.commit_index.batch()", "", []⟩,
  ⟨.tail, "res", "$3", "", []⟩
]
/-- reviewed `let`s / assignments that feed a guard of `utxo_view (chain/src/txhashset/txhashset.rs)` -/
def pin_lets_txhs_utxo_view : List LetRec := [
]
theorem txhs_utxo_view_pinned : txhs_utxo_view.parseError = none ∧ txhs_utxo_view.steps = pin_txhs_utxo_view ∧ txhs_utxo_view.lets = pin_lets_txhs_utxo_view := ⟨rfl, rfl, rfl⟩

/-- reviewed shape of `rewindable_kernel_view (chain/src/txhashset/txhashset.rs)` -/
def pin_txhs_rewindable_kernel_view : List Step := [
  ⟨.check, "batch", "$0.commit_index.batch()", "", []⟩,
  ⟨.check, "head_header", "$4.head_header()", "", []⟩,
  ⟨.tail, "res", "$2", "", []⟩
]
/-- reviewed `let`s / assignments that feed a guard of `rewindable_kernel_view (chain/src/txhashset/txhashset.rs)` -/
def pin_lets_txhs_rewindable_kernel_view : List LetRec := [
]
theorem txhs_rewindable_kernel_view_pinned : txhs_rewindable_kernel_view.parseError = none ∧ txhs_rewindable_kernel_view.steps = pin_txhs_rewindable_kernel_view ∧ txhs_rewindable_kernel_view.lets = pin_lets_txhs_rewindable_kernel_view := ⟨rfl, rfl, rfl⟩

/-- reviewed shape of `zip_read (chain/src/txhashset/txhashset.rs)` -/
def pin_txhs_zip_read : List Step := [
  ⟨.okEarly, "", "$6", "", ["$5 ~ Ok(_)"]⟩,
  ⟨.check, "remove_dir_all", "fs::remove_dir_all(&$10)", "", ["$10.exists()"]⟩,
  ⟨.check, "copy_dir_to", "file::copy_dir_to(&$3, &$10)", "", []⟩,
  ⟨.check, "create", "File::create($4.clone())", "", []⟩,
  ⟨.check, "create_zip", "zip::create_zip(&$11, &$10, $12)", "", []⟩,
  ⟨.check, "open", "File::open($4.clone())", "", []⟩,
  ⟨.okFinal, "", "$14", "", []⟩
]
/-- reviewed `let`s / assignments that feed a guard of `zip_read (chain/src/txhashset/txhashset.rs)` -/
def pin_lets_txhs_zip_read : List LetRec := [
  ⟨["$2"], "format!", "format!(..)", []⟩,
  ⟨["$4"], "join", "Path::new(&$0).join($2)", []⟩,
  ⟨["$5"], "open", "File::open($4.clone())", []⟩,
  ⟨["$10"], "join", "Path::new(&$0).join(format!(..))", []⟩
]
theorem txhs_zip_read_pinned : txhs_zip_read.parseError = none ∧ txhs_zip_read.steps = pin_txhs_zip_read ∧ txhs_zip_read.lets = pin_lets_txhs_zip_read := ⟨rfl, rfl, rfl⟩

/-- reviewed shape of `zip_write (chain/src/txhashset/txhashset.rs)` -/
def pin_txhs_zip_write : List Step := [
  ⟨.check, "create_dir_all", "fs::create_dir_all(&$3)", "", []⟩,
  ⟨.check, "extract_files", "zip::extract_files($1, &$3, $4)", "", []⟩,
  ⟨.okFinal, "", "()", "", []⟩
]
/-- reviewed `let`s / assignments that feed a guard of `zip_write (chain/src/txhashset/txhashset.rs)` -/
def pin_lets_txhs_zip_write : List LetRec := [
]
theorem txhs_zip_write_pinned : txhs_zip_write.parseError = none ∧ txhs_zip_write.steps = pin_txhs_zip_write ∧ txhs_zip_write.lets = pin_lets_txhs_zip_write := ⟨rfl, rfl, rfl⟩

/-- reviewed shape of `txhashset_replace (chain/src/txhashset/txhashset.rs)` -/
def pin_txhs_txhashset_replace : List Step := [
  ⟨.call, "clean_txhashset_folder", "clean_txhashset_folder(&$1)", "", []⟩,
  ⟨.call, "crash_point", "grin_store::verif_hooks::crash_point(\"…\")", "", []⟩,
  ⟨.fail, "TxHashSetErr", "Error::TxHashSetErr(\"…\".to_string())", "", ["fs::rename($0.join(TXHASHSET_SUBDIR), $1.join(TXHASHSET_SUBDIR)) ~ Err(_)"]⟩,
  ⟨.call, "crash_point", "grin_store::verif_hooks::crash_point(\"…\")", "", ["fs::rename($0.join(TXHASHSET_SUBDIR), $1.join(TXHASHSET_SUBDIR)) ~ _"]⟩,
  ⟨.okFinal, "", "()", "", ["fs::rename($0.join(TXHASHSET_SUBDIR), $1.join(TXHASHSET_SUBDIR)) ~ _"]⟩
]
/-- reviewed `let`s / assignments that feed a guard of `txhashset_replace (chain/src/txhashset/txhashset.rs)` -/
def pin_lets_txhs_txhashset_replace : List LetRec := [
]
theorem txhs_txhashset_replace_pinned : txhs_txhashset_replace.parseError = none ∧ txhs_txhashset_replace.steps = pin_txhs_txhashset_replace ∧ txhs_txhashset_replace.lets = pin_lets_txhs_txhashset_replace := ⟨rfl, rfl, rfl⟩

end GV.Props.XlateShapeTxhsPins
