import GrinVerif.Model.ChainKnown
import GrinVerif.Gen.PipeShapeChainApi
import GrinVerif.Props.XlateShapeLib
/-! # The regenerated shape of the `Chain` API functions (chain/src/chain.rs) = `Model/ChainKnown.lean`

`precheckK` is shown (for all inputs) to be `is_known`, then `check_orphan`, then `check_known` -
the three named steps - and the order of `process_block_single`, the conditions of `is_known` and
`check_orphan`, the options an orphan is re-processed with, the steps of `reset_chain_head` (which of
them sit under `rewind_headers`) and the place of the ONE commit of `sync_block_headers` are decided
equal to the tables tools/gen_pipeshape.py reads from the current source (`Gen/PipeShapeChainApi`). -/
namespace GV.Props.C03ShapeApi
open GV GV.Chain GV.Gen.PipeShape GV.Props.XlateShape

/-- `Chain::is_known` -/
def isKnownK (n1 : Node) (b : Blk) : Option Err :=
  if b.id == n1.head then some "Unfit" else
  if b.work ≤ n1.workOf n1.head ∧ n1.stored.contains b.id then some "Unfit" else none

/-- `Chain::check_orphan`: `none` = not an orphan -/
def isOrphanK (n1 : Node) (par : Nat) : Bool := !(par == n1.head || n1.stored.contains par)

/-- **the model is the three named steps**, in the order of `process_block_single` -/
theorem precheckK_stages (n1 : Node) (b : Blk) :
    precheckK n1 b =
      match isKnownK n1 b with
      | some e => .reject e
      | none =>
        match b.parent with
        | none => .reject "StoreErr"
        | some par =>
          if isOrphanK n1 par then .orphan else
          match checkKnown n1 b with
          | some e => .reject e
          | none => .go par := by
  unfold precheckK isKnownK isOrphanK
  by_cases h1 : (b.id == n1.head) = true
  · rw [if_pos h1, if_pos h1]
  · rw [if_neg h1, if_neg h1]
    by_cases h2 : b.work ≤ n1.workOf n1.head ∧ n1.stored.contains b.id = true
    · rw [if_pos h2, if_pos h2]
    · rw [if_neg h2, if_neg h2]
      cases b.parent with
      | none => rfl
      | some par =>
        simp only
        by_cases h3 : (par == n1.head) = true
        · simp only [h3, Bool.true_or, Bool.not_true, Bool.false_eq_true, if_false, true_or, not_true_eq_false]
          cases checkKnown n1 b <;> rfl
        · by_cases h4 : n1.stored.contains par = true
          · simp only [h3, h4, Bool.or_true, Bool.not_true, Bool.false_eq_true, if_false, or_true, not_true_eq_false]
            cases checkKnown n1 b <;> rfl
          · have h4' : ¬ par ∈ n1.stored := by simpa using h4
            simp [h3, h4']

/-- `process_block_single`: header, `is_known`, `check_orphan`, `pipe::process_block`, ONE commit, and
the adapter is told only after that commit; nothing else has its result discarded -/
theorem process_block_single_shape_is_model :
    readOk chain_process_block_single = true ∧
    (spine chain_process_block_single).filter (fun n => !(["batch", "head", "new_ctx", "get_previous_header"].contains n)) =
      ["process_block_header", "is_known", "check_orphan", "process_block", "commit"] ∧
    calls chain_process_block_single = ["block_accepted"] ∧
    ((chain_process_block_single.steps.map (·.name)).dropWhile (· != "commit")).contains "block_accepted" = true ∧
    earlyOks chain_process_block_single = [] := by decide

/-- `is_known`: `Unfit` for the head's own hash, and - ONLY for a block with no more work than the
head - for a block in the store (`isKnownK`) -/
theorem is_known_shape_is_model :
    readOk chain_is_known = true ∧
    fails chain_is_known = [("Unfit", "($1.hash() == $0.hash())"), ("Unfit", "self.block_exists($0.hash())?")] ∧
    under "($0.total_difficulty() <= $1.total_difficulty)" chain_is_known = ["block_exists", "Unfit"] := by decide

/-- `check_orphan`: not an orphan iff the parent is the head's hash or in the block store; otherwise
the block is put into the pool and `Orphan` returned (`isOrphanK`, `addOrphan`) -/
theorem check_orphan_shape_is_model :
    readOk chain_check_orphan = true ∧
    earlyOks chain_check_orphan = [["($3 || self.block_exists($0.header.prev_hash)?)"]] ∧
    (chain_check_orphan.lets.filter (·.vars == ["$3"])).map (·.init) = ["($0.header.prev_hash == $2.last_block_h)"] ∧
    calls chain_check_orphan = ["add"] ∧ fails chain_check_orphan = [("Orphan", "")] := by decide

/-- `process_block`: orphans are looked at only after a successful step, from the next height; the
step's own result is returned -/
theorem process_block_shape_is_model :
    (chain_process_block.steps.filter (·.kind == .call)).map (fun s => (s.name, s.what, s.guard)) =
      [("check_orphans", "self.check_orphans(($2 + 1))", ["$3.is_ok()"])] ∧
    (chain_process_block.lets.map (·.name)) = ["process_block_single"] ∧
    spine chain_process_block = ["res"] := by decide

/-- `check_orphans`: every orphan is processed with ITS OWN options (`annotateOpts`), an accepted
orphan sets the flag and the height, and the loop goes on at that height + 1 only under the flag
(`checkOrphansG`) -/
theorem check_orphans_shape_is_model :
    (chain_check_orphans.lets.filter (·.name == "process_block_single")).map (·.init) =
      ["self.process_block_single($7.block, $7.opts)"] ∧
    (chain_check_orphans.lets.filter (fun l => l.guard.contains "$9.is_ok()")).map (fun l => (l.vars, l.init)) =
      [(["$2"], "= true"), (["$3"], "= $8")] ∧
    (chain_check_orphans.lets.filter (fun l => l.guard.getLast? == some "$2")).map (fun l => (l.vars, l.init)) =
      [(["$0"], "= ($3 + 1)")] := by decide

/-- `reset_chain_head`: header look-up first, the body extension (fork with the denylist, body head
saved inside it), then - exactly under `rewind_headers` - the header extension and the header head,
ONE commit at the end (`resetChainHeadK`) -/
theorem reset_chain_head_shape_is_model :
    readOk chain_reset_chain_head = true ∧
    spine chain_reset_chain_head =
      ["batch", "get_block_header", "rewind_and_apply_fork", "save_body_head", "extending",
       "rewind_and_apply_header_fork", "save_header_head", "header_extending", "commit"] ∧
    under "$1" chain_reset_chain_head = ["rewind_and_apply_header_fork", "save_header_head", "header_extending"] ∧
    calls chain_reset_chain_head = [] := by decide

/-- `sync_block_headers`: the one commit comes after `process_block_headers` succeeded - a refused
chunk is never committed (`Props/C06Chunk.lean` `refused_chunk_changes_nothing`) -/
theorem sync_block_headers_shape_is_model :
    readOk chain_sync_block_headers = true ∧
    spine chain_sync_block_headers = ["batch", "new_ctx", "process_block_headers", "commit"] ∧
    calls chain_sync_block_headers = [] ∧ earlyOks chain_sync_block_headers = [] := by decide

/-- non-vacuity of `precheckK_stages`: the head offered again is answered by the first step -/
example : isKnownK { head := 3 } { id := 3, parent := some 2, h := 3, work := 9, ver := 2, ts := 3, ins := [], outs := [], kers := [], tags := [] } = some "Unfit" := by decide

end GV.Props.C03ShapeApi
