import GrinVerif.Model.Pmmr
import GrinVerif.Model.Bitmap
import GrinVerif.Model.Deseg
import GrinVerif.Model.Cons
import GrinVerif.Model.Pool
import GrinVerif.Model.SerTx
import GrinVerif.Gen.FnsSeg
import GrinVerif.Gen.FnsTx
import GrinVerif.Gen.FnsBitmap
import GrinVerif.Lemmas.XlateArith
import GrinVerif.Props.XlatePmmr
import GrinVerif.Props.XlateTx
/-! # Translated small helpers with no (or only a partial) hand model function: closed forms

`GV.Gen.Fns.*` is regenerated on every check run from the CURRENT Rust source by `tools/rs2lean.py`
(release-build integer semantics).  For the functions below the specification is stated directly as a
closed form on `Nat`, for every input of the stated range, and tied to the hand-written model
function where one exists:

* `SegmentIdentifier::pmmr_size` (core/src/core/pmmr/segment.rs) — `Deseg.pmmrSize`, `Pmmr.insertionToPmmrIndex`
* `Transaction::old_weight_by_iok`, `TransactionBody::weight`, `libtx::tx_fee` (core/src/core/transaction.rs,
  core/src/libtx/mod.rs) — `Ser.weightByIok`, `Cons.acceptFee`, `Pool.Tx.acceptFee`
* `BitmapAccumulator::chunk_start_idx / chunk_idx` (chain/src/txhashset/bitmap_accumulator.rs) —
  `Bitmap.chunkStartIdx`, `Bitmap.chunkIdx` -/

namespace GV.Props.XlateMisc
open GV GV.Gen GV.Xlate

/-! ## `SegmentIdentifier::pmmr_size(num_segments: usize, height: u8)`
`= pmmr::insertion_to_pmmr_index(num_segments as u64 * (1 << height))` -/

/-- the desegmenter model's transliteration is the translated function, for all arguments -/
theorem pmmr_size_eq_deseg (n h : Nat) :
    Fns.SegmentIdentifier_pmmr_size n h = GV.Deseg.pmmrSize n h := rfl

/-- in range (`height < 64`, `num_segments · 2^height ≤ 2^63`) it is the MMR size of
`num_segments · 2^height` leaves -/
theorem pmmr_size_eq (n h : Nat) (hh : h < 64) (hn : n * 2^h ≤ 2^63) :
    Fns.SegmentIdentifier_pmmr_size n h = GV.Pmmr.insertionToPmmrIndex (n * 2^h) := by
  unfold Fns.SegmentIdentifier_pmmr_size
  rw [shlW_one_left hh, mulW_eq (by omega)]
  exact GV.Props.XlatePmmr.insertion_to_pmmr_index_eq _ hn

/-- `1 << height` on a u64 masks the shift amount: a `height` in `64..=255` (every u8 is accepted
by the type) behaves as `height % 64` -/
theorem pmmr_size_masked (n h : Nat) :
    Fns.SegmentIdentifier_pmmr_size n h = Fns.SegmentIdentifier_pmmr_size n (h % 64) := by
  unfold Fns.SegmentIdentifier_pmmr_size shlW
  rw [Nat.mod_mod]

/-- … so for every u8 height: the MMR size of `num_segments · 2^(height % 64)` leaves -/
theorem pmmr_size_eq_u8 (n h : Nat) (hn : n * 2^(h % 64) ≤ 2^63) :
    Fns.SegmentIdentifier_pmmr_size n h = GV.Pmmr.insertionToPmmrIndex (n * 2^(h % 64)) := by
  rw [pmmr_size_masked]
  exact pmmr_size_eq n (h % 64) (Nat.mod_lt _ (by omega)) hn

/-- 3 segments of height 2 = 12 leaves = 22 positions; height 64 is height 0 (not `2^64` leaves);
and the range bound is exact: `2^63 + 1` leaves wrap to size 0 -/
example : Fns.SegmentIdentifier_pmmr_size 3 2 = 22 ∧ Fns.SegmentIdentifier_pmmr_size 3 66 = 22
    ∧ Fns.SegmentIdentifier_pmmr_size 1 64 = 1 ∧ Fns.SegmentIdentifier_pmmr_size (2^63 + 1) 0 = 0 := by
  have pc12 : popcount 12 = 2 := by simp [popcount]
  have pc1 : popcount 1 = 1 := by simp [popcount]
  have m12 : GV.Pmmr.insertionToPmmrIndex (3 * 2^2) = 22 := by
    simp [GV.Pmmr.insertionToPmmrIndex, GV.Pmmr.mmr, pc12]
  have m1 : GV.Pmmr.insertionToPmmrIndex (1 * 2^0) = 1 := by
    simp [GV.Pmmr.insertionToPmmrIndex, GV.Pmmr.mmr, pc1]
  refine ⟨?_, ?_, ?_, ?_⟩
  · rw [pmmr_size_eq 3 2 (by decide) (by decide), m12]
  · rw [pmmr_size_eq_u8 3 66 (by decide)]; exact m12
  · rw [pmmr_size_eq_u8 1 64 (by decide)]; exact m1
  · have h1 : shlW 1 0 = 1 := by decide
    have h2 : mulW (2^63 + 1) 1 = 2^63 + 1 := by unfold mulW; omega
    unfold Fns.SegmentIdentifier_pmmr_size
    rw [h1, h2]
    exact GV.Props.XlatePmmr.insertion_to_pmmr_index_wraps.1

/-! ## `Transaction::old_weight_by_iok`, `TransactionBody::weight`, `libtx::tx_fee` -/

/-- `old_weight_by_iok(i, o, k) = max(o.saturating_mul(4).saturating_add(k).saturating_sub(i), 1)`,
for all arguments (no hand model function exists: the closed form is the specification) -/
theorem old_weight_by_iok_eq (i o k : Nat) :
    Fns.Transaction_old_weight_by_iok i o k = max 1 (min (min (4 * o) U64MAX + k) U64MAX - i) := by
  simp only [Fns.Transaction_old_weight_by_iok, Fns.satAddN, Fns.satMulN, satSub, U64MAX]
  omega

/-- without saturation (`4·o + k` fits a u64): `max 1 (4·o + k - i)` (truncated subtraction) -/
theorem old_weight_by_iok_in_range (i o k : Nat) (h : 4 * o + k < 2^64) :
    Fns.Transaction_old_weight_by_iok i o k = max 1 (4 * o + k - i) := by
  rw [old_weight_by_iok_eq]; unfold U64MAX; omega

/-- it is never 0 and never above `u64::MAX` -/
theorem old_weight_by_iok_bounds (i o k : Nat) :
    1 ≤ Fns.Transaction_old_weight_by_iok i o k ∧ Fns.Transaction_old_weight_by_iok i o k ≤ U64MAX := by
  rw [old_weight_by_iok_eq]; unfold U64MAX; omega

example : Fns.Transaction_old_weight_by_iok 2 2 1 = 7 ∧ Fns.Transaction_old_weight_by_iok 10 2 1 = 1
    ∧ Fns.Transaction_old_weight_by_iok 5 (2^63) 7 = 2^64 - 6 := by
  refine ⟨?_, ?_, ?_⟩ <;> rw [old_weight_by_iok_eq] <;> unfold U64MAX <;> omega

/-- `TransactionBody::weight(&self) = weight_by_iok(inputs.len(), outputs.len(), kernels.len())`
(the lengths of `inputs` / `outputs` are parameters of the translation) -/
theorem body_weight_eq (kernels : List Fns.TxKernel) (ni no : Nat) :
    Fns.TransactionBody_weight kernels ni no = GV.Ser.weightByIok ni no kernels.length := by
  unfold Fns.TransactionBody_weight
  exact GV.Props.XlateTx.body_weight_by_iok_eq ni no kernels.length

example : Fns.TransactionBody_weight [default] 2 2 = 47 := by
  rw [body_weight_eq]; decide

/-- `tx_fee(i, o, k) = Transaction::weight_by_iok(i, o, k) * get_accept_fee_base()`: a wrapping u64
product, for all arguments -/
theorem tx_fee_eq (base i o k : Nat) :
    Fns.tx_fee base i o k = mulW (GV.Ser.weightByIok i o k) base := by
  unfold Fns.tx_fee
  rw [GV.Props.XlateTx.tx_weight_by_iok_eq]

/-- what `Transaction::accept_fee` of the parameter-store model (`Cons.acceptFee`) returns for a
transaction of that weight, on a thread whose accept-fee base resolves to `b` -/
theorem tx_fee_eq_cons_acceptFee (s : GV.Cons.PStore) (i o k : Nat) :
    (GV.Cons.acceptFee (GV.Ser.weightByIok i o k) s).1
      = (GV.Cons.getAcceptFeeBase s).1.map (fun b => Fns.tx_fee b i o k) := by
  unfold GV.Cons.acceptFee
  cases hg : GV.Cons.getAcceptFeeBase s with
  | mk o' s' =>
    cases o' with
    | none => rfl
    | some b => simp [tx_fee_eq]

/-- the pool model's unbounded `Tx.acceptFee` is `tx_fee` whenever weight and product fit a u64 -/
theorem tx_fee_eq_pool_acceptFee (c : GV.Pool.Cfg) (t : GV.Pool.Tx)
    (h : t.weight * c.feeBase < 2^64) (hw : t.weight < 2^64) :
    Fns.tx_fee c.feeBase t.ins.length t.outs.length t.kers.length = t.acceptFee c := by
  unfold Fns.tx_fee
  rw [GV.Props.XlateTx.pool_weight_eq t (by unfold GV.Pool.Tx.weight at hw; exact hw)]
  unfold GV.Pool.Tx.acceptFee
  exact mulW_eq h

/-- in range: `(i + 21·o + 3·k) · base` -/
theorem tx_fee_in_range (base i o k : Nat) (h : (i + 21 * o + 3 * k) * base < 2^64)
    (hw : i + 21 * o + 3 * k < 2^64) :
    Fns.tx_fee base i o k = (i + 21 * o + 3 * k) * base := by
  have hi : INPUT_WEIGHT = 1 := by decide
  have ho : OUTPUT_WEIGHT = 21 := by decide
  have hk : KERNEL_WEIGHT = 3 := by decide
  have hwt : Fns.Transaction_weight_by_iok i o k = i + 21 * o + 3 * k := by
    simp only [Fns.Transaction_weight_by_iok, Fns.TransactionBody_weight_by_iok, Fns.satAddN,
      Fns.satMulN, hi, ho, hk]
    omega
  unfold Fns.tx_fee
  rw [hwt]; exact mulW_eq h

/-- 2 inputs, 2 outputs, 1 kernel (weight 47) at the mainnet base 500 000; a wrapping product -/
example : Fns.tx_fee 500000 2 2 1 = 23500000 ∧ Fns.tx_fee (2^63) 0 0 2 = 0 := by
  constructor
  · rw [tx_fee_in_range 500000 2 2 1 (by omega) (by omega)]
  · have : GV.Ser.weightByIok 0 0 2 = 6 := by decide
    rw [tx_fee_eq, this]; unfold mulW; omega

/-! ## `BitmapAccumulator::chunk_start_idx`, `chunk_idx` (`NBITS` = 1024) -/

theorem nbits_val : Fns.BitmapAccumulator_NBITS = 1024 ∧ GV.Bitmap.NBITS = 1024 := ⟨rfl, rfl⟩

/-- the mask `!(NBITS - 1)` on a u64 -/
theorem chunk_mask_val : Fns.notN 64 (subW Fns.BitmapAccumulator_NBITS 1) = (2^54 - 1) * 2^10 := by
  have h1 : subW Fns.BitmapAccumulator_NBITS 1 = 1023 := by
    unfold subW Fns.BitmapAccumulator_NBITS Fns.BitmapChunk_LEN_BITS; omega
  rw [h1]; unfold Fns.notN; omega

/-- `idx & !(NBITS - 1)` rounds down to a multiple of 1024, for every u64 `idx` -/
theorem chunk_start_idx_eq (idx : Nat) (h : idx < 2^64) :
    Fns.BitmapAccumulator_chunk_start_idx idx = idx / 1024 * 1024 := by
  unfold Fns.BitmapAccumulator_chunk_start_idx
  rw [chunk_mask_val]
  apply Nat.eq_of_testBit_eq
  intro j
  rw [Nat.testBit_and, show (1024 : Nat) = 2^10 from rfl, Nat.testBit_mul_two_pow,
    Nat.testBit_mul_two_pow, Nat.testBit_two_pow_sub_one, Nat.testBit_div_two_pow]
  by_cases hj : 10 ≤ j
  · by_cases hj2 : j < 64
    · have : j - 10 < 54 := by omega
      simp [hj, this]
    · have hlt : idx < 2^j := Nat.lt_of_lt_of_le h (Nat.pow_le_pow_right (by omega) (by omega))
      simp [hj, Nat.testBit_lt_two_pow hlt]
  · simp [hj]

/-- … which is the model's `Bitmap.chunkStartIdx` -/
theorem chunk_start_idx_eq_model (idx : Nat) (h : idx < 2^64) :
    Fns.BitmapAccumulator_chunk_start_idx idx = GV.Bitmap.chunkStartIdx idx :=
  chunk_start_idx_eq idx h

/-- `idx / NBITS`, for all `idx`; the divisor is not 0 -/
theorem chunk_idx_eq (idx : Nat) : Fns.BitmapAccumulator_chunk_idx idx = idx / 1024 := rfl

theorem chunk_idx_eq_model (idx : Nat) :
    Fns.BitmapAccumulator_chunk_idx idx = GV.Bitmap.chunkIdx idx := rfl

theorem chunk_idx_ok (idx : Nat) : Fns.BitmapAccumulator_chunk_idx_ok idx = true := rfl

/-- the start index is the chunk index times 1024, and `idx` lies in that chunk -/
theorem chunk_start_idx_spec (idx : Nat) (h : idx < 2^64) :
    Fns.BitmapAccumulator_chunk_start_idx idx = Fns.BitmapAccumulator_chunk_idx idx * 1024
      ∧ Fns.BitmapAccumulator_chunk_start_idx idx ≤ idx
      ∧ idx < Fns.BitmapAccumulator_chunk_start_idx idx + 1024 := by
  rw [chunk_start_idx_eq idx h, chunk_idx_eq]
  omega

example : Fns.BitmapAccumulator_chunk_start_idx 3000 = 2048 ∧ Fns.BitmapAccumulator_chunk_idx 3000 = 2
    ∧ Fns.BitmapAccumulator_chunk_start_idx (2^64 - 1) = 2^64 - 1024 := by
  refine ⟨?_, ?_, ?_⟩
  · rw [chunk_start_idx_eq 3000 (by omega)]
  · rw [chunk_idx_eq]
  · rw [chunk_start_idx_eq _ (by omega)]

end GV.Props.XlateMisc
