import GrinVerif.Props.C14
import GrinVerif.Model.PoolNode
/-! C14, node side — the callers of the pool in a running node add no behaviour of their own, and
the reorg-cache replay keeps stempool and txpool jointly valid.

Model: `GrinVerif/Model/PoolNode.lean` (servers/src/common/adapters.rs:
`NetToChainAdapter::transaction_received`, `PoolToNetAdapter::stem_tx_accepted` + `DandelionEpoch`;
servers/src/grin/dandelion_monitor.rs: `process_fluff_phase`, `process_expired_entries`, the loop
body of `monitor_transactions`; servers/src/mining/mine_block.rs: `build_block`).

* `reorg_replay_jointly_valid` / `after_reorg_replay`: after ANY history (evictions included), a
  new head (`reconcile_block`) followed by the replay of the reorg cache
  (`reconcile_reorg_cache`: every re-added entry reconciles the stempool) leaves the txpool, and
  the stempool together with the txpool, jointly valid; `no_shared_spend` /
  `stem_never_conflicts_with_txpool` spell out what that means for a stem transaction that spends
  the output a replayed transaction spends; `replay_drops_conflicting_stem_tx` is the kernel-checked
  history (eviction, block, conflicting stem transaction, reorg, replay).
* `nstep_eq_run` / `nrun_eq_run`: every event at a node's pool — a transaction from a peer, a push
  with the relay decided by the Dandelion epoch, a pass of the Dandelion monitor (fluff phase +
  embargo) — is a (state-dependent) list of pool operations `Op`; so every node history is a pool
  history and all theorems of `Props/C14.lean` apply to it (`node_…` corollaries).
* `build_block_…`: what the miner builds from. -/
namespace GV.Props.C14Node
open GV.Pool GV.Props.C14

/-! ## the reorg-cache replay -/

/-- After ANY history — evictions at capacity and explicit ones included — a new head (next block
or reorg: `reconcile_block` with any unspent set and block content) followed by the replay of the
reorg cache (`reconcile_reorg_cache`) and by any further operations that do not evict leaves the
txpool jointly valid against the head, and the stempool together with the txpool likewise. -/
theorem reorg_replay_jointly_valid (c : Ctx) (ops : List Op) (head : GV.Chain.UState) (ver : Nat)
    (ins kers : List Nat) (more : List Op)
    (hne : NoEvict (step (run (c, {}) (ops ++ [.block head ver ins kers])) .reorgCache) more) :
    JointlyValid (run (c, {}) (ops ++ [.block head ver ins kers] ++ .reorgCache :: more)).1.outs
      (utxoIds (run (c, {}) (ops ++ [.block head ver ins kers] ++ .reorgCache :: more)).1)
      (run (c, {}) (ops ++ [.block head ver ins kers] ++ .reorgCache :: more)).2.txpool.txs ∧
    JointlyValid (run (c, {}) (ops ++ [.block head ver ins kers] ++ .reorgCache :: more)).1.outs
      (utxoIds (run (c, {}) (ops ++ [.block head ver ins kers] ++ .reorgCache :: more)).1)
      ((run (c, {}) (ops ++ [.block head ver ins kers] ++ .reorgCache :: more)).2.stempool.txs ++
       (run (c, {}) (ops ++ [.block head ver ins kers] ++ .reorgCache :: more)).2.txpool.txs) := by
  have hInv := pool_recovers_at_next_block c ops head ver ins kers
  have hsplit : run (c, {}) (ops ++ [.block head ver ins kers] ++ .reorgCache :: more) =
      run (run (c, {}) (ops ++ [.block head ver ins kers])) (.reorgCache :: more) := by
    simp only [run, List.foldl_append]
  rw [hsplit]
  refine pool_inv _ _ hInv ?_
  exact ⟨fun h => h, hne⟩

/-- the state right after the replay: no side condition at all -/
theorem after_reorg_replay (c : Ctx) (ops : List Op) (head : GV.Chain.UState) (ver : Nat)
    (ins kers : List Nat) :
    JointlyValid (run (c, {}) (ops ++ [.block head ver ins kers] ++ [.reorgCache])).1.outs
      (utxoIds (run (c, {}) (ops ++ [.block head ver ins kers] ++ [.reorgCache])).1)
      ((run (c, {}) (ops ++ [.block head ver ins kers] ++ [.reorgCache])).2.stempool.txs ++
       (run (c, {}) (ops ++ [.block head ver ins kers] ++ [.reorgCache])).2.txpool.txs) :=
  (reorg_replay_jointly_valid c ops head ver ins kers [] trivial).2

/-- joint validity in plain words, part 1: an output that no transaction of the list creates is
spent by at most one of them -/
theorem no_shared_spend {outs : List GV.Chain.OutDef} {utxo : List Nat} {txs : List Tx}
    (h : JointlyValid outs utxo txs) (o : Nat) (ho : o ∉ allOuts txs) : (allIns txs).count o ≤ 1 := by
  have h1 := h.covered o
  have h2 : (allOuts txs).count o = 0 := List.count_eq_zero.mpr ho
  have h3 : unspentCount utxo o ≤ 1 := by unfold unspentCount; split <;> omega
  omega

theorem mem_allIns {l : List Tx} {t : Tx} {o : Nat} (ht : t ∈ l) (ho : o ∈ t.ins) : o ∈ allIns l := by
  unfold allIns
  exact List.mem_flatMap.mpr ⟨t, ht, ho⟩

/-- part 2: a stem transaction and a txpool transaction never spend the same output of the chain
(an output neither pool creates) — in particular not after the reorg cache put an evicted
transaction back next to a stem transaction on the same output -/
theorem stem_never_conflicts_with_txpool {outs : List GV.Chain.OutDef} {utxo : List Nat}
    {stem pool : List Tx} (h : JointlyValid outs utxo (stem ++ pool))
    {t u : Tx} (ht : t ∈ stem) (hu : u ∈ pool) {o : Nat} (hot : o ∈ t.ins) (hou : o ∈ u.ins) :
    o ∈ allOuts (stem ++ pool) := by
  apply Classical.byContradiction
  intro ho
  have h1 := no_shared_spend h o ho
  rw [allIns_append, List.count_append] at h1
  have h2 : 0 < (allIns stem).count o := List.count_pos_iff.mpr (mem_allIns ht hot)
  have h3 : 0 < (allIns pool).count o := List.count_pos_iff.mpr (mem_allIns hu hou)
  omega

/-! ### the history, kernel-checked

`max_pool_size = 3`.  A, B, C, X (cheapest) fill the txpool to 4; the admission of D evicts X,
which stays in the reorg cache (cache = [C, X, D]).  A block confirms A and B.  Stem transactions:
S spends output 4 — the output X spends —, U is unrelated, V spends D's output.  A sibling block
without A and B becomes the head (reorg): `reconcile_block`, then `reconcile_reorg_cache` puts X
back; S is gone, U and V are still there. -/

def rpc : Ctx where
  cfg := { maxPool := 3, maxStem := 5, feeBase := 1 }
  outs := [od 1 1000, od 2 1000, od 3 1000, od 4 1000, od 5 1000, od 6 1000,
           od 11 850, od 12 825, od 13 800, od 14 975, od 15 775, od 24 875, od 26 875, od 25 650]
  head := { utxo := [(1, 0, false), (2, 0, false), (3, 0, false), (4, 0, false), (5, 0, false), (6, 0, false)],
            nrd := [], height := 5 }
  ver := 3
def rpA : Tx := { ins := [1], outs := [11], kers := [pk 1 150] }
def rpB : Tx := { ins := [2], outs := [12], kers := [pk 2 175] }
def rpC : Tx := { ins := [3], outs := [13], kers := [pk 3 200] }
def rpX : Tx := { ins := [4], outs := [14], kers := [pk 4 25] }
def rpD : Tx := { ins := [5], outs := [15], kers := [pk 5 225] }
def rpS : Tx := { ins := [4], outs := [24], kers := [pk 6 125] }
def rpU : Tx := { ins := [6], outs := [26], kers := [pk 7 125] }
def rpV : Tx := { ins := [15], outs := [25], kers := [pk 8 125] }
/-- the head after the block confirming A and B -/
def rpHead1 : GV.Chain.UState :=
  { utxo := [(3, 0, false), (4, 0, false), (5, 0, false), (6, 0, false), (11, 6, false), (12, 6, false)],
    nrd := [], height := 6 }
/-- the head after the competing (empty) block -/
def rpHead2 : GV.Chain.UState :=
  { utxo := [(1, 0, false), (2, 0, false), (3, 0, false), (4, 0, false), (5, 0, false), (6, 0, false)],
    nrd := [], height := 6 }
def rpOps1 : List Op :=
  ([rpA, rpB, rpC, rpX, rpD].map fun t => .submit .broadcast t false true) ++ [.block rpHead1 3 [1, 2] [1, 2]]
def rpOps2 : List Op := [rpS, rpU, rpV].map fun t => .submit .pushApi t true true

theorem replay_evicts_then_recovers :
    (run (rpc, {}) rpOps1).2.txpool.txs = [rpC, rpD] ∧
    (run (rpc, {}) rpOps1).2.cache.map (·.tx) = [rpC, rpX, rpD] := by
  decide

theorem replay_stem_admitted :
    (run (run (rpc, {}) rpOps1) rpOps2).2.stempool.txs = [rpS, rpU, rpV] ∧
    (run (run (rpc, {}) rpOps1) rpOps2).2.txpool.txs = [rpC, rpD] := by
  decide

/-- the reorg: after `reconcile_block` S is still in the stempool (nothing conflicts with it yet);
the replay of the cache puts X back into the txpool and S is dropped; U and V survive -/
theorem replay_drops_conflicting_stem_tx :
    (step (run (run (rpc, {}) rpOps1) rpOps2) (.block rpHead2 3 [] [])).2.stempool.txs = [rpS, rpU, rpV] ∧
    (run (run (run (rpc, {}) rpOps1) rpOps2) [.block rpHead2 3 [] [], .reorgCache]).2.txpool.txs = [rpC, rpD, rpX] ∧
    (run (run (run (rpc, {}) rpOps1) rpOps2) [.block rpHead2 3 [] [], .reorgCache]).2.stempool.txs = [rpU, rpV] := by
  decide

/-! ## a node history is a pool history -/

theorem run_nil (cs : Ctx × TxPool) : run cs [] = cs := rfl
theorem run_cons (cs : Ctx × TxPool) (op : Op) (ops : List Op) : run cs (op :: ops) = run (step cs op) ops := rfl
theorem run_append (cs : Ctx × TxPool) (a b : List Op) : run cs (a ++ b) = run (run cs a) b := by
  simp only [run, List.foldl_append]

theorem step_submit (cs : Ctx × TxPool) (src : Src) (tx : Tx) (stem ok : Bool) :
    step cs (.submit src tx stem ok) = (cs.1, (cs.2.addToPool cs.1 src tx stem ok).1) := rfl

/-- `process_fluff_phase` is at most one submission on the fluff path -/
theorem fluffPhase_run (cs : Ctx × TxPool) (e a : Bool) :
    run cs (fluffOps cs.1 cs.2 e a) = (cs.1, (cs.2.fluffPhase cs.1 e a).1) := by
  unfold fluffOps TxPool.fluffPhase
  split
  · rfl
  split
  · rfl
  split
  · rfl
  split
  · rfl
  split
  · rfl
  split
  · rfl
  · rfl

theorem expire_run (c : Ctx) (s : TxPool) (l : List Entry) :
    run (c, s) (l.map fun e => .submit .embargoExpired e.tx false false) = (c, expireLoop c s l) := by
  induction l generalizing s with
  | nil => rfl
  | cons e rest ih =>
    simp only [List.map_cons, run_cons, step_submit, expireLoop]
    exact ih _

/-- every event at the pool of a node is the list of pool operations `flat` computes for it -/
theorem nstep_eq_run (cs : Ctx × TxPool) (n : NOp) : nstep cs n = run cs (flat cs n) := by
  cases n with
  | pool op => rfl
  | recv syncing ep tx stem =>
    unfold nstep flat TxPool.transactionReceived
    cases syncing with
    | true => rfl
    | false =>
      simp only [Bool.false_eq_true, if_false, run_cons, run_nil, step_submit]
      split <;> simp_all
  | push src ep tx stem => rfl
  | monitor ep oa oe =>
    unfold nstep flat TxPool.monitorPass TxPool.expireEntries
    simp only [run_append]
    cases hst : ep.isStem with
    | true =>
      simp only [Bool.not_true, Bool.false_eq_true, if_false, run_nil]
      unfold expireOps
      exact (expire_run cs.1 cs.2 _).symm
    | false =>
      simp only [Bool.not_false, if_true]
      rw [fluffPhase_run]
      unfold expireOps
      exact (expire_run _ _ _).symm

/-- **every node history is a pool history**: transactions from peers, pushes with the relay
decided by the Dandelion epoch and passes of the Dandelion monitor, interleaved in any way with
blocks, reorg replays, evictions and truncations, lead to a state that the pool operations
`flatAll` lists lead to as well -/
theorem nrun_eq_run (cs : Ctx × TxPool) (ns : List NOp) : nrun cs ns = run cs (flatAll cs ns) := by
  induction ns generalizing cs with
  | nil => rfl
  | cons n rest ih =>
    simp only [nrun, List.foldl_cons, flatAll, run_append]
    rw [← nstep_eq_run]
    exact ih _

/-! ### so the theorems over all pool histories hold for all node histories -/

/-- whatever reached the pool of a node and however (peers while syncing or not, API pushes, the
Dandelion monitor fluffing the aggregated stempool or expired entries): every entry of txpool,
stempool and reorg cache is standalone valid and within the weight limit -/
theorem node_entries_always_valid (c : Ctx) (ns : List NOp) :
    AllValid (nrun (c, {}) ns).1 (nrun (c, {}) ns).2 := by
  rw [nrun_eq_run]
  exact entries_always_valid c _

/-- …and pays at least the minimum fee for its weight — the aggregate the monitor fluffs included -/
theorem node_fees_always_paid (c : Ctx) (ns : List NOp) :
    ∀ e, (e ∈ (nrun (c, {}) ns).2.txpool ∨ e ∈ (nrun (c, {}) ns).2.stempool ∨ e ∈ (nrun (c, {}) ns).2.cache) →
      e.tx.weight * c.cfg.feeBase ≤ e.tx.shiftedFee := by
  rw [nrun_eq_run]
  exact fees_always_paid c _

/-- joint validity of txpool and of stempool ∪ txpool after any node history whose pool operations
trigger no eviction -/
theorem node_pool_inv (c : Ctx) (ns : List NOp) (hne : NoEvict (c, {}) (flatAll (c, {}) ns)) :
    JointlyValid (nrun (c, {}) ns).1.outs (utxoIds (nrun (c, {}) ns).1) (nrun (c, {}) ns).2.txpool.txs ∧
    JointlyValid (nrun (c, {}) ns).1.outs (utxoIds (nrun (c, {}) ns).1)
      ((nrun (c, {}) ns).2.stempool.txs ++ (nrun (c, {}) ns).2.txpool.txs) := by
  rw [nrun_eq_run]
  exact pool_inv_from_empty c _ hne

/-- after any node history `prepare_mineable_transactions` succeeds and returns txpool
transactions that are jointly valid on the head -/
theorem node_mineable_set_total (c : Ctx) (ns : List NOp) :
    ∃ txs, (nrun (c, {}) ns).2.prepareMineable (nrun (c, {}) ns).1 = .ok txs ∧
      (∀ t ∈ txs, t ∈ (nrun (c, {}) ns).2.txpool.txs) ∧
      JointlyValid (nrun (c, {}) ns).1.outs (utxoIds (nrun (c, {}) ns).1) txs := by
  rw [nrun_eq_run]
  exact mineable_set_total_after_any_history c _

/-! ## what the Dandelion monitor fluffs -/

/-- a list that is empty or whose aggregate TOGETHER WITH the extra transaction passes
`validate_raw_tx` (`validate_raw_txs` with `extra_tx`: the txpool aggregate in `process_fluff_phase`) -/
def SetOKx (c : Ctx) (w : Weighting) (extra : Option Tx) (txs : List Tx) : Prop :=
  txs = [] ∨ ∃ a, aggregate (extra.toList ++ txs) = .ok a ∧ validateRawTx c w a = none

/-- `validate_raw_txs` with an extra transaction: what it keeps comes from the candidates, and —
unless nothing is kept — aggregates with the extra transaction into something that validates on
the head -/
theorem validateRawTxs_spec_extra (c : Ctx) (w : Weighting) (extra : Option Tx)
    (txs valid res : List Tx) (hv : SetOKx c w extra valid)
    (h : validateRawTxs c w extra txs valid = .ok res) :
    SetOKx c w extra res ∧ ∀ t ∈ res, t ∈ valid ∨ t ∈ txs := by
  induction txs generalizing valid with
  | nil =>
    simp only [validateRawTxs, Except.ok.injEq] at h
    subst h
    exact ⟨hv, fun t ht => Or.inl ht⟩
  | cons x rest ih =>
    simp only [validateRawTxs] at h
    split at h
    · obtain ⟨h1, h2⟩ := ih valid hv h
      refine ⟨h1, fun t ht => ?_⟩
      rcases h2 t ht with h | h
      · exact Or.inl h
      · right; simp [h]
    · rename_i a ha
      split at h
      · rename_i hva
        obtain ⟨h1, h2⟩ := ih (valid ++ [x]) (Or.inr ⟨a, by rw [← List.append_assoc]; exact ha, hva⟩) h
        refine ⟨h1, fun t ht => ?_⟩
        rcases h2 t ht with h | h
        · rcases List.mem_append.mp h with h | h
          · exact Or.inl h
          · right; simp at h; simp [h]
        · right; simp [h]
      · obtain ⟨h1, h2⟩ := ih valid hv h
        refine ⟨h1, fun t ht => ?_⟩
        rcases h2 t ht with h | h
        · exact Or.inl h
        · right; simp [h]

/-- **the fluff phase**: whenever `process_fluff_phase` submits something, it is the aggregate of
stempool transactions which, together with the aggregate of the whole txpool, validate on the
head (so the set is `NetOK`: every spend covered, no duplicate) — the stem transactions that no
longer fit the txpool are left out, not fluffed -/
theorem fluff_phase_submits_what_fits_the_txpool (c : Ctx) (s : TxPool) (e a : Bool) (agg : Tx)
    (h : fluffOps c s e a = [.submit .fluff agg false false]) :
    ∃ x fl, Pool.allAggregate c s.txpool none = .ok x ∧ aggregate fl = .ok agg ∧
      (∀ t ∈ fl, t ∈ s.stempool.txs) ∧
      (fl = [] ∨ NetOK (utxoIds c) (x.toList ++ fl)) := by
  unfold fluffOps at h
  split at h
  · simp at h
  split at h
  · simp at h
  split at h
  · simp at h
  rename_i x hx
  split at h
  · simp at h
  rename_i fl hfl
  split at h
  · simp at h
  rename_i agg' hagg
  split at h
  · simp at h
  simp only [List.cons.injEq, and_true] at h
  have hag : agg' = agg := by
    injection h
  subst hag
  obtain ⟨hset, hmem⟩ := validateRawTxs_spec_extra c .noLimit x s.stempool.txs [] fl (Or.inl rfl) hfl
  refine ⟨x, fl, hx, hagg, ?_, ?_⟩
  · intro t ht
    rcases hmem t ht with h | h
    · simp at h
    · exact h
  · rcases hset with h | ⟨a', ha', hva'⟩
    · exact Or.inl h
    · exact Or.inr (netOK_of_aggregate ha' hva')

/-! ## the miner -/

/-- `build_block` never needs its fallback to an empty block after a node history: the
transactions it builds from are the mineable set — txpool transactions, jointly valid on the head -/
theorem build_block_uses_mineable_set (c : Ctx) (ns : List NOp) :
    (nrun (c, {}) ns).2.prepareMineable (nrun (c, {}) ns).1 = .ok ((nrun (c, {}) ns).2.blockTxs (nrun (c, {}) ns).1) ∧
    (∀ t ∈ (nrun (c, {}) ns).2.blockTxs (nrun (c, {}) ns).1, t ∈ (nrun (c, {}) ns).2.txpool.txs) ∧
    JointlyValid (nrun (c, {}) ns).1.outs (utxoIds (nrun (c, {}) ns).1)
      ((nrun (c, {}) ns).2.blockTxs (nrun (c, {}) ns).1) := by
  obtain ⟨txs, h1, h2, h3⟩ := node_mineable_set_total c ns
  have hb : (nrun (c, {}) ns).2.blockTxs (nrun (c, {}) ns).1 = txs := by
    unfold TxPool.blockTxs; rw [h1]
  rw [hb]
  exact ⟨h1, h2, h3⟩

/-- the builder succeeds exactly when the chain model accepts the block assembled from the
mineable set (`mineable_block_accepted` gives the side conditions under which it does) -/
theorem build_block_iff (c : Ctx) (s : TxPool) :
    (s.buildBlock c).isSome = mineVerdict c (s.blockTxs c) := by
  unfold TxPool.buildBlock
  simp only []
  cases mineVerdict c (s.blockTxs c) <;> simp

/-! ## the Dandelion relay -/

/-- without a connected relay peer a stem epoch (or a pushed transaction with
`always_stem_our_txs`) never keeps a transaction in the stempool: `add_to_pool` falls back to
the fluff path at once -/
theorem no_relay_no_stem (ep : Epoch) (src : Src) (h : ep.relay = none)
    (hs : ep.isStem = true ∨ (src.isPushed = true ∧ ep.alwaysStemOurs = true)) :
    stemTxAccepted ep src = false := by
  unfold stemTxAccepted
  rcases hs with hs | ⟨h1, h2⟩ <;> simp [*]

/-- in a fluff epoch the stem transaction stays in the stempool for the monitor -/
theorem fluff_epoch_keeps_stem_tx (ep : Epoch) (src : Src) (h : ep.isStem = false)
    (hs : src.isPushed = false ∨ ep.alwaysStemOurs = false) : stemTxAccepted ep src = true := by
  unfold stemTxAccepted
  rcases hs with hs | hs <;> simp [*]

/-! ### non-vacuity: a monitor pass on a concrete node

Fluff epoch, stempool [U, V'] on top of the txpool [D]: the fluff phase submits the aggregate of U
and V' as one transaction; the stem entries are gone afterwards. -/

def mnc : Ctx := { rpc with cfg := { maxPool := 50, maxStem := 5, feeBase := 1 } }
def fluffEp : Epoch := { isStem := false, expired := false, alwaysStemOurs := false, relay := none }
def mnOps : List NOp :=
  [.recv false fluffEp rpD false, .push .pushApi fluffEp rpU true, .recv false fluffEp rpV true,
   .recv true fluffEp rpA false]

example : (nrun (mnc, {}) mnOps).2.stempool.txs = [rpU, rpV] ∧ (nrun (mnc, {}) mnOps).2.txpool.txs = [rpD] := by
  decide

theorem monitor_fluffs_the_aggregated_stempool :
    (nstep (nrun (mnc, {}) mnOps) (.monitor fluffEp [rpU] [])).2.stempool.txs = [] ∧
    (nstep (nrun (mnc, {}) mnOps) (.monitor fluffEp [rpU] [])).2.txpool.txs =
      [rpD, { ins := [6, 15], outs := [26, 25], kers := [pk 7 125, pk 8 125] }] ∧
    -- nothing older than the aggregation timer and the epoch still running: nothing happens
    (nstep (nrun (mnc, {}) mnOps) (.monitor fluffEp [] [])).2 = (nrun (mnc, {}) mnOps).2 ∧
    -- a stem epoch only handles the embargo: V alone runs out, U stays
    (nstep (nrun (mnc, {}) mnOps) (.monitor { fluffEp with isStem := true } [rpU, rpV] [rpV])).2.stempool.txs = [rpU] := by
  decide

/-- non-vacuity of `fluff_phase_submits_what_fits_the_txpool`: in this state the fluff phase makes
its one submission -/
example : (fluffOps (nrun (mnc, {}) mnOps).1 (nrun (mnc, {}) mnOps).2 false true).length = 1 := by
  decide

/-- the pool operations this node history amounts to: three submissions (the transaction received
while syncing is dropped) and the one fluff submission of the monitor -/
example : (flatAll (mnc, {}) (mnOps ++ [.monitor fluffEp [rpU] []])).length = 4 ∧
    NoEvict (mnc, {}) (flatAll (mnc, {}) (mnOps ++ [.monitor fluffEp [rpU] []])) := by
  decide

end GV.Props.C14Node
