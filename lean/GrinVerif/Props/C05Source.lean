import GrinVerif.Props.XlateVerify
import GrinVerif.Props.XlateVerifyD
import GrinVerif.Props.XlateVerifyT
import GrinVerif.Props.XlateVerifyZ
import GrinVerif.Props.XlateSelect
import GrinVerif.Props.XlateCtx
import GrinVerif.Props.C05Entry
/-! # C05's first sentence about the code REGENERATED FROM THE CURRENT SOURCE

`Props/C05Entry.verify_size_accepts_exactly_cycles` is about the hand-written model of
`pow::verify_size`.  Here the same statement is made about the chain of functions the translator
regenerates from `/repo` on every check run (`Gen/Fns*.lean`):

    Fns.create_pow_context            (core/src/global.rs)         — `XlateSelect.dispatch`
    Fns.new_cuckaroo_ctx / _cuckarood_ctx / _cuckaroom_ctx / _cuckarooz_ctx,
    Fns.CuckooParams_new              (core/src/pow/*.rs, common.rs) — `srcNew`
    Fns.Cuckatoo_verify / Cuckaroo_verify / Cuckarood_verify / Cuckaroom_verify / Cuckarooz_verify
                                      (core/src/pow/cuck*.rs)        — `srcVerify`
    with the edge endpoints computed by the translated `siphash24` / `siphash_block`
                                      (core/src/pow/siphash.rs)      — `srcEp`

`source_verify_size_accepts_exactly_cycles`: that chain answers `Ok(())` IF AND ONLY IF a verifier
exists for (chain type, height, edge_bits), the size is not refused, the proof has exactly
`proofsize` nonces, strictly ascending, within the edge mask, and the edges they select — endpoints
by the TRANSLATED siphash on the given keys — form one simple cycle under the selected definition.

What remains hand-modelled in this chain (three glue steps, each one line of Rust):
* `Graph::new`'s size bound in `CuckatooContext::new_impl` (`graphTooBig`; the `CuckooParams::new`
  call inside it IS the translated one);
* `set_header_nonce`: the context's `siphash_keys` are REPLACED by the keys of the header
  (`seeded`); the derivation of those keys (blake2b of `pre_pow`, `create_siphash_keys`) is outside:
  the theorem is for every key list;
* `pow::verify_size` itself — the three statements `create_pow_context(height, edge_bits,
  nonces.len(), MAX_SOLS)?; set_header_nonce(..)?; verify(..)` — is `srcVerifySize` below, written
  by hand over the translated pieces.

Hypothesis `hok`: the translated verifier's `_ok` predicate ("the Rust function returns normally: no
index out of range, every loop exits") for the parameters built.  For the soundness direction it is
implied by the premise that the real function returned at all; for completeness it is the
no-panic assumption already listed for C05 (array indices in bounds).  `create_pow_context_ok`,
`new_ctx_ok` and `CuckooParams_new_eq` (never fails) are discharged. -/
namespace GV.Props.C05Source
open GV GV.Gen GV.Gen.Fns GV.Pow GV.Props.C05 GV.Props.C05Entry
open GV.Props.XlateCons (ofPow)

/-- the translated constructor of the context parameters for variant `v` (Cuckatoo:
`CuckatooContext::new_impl` calls `CuckooParams::new(edge_bits, edge_bits, proof_size)`) -/
def srcNew (v : Variant) (eb ps : Nat) : Option CuckooParams :=
  match v with
  | .cuckatoo => Fns.CuckooParams_new eb eb ps
  | .cuckaroo => Fns.new_cuckaroo_ctx eb ps
  | .cuckarood => Fns.new_cuckarood_ctx eb ps
  | .cuckaroom => Fns.new_cuckaroom_ctx eb ps
  | .cuckarooz => Fns.new_cuckarooz_ctx eb ps

/-- `set_header_nonce`: the keys of the header replace the context's -/
def seeded (p : CuckooParams) (keys : List Nat) : CuckooParams := { p with siphash_keys := keys }

/-- the parameters `verify` runs with behind `verify_size` -/
def built (v : Variant) (eb n : Nat) (keys : List Nat) : CuckooParams :=
  ⟨n, numEdges eb, keys, edgeMaskRel eb, 2^(nodeBitsOf v eb % 64) - 1⟩

theorem srcNew_eq (v : Variant) (eb ps : Nat) (h : eb < 256) (keys : List Nat) :
    (srcNew v eb ps).map (fun p => seeded p keys) = some (built v eb ps keys) := by
  cases v
  · simp only [srcNew, GV.Props.XlateCtx.CuckooParams_new_eq]; rfl
  · simp only [srcNew, GV.Props.XlateCtx.new_cuckaroo_ctx_eq, GV.Props.XlateCtx.CuckooParams_new_eq]; rfl
  · simp only [srcNew, GV.Props.XlateCtx.new_cuckarood_ctx_eq eb ps h, GV.Props.XlateCtx.CuckooParams_new_eq]; rfl
  · simp only [srcNew, GV.Props.XlateCtx.new_cuckaroom_ctx_eq, GV.Props.XlateCtx.CuckooParams_new_eq]; rfl
  · simp only [srcNew, GV.Props.XlateCtx.new_cuckarooz_ctx_eq, GV.Props.XlateCtx.CuckooParams_new_eq]; rfl

/-- the translated `verify` of variant `v` -/
def srcVerify (v : Variant) (ct : ChainTypes) (p : CuckooParams) (proof : Proof) : Option Unit :=
  match v with
  | .cuckatoo => Cuckatoo_verify ct p proof
  | .cuckaroo => Cuckaroo_verify ct p proof
  | .cuckarood => Cuckarood_verify ct p proof
  | .cuckaroom => Cuckaroom_verify ct p proof
  | .cuckarooz => Cuckarooz_verify ct p proof

/-- "the Rust `verify` returns normally" -/
def srcVerifyOk (v : Variant) (ct : ChainTypes) (p : CuckooParams) (proof : Proof) : Bool :=
  match v with
  | .cuckatoo => Cuckatoo_verify_ok ct p proof
  | .cuckaroo => Cuckaroo_verify_ok ct p proof
  | .cuckarood => Cuckarood_verify_ok ct p proof
  | .cuckaroom => Cuckaroom_verify_ok ct p proof
  | .cuckarooz => Cuckarooz_verify_ok ct p proof

/-- the endpoints of edge `x` as the source derives them: translated `siphash24` / `siphash_block` -/
def srcEp (v : Variant) (p : CuckooParams) (x : Nat) : Nat × Nat :=
  match v with
  | .cuckatoo => GV.Props.XlateVerifyT.epSip p x
  | .cuckaroo => (let e := siphash_block p.siphash_keys x 21 false
                  (e &&& p.node_mask, (shrW e 32) &&& p.node_mask))
  | .cuckarood => (let e := siphash_block p.siphash_keys x 25 false
                  (e &&& p.node_mask, (shrW e 32) &&& p.node_mask))
  | .cuckaroom => (let e := siphash_block p.siphash_keys x 21 true
                  (e &&& p.node_mask, (shrW e 32) &&& p.node_mask))
  | .cuckarooz => (let e := siphash_block p.siphash_keys x 21 true
                  (e &&& p.node_mask, (shrW e 32) &&& p.node_mask))

theorem proofsize_tie (c : Pow.ChainType) : Fns.proofsize (ofPow c) = proofsizeOf c := by
  cases c <;> rfl

/-- the bucket mask of the code at the two proof sizes there are -/
theorem mask_at_proofsize (c : Pow.ChainType) :
    shrW (2^64-1) (leadingZeros64 (proofsizeOf c)) = 2^4 - 1 ∨
    shrW (2^64-1) (leadingZeros64 (proofsizeOf c)) = 2^6 - 1 := by
  have h8 : leadingZeros64 8 = 60 := by simp [leadingZeros64, bitLen]
  have h42 : leadingZeros64 42 = 58 := by simp [leadingZeros64, bitLen]
  have s60 : shrW (2^64-1) 60 = 2^4 - 1 := by decide
  have s58 : shrW (2^64-1) 58 = 2^6 - 1 := by decide
  cases c
  · left; show shrW (2^64-1) (leadingZeros64 8) = _; rw [h8, s60]
  · right; show shrW (2^64-1) (leadingZeros64 42) = _; rw [h42, s58]
  · right; show shrW (2^64-1) (leadingZeros64 42) = _; rw [h42, s58]
  · right; show shrW (2^64-1) (leadingZeros64 42) = _; rw [h42, s58]

/-- the model parameters the translated verifier is compared with -/
def modelP (c : Pow.ChainType) (p : CuckooParams) (n : Nat) : Params :=
  ⟨proofsizeOf c, p.edge_mask, p.proof_size, fun u => u &&& shrW (2^64-1) (leadingZeros64 n)⟩

/-- translated verifier = hand model, all five variants (from `Props/XlateVerify*`) -/
theorem srcVerify_eq_model (v : Variant) (c : Pow.ChainType) (p : CuckooParams) (eb : Nat) (ns : List Nat)
    (hok : srcVerifyOk v (ofPow c) p ⟨eb, ns⟩ = true) :
    srcVerify v (ofPow c) p ⟨eb, ns⟩ = some () ↔
      verifyOf v (modelP c p ns.length) (srcEp v p) ns = .ok () := by
  have h1 : (modelP c p ns.length).proofsize = Fns.proofsize (ofPow c) := (proofsize_tie c).symm
  cases v
  · exact GV.Props.XlateVerifyT.cuckatoo_verify_eq_sip (ofPow c) p ⟨eb, ns⟩ (modelP c p ns.length)
      h1 rfl (fun _ => rfl) hok
  · exact GV.Props.XlateVerify.cuckaroo_verify_eq (ofPow c) p ⟨eb, ns⟩ (modelP c p ns.length) _
      h1 rfl (fun _ => rfl) (fun _ => rfl) hok
  · exact GV.Props.XlateVerifyD.cuckarood_verify_eq (ofPow c) p ⟨eb, ns⟩ (modelP c p ns.length) _
      h1 rfl (fun _ => rfl) (fun _ => rfl) hok
  · exact GV.Props.XlateVerifyD.cuckaroom_verify_eq (ofPow c) p ⟨eb, ns⟩ (modelP c p ns.length) _
      h1 rfl (fun _ => rfl) (fun _ => rfl) hok
  · exact GV.Props.XlateVerifyZ.cuckarooz_verify_eq (ofPow c) p ⟨eb, ns⟩ (modelP c p ns.length) _
      h1 rfl rfl (fun _ => rfl) (fun _ => rfl) hok

/-- **the translated `verify` accepts exactly the simple cycles** of the graph whose endpoints the
translated siphash derives — every variant, for a context whose `proof_size` is the nonce count (as
`verify_size` builds it) -/
theorem srcVerify_iff (v : Variant) (c : Pow.ChainType) (p : CuckooParams) (eb : Nat) (ns : List Nat)
    (hp : p.proof_size = ns.length)
    (hok : srcVerifyOk v (ofPow c) p ⟨eb, ns⟩ = true) :
    srcVerify v (ofPow c) p ⟨eb, ns⟩ = some () ↔
      (ns.length = proofsizeOf c ∧ Ascending ns ∧ (∀ x ∈ ns, x ≤ p.edge_mask) ∧
        IsProofCycleOf v (srcEp v p) ns) := by
  rw [srcVerify_eq_model v c p eb ns hok]
  by_cases hlen : ns.length = proofsizeOf c
  · have hbk : ∀ x, (modelP c p ns.length).bk x % 2 = x % 2 := by
      intro x
      show (x &&& shrW (2^64-1) (leadingZeros64 ns.length)) % 2 = x % 2
      rw [hlen]
      rcases mask_at_proofsize c with h | h <;> rw [h, Nat.and_two_pow_sub_one_eq_mod] <;> omega
    exact verifyOf_iff v (modelP c p ns.length) (srcEp v p) ns (proofsizeOf_pos c)
      (by show p.proof_size = proofsizeOf c; rw [hp, hlen]) hbk
  · constructor
    · intro h
      exact absurd (verifyOf_ok_length v _ _ ns h) hlen
    · rintro ⟨h, _⟩
      exact absurd h hlen

/-- the part of `hok` that needs no loop invariant: on a proof of the WRONG length every translated
verifier returns normally (the count test is the first statement), so for such proofs
`srcVerify_iff` holds without the `hok` hypothesis — and says: refused -/
theorem source_wrong_length_no_panic (v : Variant) (c : Pow.ChainType) (p : CuckooParams) (eb : Nat)
    (ns : List Nat) (hp : p.proof_size = ns.length) (hlen : ns.length ≠ proofsizeOf c) :
    srcVerifyOk v (ofPow c) p ⟨eb, ns⟩ = true ∧ srcVerify v (ofPow c) p ⟨eb, ns⟩ ≠ some () := by
  have hne : (Proof_proof_size ns != Fns.proofsize (ofPow c)) = true := by
    rw [proofsize_tie]; simpa [Proof_proof_size] using hlen
  have hok : srcVerifyOk v (ofPow c) p ⟨eb, ns⟩ = true := by
    cases v <;>
      simp only [srcVerifyOk, Cuckatoo_verify_ok, Cuckaroo_verify_ok, Cuckarood_verify_ok,
        Cuckaroom_verify_ok, Cuckarooz_verify_ok, hne, if_true]
  refine ⟨hok, fun h => ?_⟩
  exact hlen ((srcVerify_iff v c p eb ns hp hok).mp h).1

/-- `pow::verify_size` over the translated pieces: `create_pow_context(height, edge_bits,
nonces.len(), MAX_SOLS)?` (translated dispatch; translated constructors; `Graph::new` bound by
hand), `set_header_nonce` (keys replaced), `verify` (translated) -/
def srcVerifySize (c : Pow.ChainType) (height eb : Nat) (keys : List Nat) (ns : List Nat) : Option Unit :=
  match GV.Props.XlateSelect.dispatch c height eb ns.length 10 with
  | none => none
  | some (v, e, n, _) =>
    if v = .cuckatoo ∧ graphTooBig e = true then none
    else
      match srcNew v e n with
      | none => none
      | some p => srcVerify v (ofPow c) (seeded p keys) ⟨eb, ns⟩

/-- **C05's first sentence about the regenerated code.** -/
theorem source_verify_size_accepts_exactly_cycles (c : Pow.ChainType) (height eb : Nat) (heb : eb < 256)
    (keys : List Nat) (ns : List Nat)
    (hok : ∀ v, selectVariant c height eb = some v →
      srcVerifyOk v (ofPow c) (built v eb ns.length keys) ⟨eb, ns⟩ = true) :
    srcVerifySize c height eb keys ns = some () ↔
      ∃ v, selectVariant c height eb = some v ∧ ¬ (v = .cuckatoo ∧ eb % 64 = 63) ∧
        ns.length = proofsizeOf c ∧ Ascending ns ∧ (∀ x ∈ ns, x ≤ edgeMaskRel eb) ∧
        IsProofCycleOf v (srcEp v (built v eb ns.length keys)) ns := by
  unfold srcVerifySize
  rw [GV.Props.XlateSelect.create_pow_context_eq]
  cases hv : selectVariant c height eb with
  | none => simp
  | some v =>
    simp only [Option.map_some]
    by_cases hbig' : v = .cuckatoo ∧ graphTooBig eb = true
    · rw [if_pos hbig']
      constructor
      · intro h; cases h
      · rintro ⟨v', hv', hnb, _⟩
        cases hv'
        exact absurd ⟨hbig'.1, (graphTooBig_iff eb).mp hbig'.2⟩ hnb
    · rw [if_neg hbig']
      have hnew := srcNew_eq v eb ns.length heb keys
      cases hs : srcNew v eb ns.length with
      | none => rw [hs] at hnew; cases hnew
      | some p =>
        rw [hs] at hnew
        simp only [Option.map_some, Option.some.injEq] at hnew
        simp only
        rw [hnew, srcVerify_iff v c (built v eb ns.length keys) eb ns rfl (hok v hv)]
        constructor
        · rintro ⟨h1, h2, h3, h4⟩
          exact ⟨v, rfl, fun h => hbig' ⟨h.1, (graphTooBig_iff eb).mpr h.2⟩, h1, h2, h3, h4⟩
        · rintro ⟨v', hv', _, h1, h2, h3, h4⟩
          cases hv'
          exact ⟨h1, h2, h3, h4⟩

/-- the glue that IS discharged: the translated dispatch and constructors never fail / panic -/
theorem source_glue_never_fails (eb ps : Nat) :
    (∀ nb, ∃ p, Fns.CuckooParams_new eb nb ps = some p) ∧
    Fns.new_cuckaroo_ctx_ok eb ps = true ∧ Fns.new_cuckarood_ctx_ok eb ps = true ∧
    Fns.new_cuckaroom_ctx_ok eb ps = true ∧ Fns.new_cuckarooz_ctx_ok eb ps = true :=
  ⟨fun nb => ⟨_, GV.Props.XlateCtx.CuckooParams_new_eq eb nb ps⟩, GV.Props.XlateCtx.new_ctx_ok eb ps⟩

/-- non-vacuity: the translator's 8-cycle (AutomatedTesting, keys `[243,1,2,3]`, 16 edges) through
this file's statement: `_ok` holds, the translated verifier accepts, hence the nonces are a cycle of
the graph the translated siphash derives -/
example : IsProofCycleOf .cuckatoo (srcEp .cuckatoo GV.Props.XlateVerifyT.wParams)
    GV.Props.XlateVerifyT.wProof.nonces :=
  ((srcVerify_iff .cuckatoo .automated GV.Props.XlateVerifyT.wParams 4
    GV.Props.XlateVerifyT.wProof.nonces rfl GV.Props.XlateVerifyT.w_ok).mp
    GV.Props.XlateVerifyT.w_accepts).2.2.2

end GV.Props.C05Source
