import GrinVerif.Props.XlatePow
/-! # Translated `CuckooParams::sipnode` (`core/src/pow/common.rs`) = `Pow.sipnode`

`GV.Gen.Fns.CuckooParams_sipnode` (file `Gen/FnsPow.lean`) is regenerated on every check run from the CURRENT
Rust source; `self.siphash_keys` / `self.node_mask` are the parameters `self_siphash_keys` (a list) /
`self_node_mask`; `Result<u64, Error>` is `Option Nat` (the function only returns `Ok`). -/

namespace GV.Props.XlateSipnode
open GV GV.Gen GV.Xlate GV.Props.XlatePow

theorem mul2_toNat (e : UInt64) : mulW 2 e.toNat = (2 * e).toNat := by
  unfold mulW; rw [UInt64.toNat_mul]; rfl

theorem and_toNat (a b : UInt64) : a.toNat &&& b.toNat = (a &&& b).toNat := by
  rw [UInt64.toNat_and]

/-- `sipnode(edge, uorv) = Ok(siphash24(keys, 2 * edge + uorv) & node_mask)` for every key, mask, edge and
`uorv` (the wrapping `2 * edge + uorv` agrees with the model's `UInt64` arithmetic) -/
theorem sipnode_eq (k : GV.Pow.Keys) (mask edge uorv : UInt64) :
    Fns.CuckooParams_sipnode [k.k0.toNat, k.k1.toNat, k.k2.toNat, k.k3.toNat] mask.toNat edge.toNat uorv.toNat
      = some (GV.Pow.sipnode k mask edge uorv).toNat := by
  unfold Fns.CuckooParams_sipnode GV.Pow.sipnode
  rw [mul2_toNat, addW_toNat, siphash24_eq]
  simp only [and_toNat]

/-- `sipnode` never panics on a 4-element key array -/
theorem sipnode_ok (a b c d mask edge uorv : Nat) :
    Fns.CuckooParams_sipnode_ok [a, b, c, d] mask edge uorv = true := by
  unfold Fns.CuckooParams_sipnode_ok; exact siphash24_ok a b c d _

example : Fns.CuckooParams_sipnode [1, 2, 3, 4] (2^29 - 1) 5 0 = some (Fns.siphash24 [1, 2, 3, 4] 10 % 2^29) := by
  unfold Fns.CuckooParams_sipnode
  have : addW (mulW 2 5) 0 = 10 := by decide
  rw [this]
  simp only [Nat.and_two_pow_sub_one_eq_mod]

end GV.Props.XlateSipnode
