import GrinVerif.Model.ChainStatus
/-! C03, observation point `ChainAdapter::block_accepted(status)`: theorems about
`Model/ChainStatus.lean` (`Chain::determine_status`, `Chain::is_on_current_chain`, the fork point of
`pipe::rewind_and_apply_fork`).

* forgetting the notifications, the instrumented functions ARE the functions every other theorem of
  C03 / C06 is about (`processBlockSingleEv_proj`, `checkOrphansEv_fst`, `deliverBlockEv_fst`,
  `deliverBlockEv_res`);
* the adapter is told about a block exactly when the block is accepted, as "head moved" (Next /
  Reorg) exactly when it became the head, and a refused delivery tells it nothing
  (`notified_iff_accepted`, `head_status_iff_head`, `fork_status_iff_fork`, `refused_tells_nothing`);
* the fields: the parent named is the block's parent, the head named by Fork / Reorg is the head
  before the block (`status_names_parent_and_old_head`);
* Next-versus-Reorg is decided against the HEADER chain: exact characterisation
  (`next_iff_header_slot`), agreement with "the block extends the old head" whenever the header
  chain holds the old head at its height (`extension_is_next_of_header_slot`), and two
  kernel-checked witnesses that it is NOT that in general: a plain extension of the head announced
  as a reorganisation while the header head sits on another fork (`extension_announced_as_reorg`),
  and a reorganisation announced as Next (`reorg_announced_as_next`). -/

namespace GV.Props.C03Status
open GV GV.Chain

/-- forgetting the notification gives `processBlockSingle` -/
theorem processBlockSingleEv_proj (p : Params) (n : Node) (b : Blk) :
    ((processBlockSingleEv p n b).1, (processBlockSingleEv p n b).2.1) = processBlockSingle p n b := by
  unfold processBlockSingleEv processBlockSingle
  cases processHeader p n b with
  | error e => rfl
  | ok n1 =>
    simp only
    cases precheck n1 b with
    | reject e => rfl
    | orphan => rfl
    | go par =>
      simp only
      cases checkBlock p n1 b par with
      | error e => rfl
      | ok _ => rfl

theorem processBlockSingleEv_fst (p : Params) (n : Node) (b : Blk) :
    (processBlockSingleEv p n b).1 = (processBlockSingle p n b).1 := by
  rw [← processBlockSingleEv_proj]

theorem processBlockSingleEv_res (p : Params) (n : Node) (b : Blk) :
    (processBlockSingleEv p n b).2.1 = (processBlockSingle p n b).2 := by
  rw [← processBlockSingleEv_proj]

/-- the adapter is told about a block iff the block is accepted -/
theorem notified_iff_accepted (p : Params) (n : Node) (b : Blk) :
    (processBlockSingleEv p n b).2.2.isSome ↔ ∀ e, (processBlockSingle p n b).2 ≠ .err e := by
  unfold processBlockSingleEv processBlockSingle storeBlock
  cases processHeader p n b with
  | error e => simp
  | ok n1 =>
    simp only
    cases precheck n1 b with
    | reject e => simp
    | orphan => simp
    | go par =>
      simp only
      cases checkBlock p n1 b par with
      | error e => simp
      | ok _ => simp only; split <;> simp

/-- a refused delivery tells the adapter nothing -/
theorem refused_tells_nothing (p : Params) (n : Node) (b : Blk) (e : Err)
    (h : (processBlockSingle p n b).2 = .err e) : (processBlockSingleEv p n b).2.2 = none := by
  cases hs : (processBlockSingleEv p n b).2.2 with
  | none => rfl
  | some s => exact absurd h ((notified_iff_accepted p n b).mp (by simp [hs]) e)

/-- the status says "head moved" (Next or Reorg) iff the block became the head -/
theorem head_status_iff_head (p : Params) (n : Node) (b : Blk) :
    (∃ s, (processBlockSingleEv p n b).2.2 = some s ∧ ∀ a h f, s ≠ .fork a h f) ↔
      (processBlockSingle p n b).2 = .okHead := by
  unfold processBlockSingleEv processBlockSingle storeBlock determineStatus
  cases processHeader p n b with
  | error e => simp
  | ok n1 =>
    simp only
    cases precheck n1 b with
    | reject e => simp
    | orphan => simp
    | go par =>
      simp only
      cases checkBlock p n1 b par with
      | error e => simp
      | ok _ =>
        simp only
        split
        · simp; split <;> simp
        · simp

/-- the status is Fork iff the block was stored without becoming the head -/
theorem fork_status_iff_fork (p : Params) (n : Node) (b : Blk) :
    (∃ a h f, (processBlockSingleEv p n b).2.2 = some (.fork a h f)) ↔
      (processBlockSingle p n b).2 = .okFork := by
  unfold processBlockSingleEv processBlockSingle storeBlock determineStatus
  cases processHeader p n b with
  | error e => simp
  | ok n1 =>
    simp only
    cases precheck n1 b with
    | reject e => simp
    | orphan => simp
    | go par =>
      simp only
      cases checkBlock p n1 b par with
      | error e => simp
      | ok _ =>
        simp only
        split
        · simp; split <;> simp
        · simp

/-- the parent named is the block's own parent, and the head named by Fork / Reorg is the head
the node had before the block (header processing never moves the body head) -/
theorem status_names_parent_and_old_head (p : Params) (n : Node) (b : Blk) (s : BStatus)
    (h : (processBlockSingleEv p n b).2.2 = some s) :
    (∀ a, s = .next a → b.parent = some a) ∧
    (∀ a hd f, s = .fork a hd f → b.parent = some a ∧ hd = n.head) ∧
    (∀ a hd f, s = .reorg a hd f → b.parent = some a ∧ hd = n.head) := by
  unfold processBlockSingleEv at h
  split at h
  · simp at h
  · rename_i n1 hn1
    have hhead : n1.head = n.head := by
      unfold processHeader at hn1
      split at hn1
      · injection hn1 with e; rw [← e]
      · split at hn1
        · simp at hn1
        · split at hn1
          · simp at hn1
          · split at hn1
            · injection hn1 with e; rw [← e]
            · split at hn1
              · simp at hn1
              · injection hn1 with e; rw [← e]
    split at h
    · simp at h
    · simp at h
    · rename_i par hpre
      have hpar : b.parent = some par := by
        unfold precheck at hpre
        split at hpre
        · simp at hpre
        · split at hpre
          · simp at hpre
          · split at hpre
            · simp at hpre
            · rename_i par' hp'
              split at hpre
              · simp at hpre
              · split at hpre
                · simp at hpre
                · split at hpre
                  · simp at hpre
                  · injection hpre with e; rw [hp', e]
      split at h
      · simp at h
      · simp only [Option.some.injEq] at h
        unfold determineStatus at h
        subst h
        refine ⟨?_, ?_, ?_⟩
        · intro a ha
          split at ha
          · split at ha
            · injection ha with e; rw [hpar, e]
            · simp at ha
          · simp at ha
        · intro a hd f ha
          split at ha
          · split at ha <;> simp at ha
          · injection ha with e1 e2 _; rw [hpar, e1, ← e2, hhead]; exact ⟨rfl, rfl⟩
        · intro a hd f ha
          split at ha
          · split at ha
            · simp at ha
            · injection ha with e1 e2 _; rw [hpar, e1, ← e2, hhead]; exact ⟨rfl, rfl⟩
          · simp at ha

/-- Next-versus-Reorg, exactly: a block that became head is announced as Next iff the old head is
not above it and the HEADER chain (the path to the header head) holds the old head at the old
head's height -/
theorem next_iff_header_slot (n1 n2 : Node) (b : Blk) (par : Nat) :
    (∃ a, determineStatus n1 n2 b par true = .next a) ↔
      (n2.heightOf n1.head ≤ b.h ∧
        (n2.headerAtHeight (n2.heightOf n1.head)).map (·.id) = some n1.head) := by
  unfold determineStatus isOnCurrentChain
  simp only [if_true]
  split
  · rename_i h
    simp only [Bool.and_eq_true, decide_eq_true_eq, beq_iff_eq] at h
    simp [h.1, h.2]
  · rename_i h
    simp only [Bool.and_eq_true, decide_eq_true_eq, beq_iff_eq] at h
    constructor
    · rintro ⟨a, ha⟩; simp at ha
    · intro hh; exact absurd hh h

/-- where the header chain holds the old head at its height (in particular whenever the header
head is the new block or a descendant of it on a consistent tree), a block that extends the old
head and became head is announced as Next with that head as parent -/
theorem extension_is_next_of_header_slot (n1 n2 : Node) (b : Blk)
    (hh : n2.heightOf n1.head ≤ b.h)
    (hs : (n2.headerAtHeight (n2.heightOf n1.head)).map (·.id) = some n1.head) :
    determineStatus n1 n2 b n1.head true = .next n1.head := by
  unfold determineStatus isOnCurrentChain
  simp [hh, hs]

/-! ### Witnesses: the announcement is decided against the header chain, not the body chain -/

private def g0 : Blk := { id := 0, parent := none, h := 0, work := 1, ver := 1, ts := 0, ins := [], outs := [(0, true)], kers := [.cb], tags := [] }
private def mk (id par h work : Nat) : Blk :=
  { id, parent := some par, h, work, ver := 1, ts := h, ins := [], outs := [(id, true)], kers := [.cb], tags := [] }

/-- body chain 0-1, header head on the sibling 2 of block 1 (heavier header, body never seen) -/
private def nA : Node :=
  { outs := [], blks := [g0, mk 1 0 1 2, mk 2 0 1 5, mk 3 1 2 3],
    headers := [0, 1, 2, 3], stored := [0, 1], head := 1, hhead := 2, orphans := [] }

/-- a plain extension of the head (block 3 on head 1) is announced as a REORGANISATION when the
header head sits on another fork -/
theorem extension_announced_as_reorg :
    determineStatus nA { nA with stored := [0, 1, 3], head := 3 } (mk 3 1 2 3) 1 true = .reorg 1 1 1 := by
  decide

/-- body head 1 with header chain 0-1-4 known by headers only; fork 0-2-3 has more work than 1 but
less than the header head 4 -/
private def nB : Node :=
  { outs := [], blks := [g0, mk 1 0 1 2, mk 4 1 2 9, mk 2 0 1 1, mk 3 2 2 3],
    headers := [0, 1, 4, 2, 3], stored := [0, 1, 2], head := 1, hhead := 4, orphans := [] }

/-- a REORGANISATION (head 1 → block 3 whose parent 2 is not the old head; fork point: the genesis)
is announced as Next, because the header chain 0-1-4 still holds the old head at height 1 -/
theorem reorg_announced_as_next :
    determineStatus nB { nB with stored := [0, 1, 2, 3], head := 3 } (mk 3 2 2 3) 2 true = .next 2 ∧
    forkPoint nB 2 = 0 := by
  decide

/-! ### `check_orphans` and `process_block` with their notifications -/

/-- one orphan taken out of the pool by `check_orphans` (the step of `checkOrphans`) -/
def orphanStep (p : Params) (acc : Node × Option Nat) (o : Nat) : Node × Option Nat :=
  match acc.1.blk o with
  | none => acc
  | some b =>
    let (n', r) := processBlockSingle p acc.1 b
    match r with
    | .err _ => (n', acc.2)
    | _ => (n', some b.h)

theorem checkOrphans_succ (p : Params) (fuel : Nat) (n : Node) (height : Nat) :
    checkOrphans p (fuel+1) n height =
      (let pr := n.orphans.partition (fun o => n.heightOf o == height)
       if pr.1.isEmpty then n else
       let step := pr.1.foldl (orphanStep p) ({ n with orphans := pr.2 }, none)
       match step.2 with
       | some hAcc => checkOrphans p fuel step.1 (hAcc + 1)
       | none => step.1) := rfl

theorem checkOrphansEv_succ (p : Params) (fuel : Nat) (n : Node) (height : Nat) :
    checkOrphansEv p (fuel+1) n height =
      (let pr := n.orphans.partition (fun o => n.heightOf o == height)
       if pr.1.isEmpty then (n, []) else
       let step := pr.1.foldl (orphanStepEv p) (({ n with orphans := pr.2 }, none), [])
       match step.1.2 with
       | some hAcc =>
         let r := checkOrphansEv p fuel step.1.1 (hAcc + 1)
         (r.1, step.2 ++ r.2)
       | none => (step.1.1, step.2)) := rfl

theorem orphanStepEv_fst (p : Params) (acc : (Node × Option Nat) × List Ev) (o : Nat) :
    (orphanStepEv p acc o).1 = orphanStep p acc.1 o := by
  unfold orphanStepEv orphanStep
  cases acc.1.1.blk o with
  | none => rfl
  | some b =>
    simp only
    rw [← processBlockSingleEv_proj]
    cases (processBlockSingleEv p acc.1.1 b).2.1 <;> rfl

/-- the fold over the orphans of one height, with and without notifications -/
theorem fold_proj (p : Params) (l : List Nat) (acc : (Node × Option Nat) × List Ev) :
    (l.foldl (orphanStepEv p) acc).1 = l.foldl (orphanStep p) acc.1 := by
  induction l generalizing acc with
  | nil => rfl
  | cons o os ih =>
    simp only [List.foldl_cons]
    rw [ih, orphanStepEv_fst]

/-- forgetting the notifications gives `checkOrphans` -/
theorem checkOrphansEv_fst (p : Params) (fuel : Nat) (n : Node) (h : Nat) :
    (checkOrphansEv p fuel n h).1 = checkOrphans p fuel n h := by
  induction fuel generalizing n h with
  | zero => rfl
  | succ k ih =>
    rw [checkOrphansEv_succ, checkOrphans_succ]
    simp only
    split
    · rfl
    · rw [fold_proj]
      simp only
      split
      · rw [ih]
      · rfl

/-- forgetting the notifications gives `deliverBlock`: the node -/
theorem deliverBlockEv_fst (p : Params) (n : Node) (b : Blk) :
    (deliverBlockEv p n b).1 = (deliverBlock p n b).1 := by
  unfold deliverBlockEv deliverBlock
  simp only
  rw [← processBlockSingleEv_proj]
  simp only
  cases (processBlockSingleEv p n b).2.1 <;> simp [checkOrphansEv_fst]

/-- forgetting the notifications gives `deliverBlock`: the result -/
theorem deliverBlockEv_res (p : Params) (n : Node) (b : Blk) :
    (deliverBlockEv p n b).2.1 = (deliverBlock p n b).2 := by
  unfold deliverBlockEv deliverBlock
  simp only
  rw [← processBlockSingleEv_proj]
  simp only
  cases (processBlockSingleEv p n b).2.1 <;> rfl

/-- a refused `process_block` tells the adapter nothing at all (no orphan is looked at either) -/
theorem refused_delivery_tells_nothing (p : Params) (n : Node) (b : Blk) (e : Err)
    (h : (deliverBlock p n b).2 = .err e) : (deliverBlockEv p n b).2.2 = [] := by
  have hr : (processBlockSingle p n b).2 = .err e := by
    unfold deliverBlock at h
    simp only at h
    cases hh : (processBlockSingle p n b).2 <;> rw [hh] at h <;> simp_all
  have hn := refused_tells_nothing p n b e hr
  have hres := processBlockSingleEv_res p n b
  unfold deliverBlockEv
  simp only [hn]
  rw [hres, hr]

/-- non-vacuity: a delivery that notifies (the genesis-only node accepts block 1 as Next) -/
private def nC : Node :=
  { blks := [g0, mk 1 0 1 2], outs := [⟨0, true, GV.Gen.REWARD⟩, ⟨1, true, GV.Gen.REWARD⟩] }

example : (deliverBlockEv {} nC (mk 1 0 1 2)).2.2 = [(1, .next 0)] := by
  decide

end GV.Props.C03Status
