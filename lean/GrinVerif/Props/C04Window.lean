import GrinVerif.Props.C04
/-! # C04 — the difficulty window in closed form, for every window length

`global::difficulty_data_to_vector` pads a window that is shorter than `DMA_WINDOW + 1 = 61`
entries (every height 1..=60 of a chain, every chain type) with simulated pre-genesis entries.  The
loop (`Model/Cons.lean padWindow`) in closed form — the `i`-th simulated entry (counting from the
oldest real one backwards) carries the LATEST header's difficulty and the timestamp
`oldest.ts ∸ (i+1)·delta` (saturating) — and the resulting vector, its difficulty sum and its time
span for EVERY length `n ≤ 60`, plus what the store-backed `DifficultyIter` yields at genesis and
for a chain of any length.  (Seed C04-C changed which header the padding copies its difficulty from:
`short_window_sum` pins it to the latest one, `h0`.) -/
namespace GV.Props.C04Window
open GV GV.Gen GV.Cons

/-- the simulated entry `i` steps before the oldest real one -/
def padEntry (ct : ChainType) (delta diff lastTs i : Nat) : HDI :=
  { ts := lastTs - (i + 1) * delta, diff := diff, scaling := initialGraphWeight ct, isSec := true }

/-- **the padding loop in closed form** -/
theorem padWindow_closed_form (ct : ChainType) (delta diff : Nat) : ∀ k lastTs,
    padWindow ct delta diff k lastTs = (List.range k).map (padEntry ct delta diff lastTs) := by
  intro k
  induction k with
  | zero => intro _; rfl
  | succ k ih =>
    intro lastTs
    rw [padWindow, ih, List.range_succ_eq_map, List.map_cons, List.map_map]
    congr 1
    · simp [padEntry, satSub]
    · apply List.map_congr_left
      intro i _
      simp only [Function.comp, padEntry, satSub]
      congr 1
      rw [Nat.sub_sub]
      congr 1
      rw [Nat.add_mul (i + 1) 1 delta]
      omega

/-- the time step of the simulated entries: the distance of the two latest headers (wrapping `u64`
subtraction), the block time for a window of one -/
def padDelta : List HDI → Nat
  | h0 :: h1 :: _ => subW h0.ts h1.ts
  | _ => BLOCK_TIME_SEC

/-- **a short window, for every length `1 ≤ n ≤ 60`**: the real entries followed (towards the past)
by `61 - n` simulated ones, oldest first -/
theorem short_window (ct : ChainType) (h0 : HDI) (rest : List HDI)
    (hn : (h0 :: rest).length ≤ DMA_WINDOW) :
    difficultyDataToVector ct (h0 :: rest) =
      some (((h0 :: rest) ++ (List.range (DMA_WINDOW + 1 - (h0 :: rest).length)).map
        (padEntry ct (padDelta (h0 :: rest)) h0.diff (((h0 :: rest).getLast?.getD h0).ts))).reverse) := by
  unfold difficultyDataToVector
  simp only
  have htake : (h0 :: rest).take (DMA_WINDOW + 1) = h0 :: rest := List.take_of_length_le (by omega)
  rw [htake, if_pos (by omega)]
  simp only
  rw [padWindow_closed_form]
  cases rest <;> rfl

theorem sumW_nil : sumW [] = 0 := rfl

/-- the simulated entries all carry the latest header's difficulty and count as secondary -/
theorem pad_entries (ct : ChainType) (delta diff lastTs k : Nat) :
    ∀ e ∈ (List.range k).map (padEntry ct delta diff lastTs),
      e.diff = diff ∧ e.isSec = true ∧ e.scaling = initialGraphWeight ct := by
  intro e he
  obtain ⟨i, _, rfl⟩ := List.mem_map.mp he
  exact ⟨rfl, rfl, rfl⟩

/-- **a short window has exactly 61 entries, its newest entry is the latest header, its oldest entry
the last simulated one** with timestamp `oldest.ts ∸ (61 - n)·delta` -/
theorem short_window_ends (ct : ChainType) (h0 : HDI) (rest : List HDI)
    (hn : (h0 :: rest).length ≤ DMA_WINDOW) :
    ∃ data, difficultyDataToVector ct (h0 :: rest) = some data ∧ data.length = DMA_WINDOW + 1 ∧
      data.getLast? = some h0 ∧
      data.head? = some (padEntry ct (padDelta (h0 :: rest)) h0.diff
        (((h0 :: rest).getLast?.getD h0).ts) (DMA_WINDOW - (h0 :: rest).length)) := by
  refine ⟨_, short_window ct h0 rest hn, ?_, ?_, ?_⟩
  · simp only [List.length_reverse, List.length_append, List.length_map, List.length_range]
    omega
  · rw [List.getLast?_reverse]; rfl
  · rw [List.head?_reverse, List.getLast?_append]
    have hk : DMA_WINDOW + 1 - (h0 :: rest).length = (DMA_WINDOW - (h0 :: rest).length) + 1 := by omega
    rw [hk, List.range_succ, List.map_append]
    simp

/-- **where the padding takes its difficulty from**: every simulated entry of a short window has the
difficulty of the LATEST real header (`last_n[0]`), whatever the older headers carry -/
theorem short_window_sum (ct : ChainType) (h0 : HDI) (rest : List HDI)
    (hn : (h0 :: rest).length ≤ DMA_WINDOW) :
    ∃ data, difficultyDataToVector ct (h0 :: rest) = some data ∧
      (data.map (·.diff)).sum =
        ((h0 :: rest).map (·.diff)).sum + (DMA_WINDOW + 1 - (h0 :: rest).length) * h0.diff := by
  refine ⟨_, short_window ct h0 rest hn, ?_⟩
  rw [List.map_reverse, List.sum_reverse, List.map_append, List.sum_append, List.map_map]
  congr 1
  have : ∀ k, ((List.range k).map ((fun x => x.diff) ∘
      padEntry ct (padDelta (h0 :: rest)) h0.diff (((h0 :: rest).getLast?.getD h0).ts))).sum = k * h0.diff := by
    intro k
    induction k with
    | zero => simp
    | succ k ih =>
      rw [List.range_succ, List.map_append, List.sum_append, ih]
      simp [padEntry, Nat.add_mul]
  exact this _

/-! ### the store-backed iterator -/

/-- at genesis: one entry, whose difficulty is the genesis header's total difficulty (the missing
parent counts as zero) -/
theorem difficultyIter_genesis (g : Hdr) :
    difficultyIter [g] = [HDI.mk (tsU64 g.ts) (subW g.totalDiff 0) g.secondaryScaling
      (isSecondary g.edgeBits)] := rfl

/-- for a chain of any length: entry `i` (latest first) is header `i`'s timestamp, scaling and PoW
kind, and the (wrapping) difference of total difficulties to its parent -/
theorem difficultyIter_get (hs : List Hdr) (i : Nat) (a b : Hdr)
    (ha : hs[i]? = some a) (hb : hs[i + 1]? = some b) :
    (difficultyIter hs)[i]? = some
      (HDI.mk (tsU64 a.ts) (subW a.totalDiff b.totalDiff) a.secondaryScaling
        (isSecondary a.edgeBits)) := by
  induction hs generalizing i with
  | nil => simp at ha
  | cons h rest ih =>
    cases i with
    | zero =>
      cases rest with
      | nil => simp at hb
      | cons p r =>
        simp only [List.getElem?_cons_zero, Option.some.injEq] at ha
        simp only [List.getElem?_cons_succ, List.getElem?_cons_zero, Option.some.injEq] at hb
        subst ha; subst hb
        simp [difficultyIter]
    | succ i =>
      simp only [List.getElem?_cons_succ] at ha hb
      have := ih i ha hb
      simpa [difficultyIter] using this

/-- heights 1..=60: the window `next_difficulty` sees for the header at height `n` of a chain with
`n` ancestors (genesis included) is short, hence padded — for every such `n` -/
theorem early_heights_are_padded (ct : ChainType) (hs : List Hdr) (h0 : Hdr) (hn : (h0 :: hs).length ≤ DMA_WINDOW) :
    ∃ data, difficultyDataToVector ct (difficultyIter (h0 :: hs)) = some data ∧
      data.length = DMA_WINDOW + 1 ∧
      (data.filter (·.isSec)).length ≥ DMA_WINDOW + 1 - (h0 :: hs).length := by
  have hlen := GV.Props.C04.difficultyIter_length (h0 :: hs)
  obtain ⟨d0, drest, hd⟩ : ∃ d0 drest, difficultyIter (h0 :: hs) = d0 :: drest := by
    cases hs <;> exact ⟨_, _, rfl⟩
  rw [hd] at hlen ⊢
  have hn' : (d0 :: drest).length ≤ DMA_WINDOW := by rw [hlen]; exact hn
  refine ⟨_, short_window ct d0 drest hn', ?_, ?_⟩
  · simp only [List.length_reverse, List.length_append, List.length_map, List.length_range]
    omega
  · rw [List.filter_reverse, List.length_reverse, List.filter_append, List.length_append]
    have : ((List.range (DMA_WINDOW + 1 - (d0 :: drest).length)).map
        (padEntry ct (padDelta (d0 :: drest)) d0.diff (((d0 :: drest).getLast?.getD d0).ts))).filter (·.isSec)
        = (List.range (DMA_WINDOW + 1 - (d0 :: drest).length)).map
        (padEntry ct (padDelta (d0 :: drest)) d0.diff (((d0 :: drest).getLast?.getD d0).ts)) := by
      apply List.filter_eq_self.mpr
      intro e he
      exact (pad_entries ct _ _ _ _ e he).2.1
    rw [this, List.length_map, List.length_range, hlen]
    omega

/-! ### non-vacuity -/

example : difficultyDataToVector .automatedTesting [⟨1060, 3, 19, false⟩, ⟨1000, 1, 20, false⟩] ≠ none ∧
    (difficultyDataToVector .automatedTesting [⟨1060, 3, 19, false⟩, ⟨1000, 1, 20, false⟩]).map
      (fun d => (d.length, (d.map (·.diff)).sum, d.head?.map (·.ts))) = some (61, 3 + 1 + 59 * 3, some 0) := by
  decide +kernel

end GV.Props.C04Window
