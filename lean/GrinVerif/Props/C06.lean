import GrinVerif.Lemmas.ChainBisim
import GrinVerif.Lemmas.ChainSim
import GrinVerif.Lemmas.ChainExampleFacts
/-! # C06 — rejected or losing-fork input leaves best-chain state untouched
(theorems on `Model/Chain.lean`; `KnownFull`, `hdrUpdate` in `Lemmas/ChainStep.lean`, `StoreInv`
in `Lemmas/ChainValid.lean`, `CoreEq`, `obsBest` in `Lemmas/ChainBisim.lean`).
Transactions (the third kind of input named by the property) are **not modelled** in the chain
model: a transaction never reaches chain state (it is validated against a read-only view and lives
in the pool, C14), so there is no chain-state theorem to state about it here. -/
namespace GV.Props.C06
open GV GV.Chain

/-- A rejected block (any error, at any validation stage, including the late root/size check
after the block was applied to the working state) leaves the head, the set of stored blocks and
therefore the reported unspent set exactly as they were. -/
theorem reject_preserves (p : Params) (n : Node) (b : Blk) (e : Err)
    (h : (processBlockSingle p n b).2 = .err e) :
    (processBlockSingle p n b).1.head = n.head ∧ (processBlockSingle p n b).1.stored = n.stored := by
  rcases processBlockSingle_cases p n b with ⟨_, _, hh, hs⟩ | ⟨n1, par, s', _, _, _, h4⟩
  · exact ⟨hh, hs⟩
  · rw [h4] at h
    exact absurd h (storeBlock_ok n1 b e)

/-- … and so does the whole delivery (no orphan is re-examined after a rejection). -/
theorem reject_preserves_deliver (p : Params) (n : Node) (b : Blk) (e : Err)
    (h : (deliverBlock p n b).2 = .err e) :
    (deliverBlock p n b).1.head = n.head ∧ (deliverBlock p n b).1.stored = n.stored := by
  unfold deliverBlock at h ⊢
  cases hr : processBlockSingle p n b with
  | mk n1 r =>
    rw [hr] at h
    cases r with
    | err e' =>
      have := reject_preserves p n b e' (by rw [hr])
      simpa [hr] using this
    | okHead => simp at h
    | okFork => simp at h

/-- A valid block on a fork that does not win: the head is unchanged; only the block itself is
added to the store. -/
theorem fork_preserves (p : Params) (n : Node) (b : Blk)
    (h : (processBlockSingle p n b).2 = .okFork) :
    (processBlockSingle p n b).1.head = n.head ∧
    (processBlockSingle p n b).1.stored = n.stored ++ [b.id] := by
  rcases processBlockSingle_cases p n b with ⟨e, he, _, _⟩ | ⟨n1, par, s', h1, _, _, h4⟩
  · rw [he] at h; cases h
  · have hf := processHeader_frame p n n1 b h1
    rw [h4] at h ⊢
    refine ⟨?_, by rw [storeBlock_stored, hf.2.1]⟩
    rcases storeBlock_head n1 b with ⟨a, _, _⟩ | ⟨_, c, _⟩
    · rw [a, hf.1]
    · rw [c] at h; cases h

/-- A rejected header changes nothing at all. -/
theorem header_reject_preserves (p : Params) (n : Node) (b : Blk)
    (hne : (deliverHeader p n b).2 ≠ "ok") :
    (deliverHeader p n b).1 = n := by
  unfold deliverHeader at *
  split at hne
  · rfl
  · simp at hne

/-- An accepted header never moves the head or the stored blocks (only the header set / header head). -/
theorem header_accept_frame (p : Params) (n : Node) (b : Blk) :
    (deliverHeader p n b).1.head = n.head ∧ (deliverHeader p n b).1.stored = n.stored := by
  unfold deliverHeader
  split
  · exact ⟨rfl, rfl⟩
  · rename_i n' h
    have := processHeader_frame p n n' b h
    exact ⟨this.1, this.2.1⟩


/-- (a) **The whole node after a rejected block.** The node is the old node except possibly
(i) `headers` / `hhead`: changed only by `hdrUpdate` (append the block's id, move the header head
if it has more work), and only when the full block is not known and the header itself passes
`validateHeader`; (ii) `orphans`: the block's id is added exactly when the error is `Orphan`. -/
theorem reject_state (p : Params) (n : Node) (b : Blk) (e : Err)
    (h : (processBlockSingle p n b).2 = .err e) :
    ∃ n1, (n1 = n ∨ (¬ KnownFull n b ∧ validateHeader p n b = none ∧ n1 = hdrUpdate n b)) ∧
      ((processBlockSingle p n b).1 = n1 ∨
       ((processBlockSingle p n b).1 = addOrphan n1 b ∧ e = "Orphan")) := by
  rcases processBlockSingle_spec p n b with ⟨e', _, hr⟩ | ⟨n1, h1, hr⟩
  · exact ⟨n, Or.inl rfl, Or.inl (by rw [hr])⟩
  · have hn1 : n1 = n ∨ (¬ KnownFull n b ∧ validateHeader p n b = none ∧ n1 = hdrUpdate n b) := by
      rcases processHeader_ok_cases p n n1 b h1 with ⟨e1, _⟩ | h2
      · exact Or.inl e1
      · exact Or.inr h2
    refine ⟨n1, hn1, ?_⟩
    rcases hr with ⟨e', _, hr⟩ | ⟨_, hr⟩ | ⟨par, _, ⟨e', _, hr⟩ | ⟨s', _, hr⟩⟩
    · left; rw [hr]
    · right
      rw [hr] at h ⊢
      refine ⟨rfl, ?_⟩
      injection h with h
      exact h.symm
    · left; rw [hr]
    · rw [hr] at h
      exact absurd h (storeBlock_ok n1 b e)

/-- … in particular everything except `headers`, `hhead`, `orphans` is untouched. -/
theorem reject_state_frame (p : Params) (n : Node) (b : Blk) (e : Err)
    (h : (processBlockSingle p n b).2 = .err e) :
    (processBlockSingle p n b).1 =
      { n with headers := (processBlockSingle p n b).1.headers,
               hhead := (processBlockSingle p n b).1.hhead,
               orphans := (processBlockSingle p n b).1.orphans } := by
  obtain ⟨n1, hn1, hr⟩ := reject_state p n b e h
  have e1 : n1 = { n with headers := n1.headers, hhead := n1.hhead } := by
    rcases hn1 with h | ⟨_, _, h⟩
    · rw [h]
    · rw [h]; rfl
  rcases hr with hr | ⟨hr, _⟩
  · rw [hr]; rw [e1]
  · rw [hr]; unfold addOrphan; rw [e1]

/-- (b) **Behavioural equivalence, one step.** Two nodes that agree on definitions, head and
stored blocks — and may differ in remembered headers, header head and orphan pool — give the
same result and the same best-chain observation (head, stored blocks, reported unspent set) after
processing any registered block whose parent header is known to both or to neither.
(`StoreInv`: known headers are valid ones; it holds along every run from a fresh node.) -/
theorem same_core_same_step (p : Params) (a c : Node) (b : Blk) (h : CoreEq a c)
    (hb : a.blk b.id = some b) (hia : StoreInv p a) (hic : StoreInv p c)
    (hp : ∀ par, b.parent = some par → (par ∈ a.headers ↔ par ∈ c.headers)) :
    (processBlockSingle p a b).2 = (processBlockSingle p c b).2 ∧
    obsBest p (processBlockSingle p a b).1 = obsBest p (processBlockSingle p c b).1 := by
  have := processBlockSingle_coreEq p a c b h hb hia hic hp
  exact ⟨this.2, this.1.obsBest p⟩

/-- (b) … hence a node that saw a rejected block `r` and a twin that never did process the next
block `b` alike, as long as `b`'s parent header is known to both or neither (the one exception:
a child of a remembered-but-rejected header is pooled as an orphan by the first node and refused
with a store error by the twin — it can never be stored by either, see `reject_bisim`). -/
theorem reject_then_step (p : Params) (n : Node) (r b : Blk) (e : Err)
    (hr : n.blk r.id = some r) (hb : n.blk b.id = some b) (hi : StoreInv p n)
    (h : (processBlockSingle p n r).2 = .err e)
    (hp : ∀ par, b.parent = some par →
      (par ∈ (processBlockSingle p n r).1.headers ↔ par ∈ n.headers)) :
    (processBlockSingle p (processBlockSingle p n r).1 b).2 = (processBlockSingle p n b).2 ∧
    obsBest p (processBlockSingle p (processBlockSingle p n r).1 b).1 =
      obsBest p (processBlockSingle p n b).1 := by
  have hd := processBlockSingle_defs p n r
  have hrp := reject_preserves p n r e h
  have hc : CoreEq (processBlockSingle p n r).1 n := ⟨hd.2, hd.1, hrp.1, hrp.2⟩
  exact same_core_same_step p _ n b hc (by rw [blk_congr hd.1]; exact hb)
    ((parts_storeInv p).toPreserved.single n r hr hi) hi hp

/-- (b) **Bisimulation along runs.** After a rejected block (any validation failure, or an unknown
parent header; the one excluded case is a block parked in the orphan pool, which is not a
rejection but a postponement: its parent is neither stored nor header-unknown), the node and a twin
that never saw the block show the same best-chain observation — head, stored blocks, reported
unspent set — after every further history of deliveries (blocks and headers, any order, orphan
pool included). The node that remembered the rejected block's header may additionally pool that
block's descendants where the twin refuses them (`StoreErr`): those can never be stored
(`Sim`, `LiveOK` in `Lemmas/ChainSim.lean` make this precise), so nothing observable differs. -/
theorem reject_bisim (p : Params) (n : Node) (r : Blk) (e : Err) (hi : Inv p n)
    (hg : ∀ g, n.blk 0 = some g → g.parent = none) (hr : n.blk r.id = some r)
    (hrej : (processBlockSingle p n r).2 = .err e)
    (hpar : ∀ par, r.parent = some par → par ∈ n.stored ∨ par ∉ n.headers)
    (es : List Event) (hreg : Registered n es) :
    obsBest p (run p (processBlockSingle p n r).1 es) = obsBest p (run p n es) :=
  GV.Chain.reject_bisim p n r e hi hg hr hrej hpar es hreg

/-- (b) … and every further *block delivery result* is the same on both, for every block that is
valid on its own path (results for never-storable blocks may differ in the error class only:
`Orphan` against `StoreErr`). -/
theorem reject_bisim_results (p : Params) (n : Node) (r : Blk) (e : Err) (hi : Inv p n)
    (hg : ∀ g, n.blk 0 = some g → g.parent = none) (hr : n.blk r.id = some r)
    (hrej : (processBlockSingle p n r).2 = .err e)
    (hpar : ∀ par, r.parent = some par → par ∈ n.stored ∨ par ∉ n.headers)
    (es : List Event) (hreg : Registered n es) (b : Blk) (hb : n.blk b.id = some b)
    (hv : VOP p n b.id) :
    (deliverBlock p (run p (processBlockSingle p n r).1 es) b).2 =
      (deliverBlock p (run p n es) b).2 := by
  have hs := reject_sim p n r e hi hr hrej hpar
  have hd := processBlockSingle_defs p n r
  have hreg' : Registered (processBlockSingle p n r).1 es := by
    intro ev hev
    rw [blk_congr hd.1]
    exact hreg ev hev
  have hl := liveVOP_ok p n hg
  have hrun := run_sim hl es _ _ hs hreg'
  have hb' : (run p (processBlockSingle p n r).1 es).blk b.id = some b := by
    rw [blk_congr (run_defs p _ es).1, blk_congr hd.1]; exact hb
  exact (deliverBlock_sim hl hrun b hb').2 (by simpa [liveVOP] using hv)

/-- The invariant `Inv` assumed above holds after every history from a fresh node. -/
theorem inv_after_run (p : Params) (n : Node) (es : List Event) (hf : Fresh n)
    (hreg : Registered n es) : Inv p (run p n es) :=
  run_preserved (preserved_inv p) n es hreg (hf.inv p)

/-! ## non-vacuity: the hypotheses hold on the concrete tree of `Lemmas/ChainExamples.lean`
(0 ── 1 ── 3 ── 4, sibling 2 of 1, invalid child 9 of 1; 3 spends the genesis output 100 and
4 re-creates that commitment) -/
section Examples
open GV.Chain.Ex

-- `reject_state`: block 9 (spends a never-created output) is rejected after its header was
-- remembered; the node differs from the old one exactly in `headers` / `hhead`
example : (processBlockSingle P (run P N [.block B1]) B9).2 = .err "AlreadySpent" := by decide
example : (processBlockSingle P (run P N [.block B1]) B9).1 =
    hdrUpdate (run P N [.block B1]) B9 := by
  obtain ⟨n1, h1, h2⟩ := reject_state P (run P N [.block B1]) B9 "AlreadySpent" (by decide)
  rcases h2 with h2 | ⟨_, h2⟩
  · rcases h1 with h1 | ⟨_, _, h1⟩
    · exfalso
      have : 9 ∈ (processBlockSingle P (run P N [.block B1]) B9).1.headers := by decide
      rw [h2, h1] at this
      revert this; decide
    · rw [h2, h1]
  · exact absurd h2 (by decide)

-- `same_core_same_step`: a node that remembered the header of the rejected 9 and its twin that
-- never saw it process block 3 alike
example :
    obsBest P (processBlockSingle P (run P N [.block B1, .block B9]) B3).1 =
    obsBest P (processBlockSingle P (run P N [.block B1]) B3).1 :=
  (same_core_same_step P (run P N [.block B1, .block B9]) (run P N [.block B1]) B3
    ⟨rfl, rfl, by decide, by decide⟩ rfl
    (run_preserved (preserved_inv P) N _ (by
      intro e he
      simp only [List.mem_cons, List.not_mem_nil, or_false] at he
      rcases he with rfl | rfl <;> rfl) (ex_fresh.inv P)).2
    (run_preserved (preserved_inv P) N _ (by
      intro e he
      simp only [List.mem_cons, List.not_mem_nil, or_false] at he
      rcases he with rfl <;> rfl) (ex_fresh.inv P)).2
    (by
      intro par hpar
      have : par = 1 := by
        have h : B3.parent = some 1 := rfl
        rw [h] at hpar; exact (Option.some.inj hpar).symm
      subst this
      decide)).2

-- `reject_bisim`: hypotheses hold for the rejected block 9 after block 1; the histories continue
-- with 9's sibling 3, a header and block 4
example : obsBest P (run P (processBlockSingle P (run P N [.block B1]) B9).1 [.block B3, .header B4, .block B4]) =
    obsBest P (run P (run P N [.block B1]) [.block B3, .header B4, .block B4]) :=
  reject_bisim P (run P N [.block B1]) B9 "AlreadySpent"
    (inv_after_run P N _ ex_fresh (by
      intro e he
      simp only [List.mem_cons, List.not_mem_nil, or_false] at he
      rcases he with rfl <;> rfl))
    (by
      intro g hg
      have h : (run P N [.block B1]).blk 0 = some G := rfl
      rw [h] at hg
      rw [← Option.some.inj hg]; rfl)
    rfl (by decide)
    (by
      intro par hpar
      have h : B9.parent = some 1 := rfl
      rw [h] at hpar
      rw [← Option.some.inj hpar]
      left; decide)
    _ (by
      intro e he
      simp only [List.mem_cons, List.not_mem_nil, or_false] at he
      rcases he with rfl | rfl | rfl <;> rfl)

end Examples
end GV.Props.C06
