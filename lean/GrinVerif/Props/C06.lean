import GrinVerif.Lemmas.ChainBisim
import GrinVerif.Lemmas.ChainSim
import GrinVerif.Lemmas.ChainExampleFacts
import GrinVerif.Lemmas.ChainMoreReject
import GrinVerif.Lemmas.ChainMoreExamples
import GrinVerif.Lemmas.ChainInputs
/-! # C06 — rejected or losing-fork input leaves best-chain state untouched
(theorems on `Model/Chain.lean`; `KnownFull`, `hdrUpdate` in `Lemmas/ChainStep.lean`, `StoreInv`
in `Lemmas/ChainValid.lean`, `CoreEq`, `obsBest` in `Lemmas/ChainBisim.lean`).
Transactions (the third kind of input named by the property) are **not modelled** in the chain
model: a transaction never reaches chain state (it is validated against a read-only view and lives
in the pool, C14), so there is no chain-state theorem to state about it here. -/
namespace GV.Props.C06
open GV GV.Chain

/-- A rejected block (any error, at any validation stage, including the late root/size check
after the block was applied to the working state) leaves the head, the set of stored blocks and
therefore the reported unspent set exactly as they were. -/
theorem reject_preserves (p : Params) (n : Node) (b : Blk) (e : Err)
    (h : (processBlockSingle p n b).2 = .err e) :
    (processBlockSingle p n b).1.head = n.head ∧ (processBlockSingle p n b).1.stored = n.stored := by
  rcases processBlockSingle_cases p n b with ⟨_, _, hh, hs⟩ | ⟨n1, par, s', _, _, _, h4⟩
  · exact ⟨hh, hs⟩
  · rw [h4] at h
    exact absurd h (storeBlock_ok n1 b e)

/-- … and so does the whole delivery (no orphan is re-examined after a rejection). -/
theorem reject_preserves_deliver (p : Params) (n : Node) (b : Blk) (e : Err)
    (h : (deliverBlock p n b).2 = .err e) :
    (deliverBlock p n b).1.head = n.head ∧ (deliverBlock p n b).1.stored = n.stored := by
  unfold deliverBlock at h ⊢
  cases hr : processBlockSingle p n b with
  | mk n1 r =>
    rw [hr] at h
    cases r with
    | err e' =>
      have := reject_preserves p n b e' (by rw [hr])
      simpa [hr] using this
    | okHead => simp at h
    | okFork => simp at h

/-- A valid block on a fork that does not win: the head is unchanged; only the block itself is
added to the store. -/
theorem fork_preserves (p : Params) (n : Node) (b : Blk)
    (h : (processBlockSingle p n b).2 = .okFork) :
    (processBlockSingle p n b).1.head = n.head ∧
    (processBlockSingle p n b).1.stored = n.stored ++ [b.id] := by
  rcases processBlockSingle_cases p n b with ⟨e, he, _, _⟩ | ⟨n1, par, s', h1, _, _, h4⟩
  · rw [he] at h; cases h
  · have hf := processHeader_frame p n n1 b h1
    rw [h4] at h ⊢
    refine ⟨?_, by rw [storeBlock_stored, hf.2.1]⟩
    rcases storeBlock_head n1 b with ⟨a, _, _⟩ | ⟨_, c, _⟩
    · rw [a, hf.1]
    · rw [c] at h; cases h

/-- A rejected header changes nothing at all. -/
theorem header_reject_preserves (p : Params) (n : Node) (b : Blk)
    (hne : (deliverHeader p n b).2 ≠ "ok") :
    (deliverHeader p n b).1 = n := by
  unfold deliverHeader at *
  split at hne
  · rfl
  · simp at hne

/-- An accepted header never moves the head or the stored blocks (only the header set / header head). -/
theorem header_accept_frame (p : Params) (n : Node) (b : Blk) :
    (deliverHeader p n b).1.head = n.head ∧ (deliverHeader p n b).1.stored = n.stored := by
  unfold deliverHeader
  split
  · exact ⟨rfl, rfl⟩
  · rename_i n' h
    have := processHeader_frame p n n' b h
    exact ⟨this.1, this.2.1⟩


/-- (a) **The whole node after a rejected block.** The node is the old node except possibly
(i) `headers` / `hhead`: changed only by `hdrUpdate` (append the block's id, move the header head
if it has more work), and only when the full block is not known and the header itself passes
`validateHeader`; (ii) `orphans`: the block's id is added exactly when the error is `Orphan`. -/
theorem reject_state (p : Params) (n : Node) (b : Blk) (e : Err)
    (h : (processBlockSingle p n b).2 = .err e) :
    ∃ n1, (n1 = n ∨ (¬ KnownFull n b ∧ validateHeader p n b = none ∧ n1 = hdrUpdate n b)) ∧
      ((processBlockSingle p n b).1 = n1 ∨
       ((processBlockSingle p n b).1 = addOrphan n1 b ∧ e = "Orphan")) := by
  rcases processBlockSingle_spec p n b with ⟨e', _, hr⟩ | ⟨n1, h1, hr⟩
  · exact ⟨n, Or.inl rfl, Or.inl (by rw [hr])⟩
  · have hn1 : n1 = n ∨ (¬ KnownFull n b ∧ validateHeader p n b = none ∧ n1 = hdrUpdate n b) := by
      rcases processHeader_ok_cases p n n1 b h1 with ⟨e1, _⟩ | h2
      · exact Or.inl e1
      · exact Or.inr h2
    refine ⟨n1, hn1, ?_⟩
    rcases hr with ⟨e', _, hr⟩ | ⟨_, hr⟩ | ⟨par, _, ⟨e', _, hr⟩ | ⟨s', _, hr⟩⟩
    · left; rw [hr]
    · right
      rw [hr] at h ⊢
      refine ⟨rfl, ?_⟩
      injection h with h
      exact h.symm
    · left; rw [hr]
    · rw [hr] at h
      exact absurd h (storeBlock_ok n1 b e)

/-- … in particular everything except `headers`, `hhead`, `orphans` is untouched. -/
theorem reject_state_frame (p : Params) (n : Node) (b : Blk) (e : Err)
    (h : (processBlockSingle p n b).2 = .err e) :
    (processBlockSingle p n b).1 =
      { n with headers := (processBlockSingle p n b).1.headers,
               hhead := (processBlockSingle p n b).1.hhead,
               orphans := (processBlockSingle p n b).1.orphans } := by
  obtain ⟨n1, hn1, hr⟩ := reject_state p n b e h
  have e1 : n1 = { n with headers := n1.headers, hhead := n1.hhead } := by
    rcases hn1 with h | ⟨_, _, h⟩
    · rw [h]
    · rw [h]; rfl
  rcases hr with hr | ⟨hr, _⟩
  · rw [hr]; rw [e1]
  · rw [hr]; unfold addOrphan; rw [e1]

/-- (b) **Behavioural equivalence, one step.** Two nodes that agree on definitions, head and
stored blocks — and may differ in remembered headers, header head and orphan pool — give the
same result and the same best-chain observation (head, stored blocks, reported unspent set) after
processing any registered block whose parent header is known to both or to neither.
(`StoreInv`: known headers are valid ones; it holds along every run from a fresh node.) -/
theorem same_core_same_step (p : Params) (a c : Node) (b : Blk) (h : CoreEq a c)
    (hb : a.blk b.id = some b) (hia : StoreInv p a) (hic : StoreInv p c)
    (hp : ∀ par, b.parent = some par → (par ∈ a.headers ↔ par ∈ c.headers)) :
    (processBlockSingle p a b).2 = (processBlockSingle p c b).2 ∧
    obsBest p (processBlockSingle p a b).1 = obsBest p (processBlockSingle p c b).1 := by
  have := processBlockSingle_coreEq p a c b h hb hia hic hp
  exact ⟨this.2, this.1.obsBest p⟩

/-- (b) … hence a node that saw a rejected block `r` and a twin that never did process the next
block `b` alike, as long as `b`'s parent header is known to both or neither (the one exception:
a child of a remembered-but-rejected header is pooled as an orphan by the first node and refused
with a store error by the twin — it can never be stored by either, see `reject_bisim`). -/
theorem reject_then_step (p : Params) (n : Node) (r b : Blk) (e : Err)
    (hr : n.blk r.id = some r) (hb : n.blk b.id = some b) (hi : StoreInv p n)
    (h : (processBlockSingle p n r).2 = .err e)
    (hp : ∀ par, b.parent = some par →
      (par ∈ (processBlockSingle p n r).1.headers ↔ par ∈ n.headers)) :
    (processBlockSingle p (processBlockSingle p n r).1 b).2 = (processBlockSingle p n b).2 ∧
    obsBest p (processBlockSingle p (processBlockSingle p n r).1 b).1 =
      obsBest p (processBlockSingle p n b).1 := by
  have hd := processBlockSingle_defs p n r
  have hrp := reject_preserves p n r e h
  have hc : CoreEq (processBlockSingle p n r).1 n := ⟨hd.2, hd.1, hrp.1, hrp.2⟩
  exact same_core_same_step p _ n b hc (by rw [blk_congr hd.1]; exact hb)
    ((parts_storeInv p).toPreserved.single n r hr hi) hi hp

/-- (b) **Bisimulation along runs.** After a rejected block (any validation failure, or an unknown
parent header; the one excluded case is a block parked in the orphan pool, which is not a
rejection but a postponement: its parent is neither stored nor header-unknown), the node and a twin
that never saw the block show the same best-chain observation — head, stored blocks, reported
unspent set — after every further history of deliveries (blocks and headers, any order, orphan
pool included). The node that remembered the rejected block's header may additionally pool that
block's descendants where the twin refuses them (`StoreErr`): those can never be stored
(`Sim`, `LiveOK` in `Lemmas/ChainSim.lean` make this precise), so nothing observable differs. -/
theorem reject_bisim (p : Params) (n : Node) (r : Blk) (e : Err) (hi : Inv p n)
    (hg : ∀ g, n.blk 0 = some g → g.parent = none) (hr : n.blk r.id = some r)
    (hrej : (processBlockSingle p n r).2 = .err e)
    (hpar : ∀ par, r.parent = some par → par ∈ n.stored ∨ par ∉ n.headers)
    (es : List Event) (hreg : Registered n es) :
    obsBest p (run p (processBlockSingle p n r).1 es) = obsBest p (run p n es) :=
  GV.Chain.reject_bisim p n r e hi hg hr hrej hpar es hreg

/-- (b) … and every further *block delivery result* is the same on both, for every block that is
valid on its own path (results for never-storable blocks may differ in the error class only:
`Orphan` against `StoreErr`). -/
theorem reject_bisim_results (p : Params) (n : Node) (r : Blk) (e : Err) (hi : Inv p n)
    (hg : ∀ g, n.blk 0 = some g → g.parent = none) (hr : n.blk r.id = some r)
    (hrej : (processBlockSingle p n r).2 = .err e)
    (hpar : ∀ par, r.parent = some par → par ∈ n.stored ∨ par ∉ n.headers)
    (es : List Event) (hreg : Registered n es) (b : Blk) (hb : n.blk b.id = some b)
    (hv : VOP p n b.id) :
    (deliverBlock p (run p (processBlockSingle p n r).1 es) b).2 =
      (deliverBlock p (run p n es) b).2 := by
  have hs := reject_sim p n r e hi hr hrej hpar
  have hd := processBlockSingle_defs p n r
  have hreg' : Registered (processBlockSingle p n r).1 es := by
    intro ev hev
    rw [blk_congr hd.1]
    exact hreg ev hev
  have hl := liveVOP_ok p n hg
  have hrun := run_sim hl es _ _ hs hreg'
  have hb' : (run p (processBlockSingle p n r).1 es).blk b.id = some b := by
    rw [blk_congr (run_defs p _ es).1, blk_congr hd.1]; exact hb
  exact (deliverBlock_sim hl hrun b hb').2 (by simpa [liveVOP] using hv)

/-- The invariant `Inv` assumed above holds after every history from a fresh node. -/
theorem inv_after_run (p : Params) (n : Node) (es : List Event) (hf : Fresh n)
    (hreg : Registered n es) : Inv p (run p n es) :=
  run_preserved (preserved_inv p) n es hreg (hf.inv p)

/-! ## every refusal class, at the level of whole deliveries

`Refused p n b` (`Lemmas/ChainMoreReject.lean`): `deliverBlock` (= `Chain::process_block`) returns
an error and head, stored blocks and the reported unspent set are what they were. -/

/-- **Any error, any stage**: a delivery that returns an error leaves the whole best-chain
observation (head, stored blocks, reported unspent set) unchanged. -/
theorem every_refusal_preserves (p : Params) (n : Node) (b : Blk) (e : Err)
    (h : (deliverBlock p n b).2 = .err e) : obsBest p (deliverBlock p n b).1 = obsBest p n := by
  obtain ⟨_, _, h1, h2, h3⟩ := refused_of_err p n b e h
  simp [obsBest, h1, h2, h3]

/-- **The refusal classes, exhaustively.** An error returned by a delivery comes from exactly one
of four stages, in the code's order: the header gate (`process_block_header`: unknown parent
header, height, version, timestamp, `hdr:` tag = PoW / difficulty / root fault), the cheap
pre-checks (`is_known` / `check_known`: `Unfit`, `OldBlock`; no parent: `StoreErr`), the orphan
check (`Orphan`), or the full validation against the parent's replayed state (`checkBlock`). -/
theorem refusal_stages (p : Params) (n : Node) (b : Blk) (e : Err)
    (h : (deliverBlock p n b).2 = .err e) :
    processHeader p n b = .error e ∨
    ∃ n1, processHeader p n b = .ok n1 ∧
      (precheck n1 b = .reject e ∨ (precheck n1 b = .orphan ∧ e = "Orphan") ∨
       ∃ par, precheck n1 b = .go par ∧ checkBlock p n1 b par = .error e) := by
  have h1 := deliverBlock_err_inv p n b e h
  rcases processBlockSingle_spec p n b with ⟨e', he, hr⟩ | ⟨n1, hn1, hr⟩
  · left
    rw [hr] at h1
    injection h1 with h1
    rw [← h1]; exact he
  · right
    refine ⟨n1, hn1, ?_⟩
    rcases hr with ⟨e', he, hr⟩ | ⟨ho, hr⟩ | ⟨par, hg, ⟨e', he, hr⟩ | ⟨s', _, hr⟩⟩
    · left
      rw [hr] at h1
      injection h1 with h1
      rw [← h1]; exact he
    · right; left
      rw [hr] at h1
      injection h1 with h1
      exact ⟨ho, h1.symm⟩
    · right; right
      rw [hr] at h1
      injection h1 with h1
      exact ⟨par, hg, h1 ▸ he⟩
    · rw [hr] at h1
      exact absurd h1 (storeBlock_ok n1 b e)

/-- … and an error of the full validation is the parent's state being unavailable, a body fault
(`Block::validate`), or — with a valid body — a state fault (`validate_utxo`, maturity, block sums,
NRD, late root / size check), in that order. -/
theorem checkBlock_error_classes (p : Params) (n : Node) (b : Blk) (par : Nat) (e : Err)
    (h : checkBlock p n b par = .error e) :
    (∃ e', n.stateAt p par = .error e' ∧ e = s!"ParentState:{e'}") ∨
    (∃ sPar, n.stateAt p par = .ok sPar ∧
      (validateBody p n.outs b (sumVals n.outs b.ins) = some e ∨
       (validateBody p n.outs b (sumVals n.outs b.ins) = none ∧ stateChecks p sPar b = some e))) := by
  unfold checkBlock at h
  cases hst : n.stateAt p par with
  | error e' =>
    rw [hst] at h
    injection h with h
    exact Or.inl ⟨e', rfl, h.symm⟩
  | ok sPar =>
    rw [hst] at h
    dsimp only at h
    right
    refine ⟨sPar, rfl, ?_⟩
    cases hv : validateBody p n.outs b (sumVals n.outs b.ins) with
    | some e' =>
      rw [hv] at h
      dsimp only at h
      injection h with h
      exact Or.inl (by rw [h])
    | none =>
      rw [hv] at h
      dsimp only at h
      right
      refine ⟨rfl, ?_⟩
      unfold applyBlock at h
      cases hs : stateChecks p sPar b with
      | none => rw [hs] at h; cases h
      | some e' =>
        rw [hs] at h
        injection h with h
        rw [h]

/-- **Each body-fault class** — signature / range-proof / sorting fault (`body:` tag), a commitment
twice among the inputs or the outputs, cut-through, a lock height above the block, an NRD kernel
before its era, a wrong coinbase claim, an unbalanced body, a blinding-level kernel-sum fault
(`ksum:` tag) — makes every node refuse the block with the best-chain observation unchanged. -/
theorem body_fault_refused (p : Params) (n : Node) (b : Blk)
    (h : hasTag b "body:" ≠ none ∨ dupInBody b = true ∨ cutThroughViolation b = true ∨
      lockViolation b = true ∨ nrdEraViolation b = true ∨ coinbaseMismatch p n.outs b = true ∨
      valueMismatch p n.outs b (sumVals n.outs b.ins) = true ∨ hasTag b "ksum:" ≠ none) :
    Refused p n b := by
  apply refused_of_body_fault
  intro hv
  obtain ⟨h1, h2, h3, h4, h5, h6, h7, h8⟩ := (validateBody_none_iff p n.outs b _).mp hv
  rcases h with h | h | h | h | h | h | h | h
  · exact h h1
  · rw [h2] at h; cases h
  · rw [h3] at h; cases h
  · rw [h4] at h; cases h
  · rw [h5] at h; cases h
  · rw [h6] at h; cases h
  · rw [h7] at h; cases h
  · exact h h8

/-- **Each state-fault class** — against the replayed state `sPar` of the block's own parent: an
input that is not unspent, an immature coinbase spend, a duplicate of an unspent commitment, a
block-sums fault (`sums:` tag), an NRD kernel too close to the previous occurrence, a root / size
mismatch detected after the block was applied to the working state (`late:` tag) — makes every
node refuse the block with the best-chain observation unchanged. -/
theorem state_fault_refused (p : Params) (n : Node) (b : Blk) (par : Nat) (sPar : UState)
    (hpar : b.parent = some par) (hst : n.stateAt p par = .ok sPar)
    (h : b.ins.all sPar.has = false ∨ immature p sPar b = true ∨ dupOutput sPar b = true ∨
      hasTag b "sums:" ≠ none ∨ nrdBad sPar b = true ∨ hasTag b "late:" ≠ none) :
    Refused p n b := by
  apply refused_of_state_fault
  intro par' sPar' hpar' hst' hn
  rw [hpar] at hpar'
  cases hpar'
  rw [hst] at hst'
  cases hst'
  obtain ⟨h1, h2, h3, h4, h5, h6⟩ := (stateChecks_none_iff p sPar b).mp hn
  rcases h with h | h | h | h | h | h
  · rw [h1] at h; cases h
  · rw [h2] at h; cases h
  · rw [h3] at h; cases h
  · exact h h4
  · rw [h5] at h; cases h
  · exact h h6

/-- **An input that claims the wrong features** (inputs in the features-and-commit form of protocol
version 2 / JSON: plain for a coinbase output or coinbase for a plain one; the claims are compared
with the outputs the block names — a static fact — and the mismatch is evaluated where
`validate_utxo` compares the full output identifier): the block is refused by every node in every
state, head, stored blocks and reported unspent set unchanged, whatever else the block contains. -/
theorem input_features_mismatch_refused (p : Params) (n : Node) (outs : List OutDef) (b : Blk)
    (inf : List (Nat × Bool)) (h : featMismatch outs inf = true) :
    Refused p n (b.withInputFeatures outs inf) :=
  refused_of_featMismatch p n outs b inf h

/-- **Each header-fault class** — unknown parent header, wrong height, version, timestamp not after
the parent's, `hdr:` tag (PoW, difficulty, `prev_root`) — on any node reached by a history (store
invariant), for a block that is not already known: refused, and the node is left unchanged
*entirely* (nothing is remembered of an invalid header). -/
theorem header_fault_refused (p : Params) (n : Node) (b : Blk) (hb : n.blk b.id = some b)
    (hi : StoreInv p n) (hk : ¬ KnownFull n b) (h : validateHeader p n b ≠ none) :
    Refused p n b ∧ (deliverBlock p n b).1 = n :=
  refused_of_header_fault p n b hb hi hk h

/-- **A block whose parent is unavailable**: no parent at all, or a parent without a replayable
path — refused. -/
theorem parent_state_fault_refused (p : Params) (n : Node) (b : Blk)
    (h : ∀ par, b.parent = some par → ∃ e, n.stateAt p par = .error e) : Refused p n b :=
  refused_of_parent_state p n b h

/-! ## headers and orphans never change the body state -/

/-- **Header-only deliveries never change the body state**: after any sequence of header
deliveries — accepted or refused, on any fork, moving `header_head` anywhere — head, stored blocks
and the reported unspent set are what they were. -/
theorem header_deliveries_preserve (p : Params) (bs : List Blk) : ∀ (n : Node),
    obsBest p (run p n (bs.map Event.header)) = obsBest p n := by
  induction bs with
  | nil => intro n; rfl
  | cons b bs ih =>
    intro n
    rw [List.map_cons, run_cons, ih]
    have hf := header_accept_frame p n b
    have hd := deliverHeader_defs p n b
    simp only [step, obsBest, hf.1, hf.2, reportedUtxo_congr hd.1 hf.1 p]

/-- **A block parked as an orphan changes nothing but the pool** (and possibly the remembered
header): same head, stored blocks, reported unspent set; the pool is the old pool plus the block. -/
theorem orphan_parked_preserves (p : Params) (n : Node) (b : Blk)
    (h : (deliverBlock p n b).2 = .err "Orphan") :
    obsBest p (deliverBlock p n b).1 = obsBest p n ∧
    ∀ o, o ∈ (deliverBlock p n b).1.orphans → o ∈ n.orphans ∨ o = b.id := by
  refine ⟨every_refusal_preserves p n b _ h, ?_⟩
  have h1 := deliverBlock_err_inv p n b _ h
  rw [deliverBlock_of_err p n b _ h1]
  intro o ho
  exact pbs_orphans_sub p n b o ho

/-- every block delivery of the history is refused (parked orphans and refusals at any stage
alike); header deliveries are unconstrained -/
def AllRefused (p : Params) : Node → List Event → Prop
  | _, [] => True
  | n, .block b :: es => (∃ e, (deliverBlock p n b).2 = .err e) ∧ AllRefused p (step p n (.block b)) es
  | n, .header b :: es => AllRefused p (step p n (.header b)) es

/-- **Orphans never change the body state until one is connected**: along any history in which no
block delivery is accepted — blocks refused at any stage, blocks parked in the orphan pool, headers
accepted or refused, in any order and number — the best-chain observation never changes. (The pool
is examined only by `check_orphans`, which runs only after a block was accepted.) -/
theorem all_refused_preserves (p : Params) (es : List Event) : ∀ (n : Node), AllRefused p n es →
    obsBest p (run p n es) = obsBest p n := by
  induction es with
  | nil => intro n _; rfl
  | cons ev es ih =>
    intro n h
    rw [run_cons]
    cases ev with
    | block b =>
      obtain ⟨⟨e, he⟩, hrest⟩ := h
      rw [ih _ hrest]
      exact every_refusal_preserves p n b e he
    | header b =>
      rw [ih _ h]
      exact header_deliveries_preserve p [b] n

/-! ## non-vacuity: the hypotheses hold on the concrete tree of `Lemmas/ChainExamples.lean`
(0 ── 1 ── 3 ── 4, sibling 2 of 1, invalid child 9 of 1; 3 spends the genesis output 100 and
4 re-creates that commitment) -/
section Examples
open GV.Chain.Ex

-- `reject_state`: block 9 (spends a never-created output) is rejected after its header was
-- remembered; the node differs from the old one exactly in `headers` / `hhead`
example : (processBlockSingle P (run P N [.block B1]) B9).2 = .err "AlreadySpent" := by decide
example : (processBlockSingle P (run P N [.block B1]) B9).1 =
    hdrUpdate (run P N [.block B1]) B9 := by
  obtain ⟨n1, h1, h2⟩ := reject_state P (run P N [.block B1]) B9 "AlreadySpent" (by decide)
  rcases h2 with h2 | ⟨_, h2⟩
  · rcases h1 with h1 | ⟨_, _, h1⟩
    · exfalso
      have : 9 ∈ (processBlockSingle P (run P N [.block B1]) B9).1.headers := by decide
      rw [h2, h1] at this
      revert this; decide
    · rw [h2, h1]
  · exact absurd h2 (by decide)

-- `same_core_same_step`: a node that remembered the header of the rejected 9 and its twin that
-- never saw it process block 3 alike
example :
    obsBest P (processBlockSingle P (run P N [.block B1, .block B9]) B3).1 =
    obsBest P (processBlockSingle P (run P N [.block B1]) B3).1 :=
  (same_core_same_step P (run P N [.block B1, .block B9]) (run P N [.block B1]) B3
    ⟨rfl, rfl, by decide, by decide⟩ rfl
    (run_preserved (preserved_inv P) N _ (by
      intro e he
      simp only [List.mem_cons, List.not_mem_nil, or_false] at he
      rcases he with rfl | rfl <;> rfl) (ex_fresh.inv P)).2
    (run_preserved (preserved_inv P) N _ (by
      intro e he
      simp only [List.mem_cons, List.not_mem_nil, or_false] at he
      rcases he with rfl <;> rfl) (ex_fresh.inv P)).2
    (by
      intro par hpar
      have : par = 1 := by
        have h : B3.parent = some 1 := rfl
        rw [h] at hpar; exact (Option.some.inj hpar).symm
      subst this
      decide)).2

-- `reject_bisim`: hypotheses hold for the rejected block 9 after block 1; the histories continue
-- with 9's sibling 3, a header and block 4
example : obsBest P (run P (processBlockSingle P (run P N [.block B1]) B9).1 [.block B3, .header B4, .block B4]) =
    obsBest P (run P (run P N [.block B1]) [.block B3, .header B4, .block B4]) :=
  reject_bisim P (run P N [.block B1]) B9 "AlreadySpent"
    (inv_after_run P N _ ex_fresh (by
      intro e he
      simp only [List.mem_cons, List.not_mem_nil, or_false] at he
      rcases he with rfl <;> rfl))
    (by
      intro g hg
      have h : (run P N [.block B1]).blk 0 = some G := rfl
      rw [h] at hg
      rw [← Option.some.inj hg]; rfl)
    rfl (by decide)
    (by
      intro par hpar
      have h : B9.parent = some 1 := rfl
      rw [h] at hpar
      rw [← Option.some.inj hpar]
      left; decide)
    _ (by
      intro e he
      simp only [List.mem_cons, List.not_mem_nil, or_false] at he
      rcases he with rfl | rfl | rfl <;> rfl)

end Examples

/-! ### refusal classes on the tree of `Lemmas/ChainMoreExamples.lean` -/
section ClassExamples
open GV.Chain.Ex2

-- `state_fault_refused`: the `sums:` tag (b5) and the duplicate commitment (b4) on the head b1
example : Refused Ex2.P NB Ex2.B5 :=
  state_fault_refused Ex2.P NB Ex2.B5 11 _ rfl
    (rfl : NB.stateAt Ex2.P 11 = .ok { utxo := [(100, 0, false), (121, 1, true)], nrd := [], height := 1 })
    (Or.inr (Or.inr (Or.inr (Or.inl (by simp [hasTag, Ex2.B5])))))

-- `body_fault_refused`: a3 names an input twice
example : Refused Ex2.P NA Ex2.A3 := body_fault_refused Ex2.P NA Ex2.A3 (Or.inr (Or.inl (by decide)))

-- `every_refusal_preserves` / `refusal_stages`: a2 (double spend) is refused by `checkBlock`
example : obsBest Ex2.P (deliverBlock Ex2.P NA Ex2.A2).1 = obsBest Ex2.P NA :=
  every_refusal_preserves Ex2.P NA Ex2.A2 "AlreadySpent" (by decide)

-- `header_deliveries_preserve`: headers of the whole b-fork change nothing of the body state
example : obsBest Ex2.P (run Ex2.P NA ([Ex2.B1, Ex2.B2, Ex2.B3].map Event.header)) = obsBest Ex2.P NA :=
  header_deliveries_preserve Ex2.P _ NA
example : (run Ex2.P NA ([Ex2.B1, Ex2.B2, Ex2.B3].map Event.header)).hhead = 13 := by decide

-- `orphan_parked_preserves` / `all_refused_preserves`: the header of b1, then b2 before b1 (parked as
-- an orphan), then a refused block and another header
example : (deliverBlock Ex2.P (run Ex2.P NA [.header Ex2.B1]) Ex2.B2).2 = .err "Orphan" := by decide
example : obsBest Ex2.P
      (run Ex2.P NA [.header Ex2.B1, .block Ex2.B2, .block Ex2.A2, .header Ex2.B3]) =
    obsBest Ex2.P NA :=
  all_refused_preserves Ex2.P _ NA (by
    simp only [AllRefused]
    exact ⟨⟨"Orphan", by decide⟩, ⟨"AlreadySpent", by decide⟩, trivial⟩)

-- `input_features_mismatch_refused`: b2 (spends the plain output 100) with its input claiming coinbase
example : featMismatch Ex2.outs [(100, true)] = true := by decide
example : Refused Ex2.P NB (Ex2.B2.withInputFeatures Ex2.outs [(100, true)]) :=
  input_features_mismatch_refused Ex2.P NB Ex2.outs Ex2.B2 [(100, true)] (by decide)
-- … while the same block with the right claim is b2 itself, which is accepted on b1
example : Ex2.B2.withInputFeatures Ex2.outs [(100, false)] = Ex2.B2 := by
  simp [Blk.withInputFeatures, featMismatch, Ex2.outs]
example : (deliverBlock Ex2.P NB Ex2.B2).2 = .okHead := by decide
end ClassExamples
end GV.Props.C06
