import GrinVerif.Lemmas.ChainBasic
/-! # C06 — rejected or losing-fork input leaves best-chain state untouched -/
namespace GV.Props.C06
open GV GV.Chain

/-- A rejected block (any error, at any validation stage, including the late root/size check
after the block was applied to the working state) leaves the head, the set of stored blocks and
therefore the reported unspent set exactly as they were. -/
theorem reject_preserves (p : Params) (n : Node) (b : Blk) (e : Err)
    (h : (processBlockSingle p n b).2 = .err e) :
    (processBlockSingle p n b).1.head = n.head ∧ (processBlockSingle p n b).1.stored = n.stored := by
  rcases processBlockSingle_cases p n b with ⟨_, _, hh, hs⟩ | ⟨n1, par, s', _, _, _, h4⟩
  · exact ⟨hh, hs⟩
  · rw [h4] at h
    exact absurd h (storeBlock_ok n1 b e)

/-- … and so does the whole delivery (no orphan is re-examined after a rejection). -/
theorem reject_preserves_deliver (p : Params) (n : Node) (b : Blk) (e : Err)
    (h : (deliverBlock p n b).2 = .err e) :
    (deliverBlock p n b).1.head = n.head ∧ (deliverBlock p n b).1.stored = n.stored := by
  unfold deliverBlock at h ⊢
  cases hr : processBlockSingle p n b with
  | mk n1 r =>
    rw [hr] at h
    cases r with
    | err e' =>
      have := reject_preserves p n b e' (by rw [hr])
      simpa [hr] using this
    | okHead => simp at h
    | okFork => simp at h

/-- A valid block on a fork that does not win: the head is unchanged; only the block itself is
added to the store. -/
theorem fork_preserves (p : Params) (n : Node) (b : Blk)
    (h : (processBlockSingle p n b).2 = .okFork) :
    (processBlockSingle p n b).1.head = n.head ∧
    (processBlockSingle p n b).1.stored = n.stored ++ [b.id] := by
  rcases processBlockSingle_cases p n b with ⟨e, he, _, _⟩ | ⟨n1, par, s', h1, _, _, h4⟩
  · rw [he] at h; cases h
  · have hf := processHeader_frame p n n1 b h1
    rw [h4] at h ⊢
    refine ⟨?_, by rw [storeBlock_stored, hf.2.1]⟩
    rcases storeBlock_head n1 b with ⟨a, _, _⟩ | ⟨_, c, _⟩
    · rw [a, hf.1]
    · rw [c] at h; cases h

/-- A rejected header changes nothing at all. -/
theorem header_reject_preserves (p : Params) (n : Node) (b : Blk)
    (hne : (deliverHeader p n b).2 ≠ "ok") :
    (deliverHeader p n b).1 = n := by
  unfold deliverHeader at *
  split at hne
  · rfl
  · simp at hne

/-- An accepted header never moves the head or the stored blocks (only the header set / header head). -/
theorem header_accept_frame (p : Params) (n : Node) (b : Blk) :
    (deliverHeader p n b).1.head = n.head ∧ (deliverHeader p n b).1.stored = n.stored := by
  unfold deliverHeader
  split
  · exact ⟨rfl, rfl⟩
  · rename_i n' h
    have := processHeader_frame p n n' b h
    exact ⟨this.1, this.2.1⟩

end GV.Props.C06
