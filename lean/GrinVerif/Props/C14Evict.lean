import GrinVerif.Props.C14
/-! C14 — exactly when does removing a transaction keep the pool jointly valid?

`Pool::evict_transaction` removes ONE entry and nothing re-validates afterwards; the recorded
finding `C14-evict-breaks-joint-validity` is a case in which the removed transaction is not a leaf
of the dependency forest.  `Props/C14.lean` has the sufficient condition (`evict_preserves`) and the
witnesses.  Here the condition is an **iff**, so that every OTHER way in which an eviction could
break joint validity is a deviation from a theorem:

* `evict_preserves_iff` — for a jointly valid list `pre ++ E :: post` and a standalone-shaped `E`
  (no duplicate input / output, no output that is also an input: what `Transaction::validate`
  checks): the rest `pre ++ post` is jointly valid **iff** (a) for every output of `E` the spends of
  that commitment in the rest are covered without `E`'s instance, and (b) for every input of `E`
  the instance `E` consumed does not become a second live instance of its commitment;
* `evict_preserves_iff_leaf` — with fresh output commitments (no commitment created twice, none
  duplicating an unspent one — the situation of every pool outside the re-created-commitment
  corner): the rest is jointly valid **iff no remaining transaction spends an output of `E`**
  (`E` is a leaf of the dependency forest);
* `evict_filter_is_removal` — `Pool::evict_transaction`'s `retain(|x| x.tx != E)` is that removal
  when `E` occurs once;
* `evict_recreated_commitment_witness` — condition (b) is not redundant. -/
namespace GV.Props.C14Evict
open GV.Pool

theorem count_one {l : List Nat} {o : Nat} (hn : l.Nodup) (ho : o ∈ l) : l.count o = 1 := by
  have h1 := List.nodup_iff_count.mp hn o
  have h2 : 0 < l.count o := List.count_pos_iff.mpr ho
  omega

theorem count_split (pre post : List Tx) (E : Tx) (o : Nat) :
    (allIns (pre ++ E :: post)).count o = (allIns (pre ++ post)).count o + E.ins.count o ∧
    (allOuts (pre ++ E :: post)).count o = (allOuts (pre ++ post)).count o + E.outs.count o := by
  simp only [allIns_append, allOuts_append, allIns_cons, allOuts_cons, List.count_append]
  omega

/-- **Eviction keeps joint validity iff …** (counting form, no freshness assumption) -/
theorem evict_preserves_iff {outs : List GV.Chain.OutDef} {utxo : List Nat} {pre post : List Tx} {E : Tx}
    (h : JointlyValid outs utxo (pre ++ E :: post))
    (hins : E.ins.Nodup) (houts : E.outs.Nodup) (hself : ∀ o ∈ E.outs, o ∉ E.ins) :
    JointlyValid outs utxo (pre ++ post) ↔
      (∀ o ∈ E.outs, (allIns (pre ++ post)).count o ≤ (allOuts (pre ++ post)).count o + unspentCount utxo o) ∧
      (∀ i ∈ E.ins, (allOuts (pre ++ post)).count i + unspentCount utxo i ≤ (allIns (pre ++ post)).count i + 1) := by
  constructor
  · intro hr
    exact ⟨fun o _ => hr.covered o, fun i _ => hr.noDup i⟩
  · rintro ⟨ha, hb⟩
    have hbal : ∀ t ∈ pre ++ post, t.balanced outs = true := by
      intro t ht
      apply h.balanced t
      rcases List.mem_append.mp ht with h' | h'
      · exact List.mem_append.mpr (Or.inl h')
      · exact List.mem_append.mpr (Or.inr (List.mem_cons_of_mem _ h'))
    have key : ∀ o, (allIns (pre ++ post)).count o ≤ (allOuts (pre ++ post)).count o + unspentCount utxo o ∧
        (allOuts (pre ++ post)).count o + unspentCount utxo o ≤ (allIns (pre ++ post)).count o + 1 := by
      intro o
      obtain ⟨e1, e2⟩ := count_split pre post E o
      have c1 := h.covered o
      have c2 := h.noDup o
      rw [e1, e2] at c1 c2
      by_cases ho : o ∈ E.outs
      · have hi : E.ins.count o = 0 := List.count_eq_zero.mpr (hself o ho)
        have hc : E.outs.count o = 1 := count_one houts ho
        have := ha o ho
        omega
      · have hc : E.outs.count o = 0 := List.count_eq_zero.mpr ho
        by_cases hi : o ∈ E.ins
        · have hc' : E.ins.count o = 1 := count_one hins hi
          have := hb o hi
          omega
        · have hc' : E.ins.count o = 0 := List.count_eq_zero.mpr hi
          omega
    exact ⟨fun o => (key o).1, fun o => (key o).2, hbal⟩

/-- **… iff the evicted transaction is a leaf**, when output commitments are fresh -/
theorem evict_preserves_iff_leaf {outs : List GV.Chain.OutDef} {utxo : List Nat} {pre post : List Tx} {E : Tx}
    (h : JointlyValid outs utxo (pre ++ E :: post))
    (hins : E.ins.Nodup) (hself : ∀ o ∈ E.outs, o ∉ E.ins)
    (fresh : (allOuts (pre ++ E :: post)).Nodup ∧ ∀ o ∈ allOuts (pre ++ E :: post), o ∉ utxo) :
    JointlyValid outs utxo (pre ++ post) ↔ ∀ o ∈ E.outs, o ∉ allIns (pre ++ post) := by
  have houts : E.outs.Nodup := by
    have := fresh.1
    simp only [allOuts_append, allOuts_cons] at this
    exact (List.nodup_append.mp (List.nodup_append.mp this).2.1).1
  have hcnt : ∀ o, (allOuts (pre ++ post)).count o + E.outs.count o ≤ 1 := by
    intro o
    have := List.nodup_iff_count.mp fresh.1 o
    rw [(count_split pre post E o).2] at this
    exact this
  rw [evict_preserves_iff h hins houts hself]
  constructor
  · rintro ⟨ha, _⟩ o ho hin
    have h1 := ha o ho
    have hpos : 0 < (allIns (pre ++ post)).count o := List.count_pos_iff.mpr hin
    have hc : E.outs.count o = 1 := count_one houts ho
    have hu : unspentCount utxo o = 0 := by
      have : o ∈ allOuts (pre ++ E :: post) := by
        simp only [allOuts_append, allOuts_cons, List.mem_append]
        exact Or.inr (Or.inl ho)
      simp [unspentCount, fresh.2 o this]
    have := hcnt o
    omega
  · intro hleaf
    refine ⟨fun o ho => ?_, fun i hi => ?_⟩
    · rw [List.count_eq_zero.mpr (hleaf o ho)]; omega
    · have := hcnt i
      by_cases hm : i ∈ allOuts (pre ++ post)
      · have hu : unspentCount utxo i = 0 := by
          have : i ∈ allOuts (pre ++ E :: post) := by
            simp only [allOuts_append, allOuts_cons, List.mem_append] at hm ⊢
            rcases hm with h' | h'
            · exact Or.inl h'
            · exact Or.inr (Or.inr h')
          simp [unspentCount, fresh.2 i this]
        omega
      · have := List.count_eq_zero.mpr hm
        have := unspentCount_le utxo i
        omega

/-- `retain(|x| x.tx != E)` removes exactly `E` when it occurs once -/
theorem evict_filter_is_removal (pre post : List Tx) (E : Tx) (h1 : E ∉ pre) (h2 : E ∉ post) :
    (pre ++ E :: post).filter (fun x => x != E) = pre ++ post := by
  have hp : ∀ l : List Tx, E ∉ l → l.filter (fun x => x != E) = l := by
    intro l hl
    apply List.filter_eq_self.mpr
    intro x hx
    simp only [bne_iff_ne, ne_eq]
    intro hxe; subst hxe; exact hl hx
  simp [List.filter_append, hp pre h1, hp post h2]

/-- **`Pool::evict_transaction`, exactly**: for a jointly valid txpool with fresh output commitments in
which the chosen victim `E` occurs once: the pool after the eviction is jointly valid **iff** no remaining
entry spends an output of `E`.  (The recorded finding C14-evict-breaks-joint-validity is the case where
`bucket_transactions` puts a non-leaf last; any other way of breaking joint validity by an eviction would
contradict this theorem.) -/
theorem evict_keeps_joint_validity_iff {c : Ctx} {p : Pool} {E : Tx} {pre post : List Tx}
    (hev : p.evictee c = some E) (hsplit : p.txs = pre ++ E :: post) (h1 : E ∉ pre) (h2 : E ∉ post)
    (h : JointlyValid c.outs (utxoIds c) p.txs)
    (hins : E.ins.Nodup) (hself : ∀ o ∈ E.outs, o ∉ E.ins)
    (fresh : (allOuts p.txs).Nodup ∧ ∀ o ∈ allOuts p.txs, o ∉ utxoIds c) :
    JointlyValid c.outs (utxoIds c) (p.evict c).txs ↔ ∀ o ∈ E.outs, o ∉ allIns (pre ++ post) := by
  have hx : (p.evict c).txs = pre ++ post := by
    unfold Pool.evict
    rw [hev]
    simp only []
    rw [txs_filter, hsplit]
    exact evict_filter_is_removal pre post E h1 h2
  rw [hx]
  rw [hsplit] at h fresh
  exact evict_preserves_iff_leaf h hins hself fresh

open GV.Props.C14 in
/-- non-vacuity of `evict_keeps_joint_validity_iff`: the pool [A, D], victim D -/
example : JointlyValid wc.outs (utxoIds wc) (Pool.evict wc [⟨wA, .broadcast⟩, ⟨wD, .broadcast⟩]).txs :=
  (evict_keeps_joint_validity_iff (c := wc) (p := [⟨wA, .broadcast⟩, ⟨wD, .broadcast⟩]) (E := wD)
    (pre := [wA]) (post := []) (by decide) rfl (by decide) (by decide)
    ((jointlyValidB_iff _ _ _).mp (by decide)) (by decide) (by decide) (by decide)).mpr (by decide)

open GV.Props.C14 in
/-- non-vacuity: [A, D] independent, evicting D -/
example : JointlyValid wc.outs (utxoIds wc) ([wA] ++ []) :=
  (evict_preserves_iff_leaf (pre := [wA]) (post := []) (E := wD)
    ((jointlyValidB_iff _ _ _).mp (by decide)) (by decide) (by decide) (by decide)).mpr (by decide)

open GV.Props.C14 in
/-- the recorded finding read through the iff: evicting B from [A, B, C] (C spends an output of B)
cannot keep joint validity -/
theorem evict_non_leaf_breaks :
    ¬ JointlyValid wc.outs (utxoIds wc) ([wA] ++ [wC]) := by
  intro h
  have := (evict_preserves_iff_leaf (pre := [wA]) (post := [wC]) (E := wB)
    ((jointlyValidB_iff _ _ _).mp (by decide)) (by decide) (by decide) (by decide)).mp h
  exact absurd (this 12 (by decide)) (by decide)

/-- condition (b) is not redundant: output 1 unspent; `E` spends it, `A` re-creates commitment 1
(spending 2).  [E, A] is jointly valid; `E` is a leaf (nobody spends its output 5); without `E`
commitment 1 has two live instances. -/
theorem evict_recreated_commitment_witness :
    let outs : List GV.Chain.OutDef := [⟨1, false, 10⟩, ⟨2, false, 10⟩, ⟨5, false, 9⟩]
    let E : Tx := { ins := [1], outs := [5], kers := [{ kid := 1, ker := .plain 1 }] }
    let A : Tx := { ins := [2], outs := [1], kers := [{ kid := 2, ker := .plain 0 }] }
    jointlyValidB outs [1, 2] [E, A] = true ∧ (∀ o ∈ E.outs, o ∉ allIns [A]) ∧
    jointlyValidB outs [1, 2] [A] = false := by decide

end GV.Props.C14Evict
