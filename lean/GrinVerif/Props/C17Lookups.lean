import GrinVerif.Gen.Locks
/-! # C17 — every multi-look-up operation does all its look-ups under one lock hold (with the reviewed exceptions)

Session 9, increment 2.  An independent seeded change moved one look-up of a public reader (the
`output_pos` index) OUTSIDE the txhashset lock, the MMR look-up staying inside: a read torn across a
writer's critical section.  It shows only when the same commitment sits at different MMR positions on
two competing forks and a reader polls during the reorg (harness run `conc torn` builds that history and
reports the failing schedule as a concrete input).  Here the regenerated table carries, per public
operation, the store look-ups made outside any `header_pmmr` / `txhashset` hold (`Gen.dbReadsOutside`,
by store method name, regenerated from chain.rs on every run) and the obligation is DECIDED over it:
an operation that combines look-ups of mutable state across more than one hold / outside its hold has the
torn-read shape (`Conc.tornShape`) - the complete list of such operations is fixed below, each reviewed;
every other operation does all its look-ups under one hold (or makes at most one mutable look-up). -/
namespace GV.Props.C17Lookups
open GV GV.Conc GV.Gen

def outsideOf (n : String) : List String := (dbReadsOutside.lookup n).getD []

/-- **The reviewed exceptions, complete**: (operation, number of lock holds, mutable look-ups outside any
hold).  Reviewed:
* `process_block` - header step, known/orphan checks, body step, orphan walk: each step re-reads what it
  needs inside its own write-lock hold (`batch.head()`); the outside `head()` reads feed `is_known` only.
* `validate_tx` - UTXO check under the read locks, then the NRD kernel check in a read-only extension:
  two views, each check is against one committed state (harness: the pool runs, `conc mix`).
* `verify_coinbase_maturity`, `validate`, `block_height_range_to_pmmr_indices` - `head_header()` before the
  hold: the header read is a committed head; the hold then works on the state it finds (a stale header
  is an older committed state, not a torn one).
* `segmenter`, `txhashset_archive_header`, `txhashset_archive_header_header_only`, `fork_point`,
  `txhashset_write`, `compact` - the archive header / tail / head are looked up before the hold (two
  findings of earlier sessions sat exactly here: `C17-segmenter-cache-poisoned-header-ahead`,
  `C17-txhashset-write-window`; both repaired, runs `segcache`, `zipwin`, `long`).
* `get_kernel_height` - `head()` outside, then several read holds (finding `C17-kernel-index-spin`, repaired;
  run `probe`, `race`).
* `Desegmenter::…` - the state-receiving phase (several holds by design; run `pibd`).
Any change of chain.rs that gives another operation this shape - e.g. a reader that looks the `output_pos`
index up before taking `txhashset.read()` - or changes the look-ups of a listed one breaks this theorem and
names the operation. -/
theorem torn_shape_ops_are_the_reviewed_ones :
    (lockTable.filter (fun e => tornShape (holdsOf e.2) (outsideOf e.1))).map
        (fun e => (e.1, holdsOf e.2, mutableOnly (outsideOf e.1))) =
      [("process_block", 6, ["head", "head", "head", "head"]),
       ("validate_tx", 2, []),
       ("verify_coinbase_maturity", 2, ["head_header", "head"]),
       ("validate", 1, ["head_header"]),
       ("segmenter", 2, ["head"]),
       ("txhashset_archive_header", 1, ["head"]),
       ("txhashset_archive_header_header_only", 1, ["header_head"]),
       ("fork_point", 1, ["head"]),
       ("txhashset_write", 3, ["head", "header_head"]),
       ("compact", 2, ["tail", "head", "head"]),
       ("block_height_range_to_pmmr_indices", 2, ["head_header"]),
       ("get_kernel_height", 4, ["head"]),
       ("Desegmenter::check_progress", 2, []),
       ("Desegmenter::validate_complete_state", 4, []),
       ("Desegmenter::apply_next_segments", 7, []),
       ("Desegmenter::next_desired_segments", 7, [])] := by
  decide +kernel

/-- **Every other operation does all its look-ups under one lock hold**: at most one hold; with a hold,
no mutable look-up outside it; without one, at most one mutable look-up (one LMDB snapshot). -/
theorem lookups_under_one_hold :
    ∀ e ∈ lockTable,
      e.1 ∉ ["process_block", "validate_tx", "verify_coinbase_maturity", "validate", "segmenter",
             "txhashset_archive_header", "txhashset_archive_header_header_only", "fork_point", "txhashset_write",
             "compact", "block_height_range_to_pmmr_indices", "get_kernel_height", "Desegmenter::check_progress",
             "Desegmenter::validate_complete_state", "Desegmenter::apply_next_segments",
             "Desegmenter::next_desired_segments"] →
      holdsOf e.2 ≤ 1 ∧
      (holdsOf e.2 = 1 → mutableOnly (outsideOf e.1) = []) ∧
      (holdsOf e.2 = 0 → (mutableOnly (outsideOf e.1)).length ≤ 1) := by
  decide +kernel

/-- The readers the run `conc torn` polls take exactly ONE hold and make NO store look-up outside it, mutable
or not (`get_header_for_output` reads the header by hash INSIDE its hold). -/
theorem polled_readers_one_hold_nothing_outside :
    ∀ n ∈ ["get_unspent", "get_output_pos", "get_unspent_output_at", "get_header_for_output", "get_merkle_proof",
           "get_merkle_proof_for_pos", "validate_inputs", "get_last_n_output", "get_last_n_rangeproof",
           "get_last_n_kernel", "unspent_outputs_by_pmmr_index"],
      (lockTable.lookup n).map holdsOf = some 1 ∧ dbReadsOutside.lookup n = some [] := by
  decide +kernel

/-- the two generated lists cover the table, in order -/
theorem db_reads_cover_table :
    dbReadsOutside.map (·.1) = lockTable.map (·.1) ∧ dbReadsInside.map (·.1) = lockTable.map (·.1) := by
  decide +kernel

/-- the shape flags what it should: the seeded read (index outside, MMR inside), two holds, two mutable
lock-free look-ups; and not a by-hash look-up next to a hold, nor a single lock-free look-up -/
example : tornShape 1 ["get_output_pos_height"] = true := by decide
example : tornShape 2 [] = true := by decide
example : tornShape 0 ["head", "header_head"] = true := by decide
example : tornShape 1 ["get_block_header"] = false := by decide
example : tornShape 0 ["head", "get_block_header"] = false := by decide
example : tornShape 1 [] = false := by decide
example : holdsOf [.acq .hp .R, .acq .ts .R, .mark .dbread, .rel .ts, .rel .hp, .mark .dbread, .acq .ts .R, .rel .ts] = 2 := by decide

end GV.Props.C17Lookups
