import GrinVerif.Model.SerJson
import GrinVerif.Lemmas.DecMerkle
import GrinVerif.Lemmas.SerBits
/-! # C10 / C11 — the JSON (serde) forms: hex field codecs

Round trip `from_hex(to_hex b) = b` for ALL byte strings through the faithful model of
`util::from_hex` (trim, `0x` prefixes, `from_str_radix`), hence round trips of the four byte-string
field codecs of `secp_ser.rs` on the values the writers produce; what the readers accept beyond that
(any length for commitments and blinding factors: padded / truncated - normalised, not refused); no
string makes any of the four field readers panic (the range-proof reader did for more than 675 bytes
until repair dd4fd942d: `proof_field_unrepaired_panic_iff`). Model: `Model/SerJson.lean`; tied to the code by the `serjson` harness (`ser jhex` lines). -/
namespace GV.Props.C10Json
open GV GV.Ser GV.Dec GV.SerJson

theorem hexLow_lt {r : Bytes} (n : Nat) (h : n < 16) : hexLow n < 128 ∧ GV.Dec.hexVal (hexLow n) = some n ∧ hexLow n ≠ 43
    ∧ wsPrefix (hexLow n :: r) = 0 := by
  unfold hexLow GV.Dec.hexVal
  have : n = 0 ∨ n = 1 ∨ n = 2 ∨ n = 3 ∨ n = 4 ∨ n = 5 ∨ n = 6 ∨ n = 7 ∨ n = 8 ∨ n = 9 ∨ n = 10 ∨ n = 11
      ∨ n = 12 ∨ n = 13 ∨ n = 14 ∨ n = 15 := by omega
  rcases this with h | h | h | h | h | h | h | h | h | h | h | h | h | h | h | h <;> subst h <;> simp [wsPrefix]

theorem hexLoop_step (a b v : Nat) (r vs : Bytes) (hnc : isCont a = false)
    (hv : fromStrRadix16 a b = some v) (hc : ∀ c t, r = c :: t → isCont c = false)
    (hr : hexLoop r = .ok vs) : hexLoop (a :: b :: r) = .ok (v :: vs) := by
  cases r with
  | nil =>
    have : vs = [] := by simpa [hexLoop] using hr.symm
    subst this
    simp [hexLoop, hnc, hv]
  | cons c t =>
    have h2 := hc c t rfl
    rw [hexLoop]
    simp only [hnc, h2, hv, hr, Bool.false_eq_true, ↓reduceIte]

/-- the conversion loop gives the bytes back -/
theorem hexLoop_toHexB : ∀ b : Bytes, AllBytes b → hexLoop (toHexB b) = .ok b := by
  intro b
  induction b with
  | nil => intro _; rfl
  | cons x r ih =>
    intro hb
    have hx : x < 256 := hb x (List.mem_cons_self ..)
    have hr : AllBytes r := fun y hy => hb y (List.mem_cons_of_mem _ hy)
    obtain ⟨a1, a2, a3, _⟩ := hexLow_lt (r := []) (x / 16) (by omega)
    obtain ⟨b1, b2, _, _⟩ := hexLow_lt (r := []) (x % 16) (by omega)
    have hnc : isCont (hexLow (x / 16)) = false := by simp [isCont]; omega
    have hv : fromStrRadix16 (hexLow (x / 16)) (hexLow (x % 16)) = some x := by
      simp only [fromStrRadix16, a3, ↓reduceIte, a2, b2]
      congr 1
      omega
    refine hexLoop_step _ _ _ _ _ hnc hv ?_ (ih hr)
    intro c t hct
    cases r with
    | nil => simp [toHexB] at hct
    | cons y r' =>
      simp only [toHexB, List.cons.injEq] at hct
      have hy : y < 256 := hr y (List.mem_cons_self ..)
      obtain ⟨c1, _, _, _⟩ := hexLow_lt (r := []) (y / 16) (by omega)
      rw [← hct.1]
      simp [isCont]; omega

theorem toHexB_length (b : Bytes) : (toHexB b).length = 2 * b.length := by
  induction b with
  | nil => rfl
  | cons x r ih => simp [toHexB, ih]; omega

theorem toHexB_ascii (b : Bytes) (hb : AllBytes b) : ∀ c ∈ toHexB b, c < 128 := by
  induction b with
  | nil => intro c hc; simp [toHexB] at hc
  | cons x r ih =>
    have hx : x < 256 := hb x (List.mem_cons_self ..)
    have hr : AllBytes r := fun y hy => hb y (List.mem_cons_of_mem _ hy)
    intro c hc
    simp only [toHexB, List.mem_cons] at hc
    rcases hc with rfl | rfl | hc
    · exact (hexLow_lt (r := []) _ (by omega)).1
    · exact (hexLow_lt (r := []) _ (by omega)).1
    · exact ih hr c hc

/-- every character the writer emits is one of `0-9a-f` (48..57, 97..102) -/
theorem toHexB_chars (b : Bytes) (hb : AllBytes b) : ∀ c ∈ toHexB b, (48 ≤ c ∧ c ≤ 57) ∨ (97 ≤ c ∧ c ≤ 102) := by
  induction b with
  | nil => intro c hc; simp [toHexB] at hc
  | cons x r ih =>
    have hx : x < 256 := hb x (List.mem_cons_self ..)
    have hr : AllBytes r := fun y hy => hb y (List.mem_cons_of_mem _ hy)
    intro c hc
    simp only [toHexB, List.mem_cons] at hc
    rcases hc with rfl | rfl | hc
    · unfold hexLow; split <;> omega
    · unfold hexLow; split <;> omega
    · exact ih hr c hc

/-- field codecs, given that `from_hex` returned the bytes (`h`): what each conversion does -/
theorem commit_field (s b : Bytes) (h : utilFromHex s = .ok b) : commitFromHex s = .ok (padTo 33 b) := by
  simp [commitFromHex, ofHex, h]
theorem blind_field (s b : Bytes) (h : utilFromHex s = .ok b) : blindFromHex s = .ok (padTo 32 b) := by
  simp [blindFromHex, ofHex, h]

/-- a value of the right length is not changed by the conversion … -/
theorem padTo_exact (n : Nat) (v : Bytes) (h : v.length = n) : padTo n v = v := by
  subst h
  simp [padTo]

/-- … every other length is ACCEPTED and padded with zeros / truncated (normalised, not refused):
`"commit": "ff"` is the commitment `ff 00 … 00` -/
theorem padTo_length (n : Nat) (v : Bytes) : (padTo n v).length = n := by
  simp [padTo]; omega

example : padTo 33 [255] = 255 :: List.replicate 32 0 := by decide

/-- the signature field: at least 64 bytes, the first 64 count, the rest is ignored -/
theorem sig_field (valid : Bytes → Bool) (s b : Bytes) (h : utilFromHex s = .ok b) (hl : 64 ≤ b.length)
    (hv : valid (b.take 64) = true) : sigFromHex valid s = .ok (b.take 64) := by
  have : ¬ b.length < 64 := by omega
  simp [sigFromHex, ofHex, h, this, hv]

theorem sig_field_short (valid : Bytes → Bool) (s b : Bytes) (h : utilFromHex s = .ok b) (hl : b.length < 64) :
    sigFromHex valid s = .err := by
  simp [sigFromHex, ofHex, h, hl]

/-- the range proof field: up to 675 bytes come back as they are (`plen` = their number) … -/
theorem proof_field (s b : Bytes) (h : utilFromHex s = .ok b) (hl : b.length ≤ MAX_PROOF) :
    proofFromHex s = .ok b := by
  have : ¬ b.length > MAX_PROOF := by omega
  simp [proofFromHex, ofHex, h, this]

/-- … and one more byte is REFUSED (repair dd4fd942d, finding C11-rangeproof-json-overlong-panics) -/
theorem proof_field_refuses_beyond_675 (s b : Bytes) (h : utilFromHex s = .ok b) (hl : MAX_PROOF < b.length) :
    proofFromHex s = .err := by
  simp [proofFromHex, ofHex, h, hl]

/-- the range-proof reader has no panic branch: for ALL strings -/
theorem proof_field_no_panic (s : Bytes) : proofFromHex s ≠ .panic := by
  have hnp := GV.Dec.utilFromHex_noPanic s
  unfold proofFromHex ofHex
  cases hu : utilFromHex s with
  | ok b =>
    simp only
    split <;> (intro hc; cases hc)
  | err => intro hc; cases hc
  | panic st => exact absurd hu (hnp st)

/-- what the unrepaired reader did: it panicked exactly when more than 675 bytes were decoded (the
witness replayed by the `json` run as a regression probe) -/
theorem proof_field_unrepaired_panic_iff (s : Bytes) :
    proofFromHexUnrepaired s = .panic ↔ ∃ b, utilFromHex s = .ok b ∧ MAX_PROOF < b.length := by
  have hnp := GV.Dec.utilFromHex_noPanic s
  unfold proofFromHexUnrepaired ofHex
  cases hu : utilFromHex s with
  | ok b =>
    simp only
    constructor
    · intro h
      by_cases hl : b.length > MAX_PROOF
      · exact ⟨b, rfl, hl⟩
      · simp [hl] at h
    · rintro ⟨b', hb', hl⟩
      cases hb'
      simp [hl]
  | err => simp
  | panic st => exact absurd hu (hnp st)

/-- no other field reader has a panic branch: for ALL strings -/
theorem commit_field_no_panic (s : Bytes) : commitFromHex s ≠ .panic := by
  have hnp := GV.Dec.utilFromHex_noPanic s
  unfold commitFromHex ofHex
  cases hu : utilFromHex s with
  | ok b => intro hc; cases hc
  | err => intro hc; cases hc
  | panic st => exact absurd hu (hnp st)

theorem blind_field_no_panic (s : Bytes) : blindFromHex s ≠ .panic := by
  have hnp := GV.Dec.utilFromHex_noPanic s
  unfold blindFromHex ofHex
  cases hu : utilFromHex s with
  | ok b => intro hc; cases hc
  | err => intro hc; cases hc
  | panic st => exact absurd hu (hnp st)

theorem sig_field_no_panic (valid : Bytes → Bool) (s : Bytes) : sigFromHex valid s ≠ .panic := by
  have hnp := GV.Dec.utilFromHex_noPanic s
  unfold sigFromHex ofHex
  cases hu : utilFromHex s with
  | ok b =>
    simp only
    split
    · intro hc; cases hc
    · split <;> (intro hc; cases hc)
  | err => intro hc; cases hc
  | panic st => exact absurd hu (hnp st)

/-! ## numbers -/

/-- `parse::<u64>` refuses what does not fit -/
theorem parseUnsigned_range (d : Bytes) (n : Nat) (h : parseUnsigned d = some n) : n < 2^64 := by
  unfold parseUnsigned at h
  by_cases he : d.isEmpty = true
  · simp [he] at h
  · simp only [he] at h
    cases hp : parseDigits d 0 with
    | none => simp [hp] at h
    | some m =>
      simp only [hp] at h
      by_cases hm : m < 2^64
      · simp [hm] at h; omega
      · simp [hm] at h

theorem parseU64_range (s : Bytes) (n : Nat) (h : parseU64 s = some n) : n < 2^64 := by
  unfold parseU64 at h
  split at h <;> exact parseUnsigned_range _ _ h

example : parseU64 [49, 56, 52, 52, 54, 55, 52, 52, 48, 55, 51, 55, 48, 57, 53, 53, 49, 54, 49, 53] = some (2^64 - 1) := by
  decide
example : parseU64 [49, 56, 52, 52, 54, 55, 52, 52, 48, 55, 51, 55, 48, 57, 53, 53, 49, 54, 49, 54] = none := by
  decide
example : parseU64 [] = none ∧ parseU64 [43] = none ∧ parseU64 [45, 49] = none ∧ parseU64 [43, 55] = some 7 := by
  decide

end GV.Props.C10Json
