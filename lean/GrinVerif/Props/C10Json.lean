import GrinVerif.Model.SerJson
import GrinVerif.Lemmas.DecMerkle
import GrinVerif.Lemmas.SerBits
/-! # C10 / C11 — the JSON (serde) forms: hex field codecs

Round trip `from_hex(to_hex b) = b` for ALL byte strings through the faithful model of
`util::from_hex` (`utilFromHex_toHexB`: trim, `0x` prefixes, length / ASCII guard, `from_str_radix`), hence round trips of the four byte-string
field codecs of `secp_ser.rs` on the values the writers produce; what the readers accept beyond that
(any length for commitments and blinding factors: padded / truncated - normalised, not refused); no
string makes any of the four field readers panic (the range-proof reader did for more than 675 bytes
until repair dd4fd942d: `proof_field_unrepaired_panic_iff`). Model: `Model/SerJson.lean`; tied to the code by the `serjson` harness (`ser jhex` lines). -/
namespace GV.Props.C10Json
open GV GV.Ser GV.Dec GV.SerJson

theorem hexLow_lt {r : Bytes} (n : Nat) (h : n < 16) : hexLow n < 128 ∧ GV.Dec.hexVal (hexLow n) = some n ∧ hexLow n ≠ 43
    ∧ wsPrefix (hexLow n :: r) = 0 := by
  unfold hexLow GV.Dec.hexVal
  have : n = 0 ∨ n = 1 ∨ n = 2 ∨ n = 3 ∨ n = 4 ∨ n = 5 ∨ n = 6 ∨ n = 7 ∨ n = 8 ∨ n = 9 ∨ n = 10 ∨ n = 11
      ∨ n = 12 ∨ n = 13 ∨ n = 14 ∨ n = 15 := by omega
  rcases this with h | h | h | h | h | h | h | h | h | h | h | h | h | h | h | h <;> subst h <;> simp [wsPrefix]

theorem hexLoop_step (a b v : Nat) (r vs : Bytes) (hnc : isCont a = false)
    (hv : fromStrRadix16 a b = some v) (hc : ∀ c t, r = c :: t → isCont c = false)
    (hr : hexLoop r = .ok vs) : hexLoop (a :: b :: r) = .ok (v :: vs) := by
  cases r with
  | nil =>
    have : vs = [] := by simpa [hexLoop] using hr.symm
    subst this
    simp [hexLoop, hnc, hv]
  | cons c t =>
    have h2 := hc c t rfl
    rw [hexLoop]
    simp only [hnc, h2, hv, hr, Bool.false_eq_true, ↓reduceIte]

/-- the conversion loop gives the bytes back -/
theorem hexLoop_toHexB : ∀ b : Bytes, AllBytes b → hexLoop (toHexB b) = .ok b := by
  intro b
  induction b with
  | nil => intro _; rfl
  | cons x r ih =>
    intro hb
    have hx : x < 256 := hb x (List.mem_cons_self ..)
    have hr : AllBytes r := fun y hy => hb y (List.mem_cons_of_mem _ hy)
    obtain ⟨a1, a2, a3, _⟩ := hexLow_lt (r := []) (x / 16) (by omega)
    obtain ⟨b1, b2, _, _⟩ := hexLow_lt (r := []) (x % 16) (by omega)
    have hnc : isCont (hexLow (x / 16)) = false := by simp [isCont]; omega
    have hv : fromStrRadix16 (hexLow (x / 16)) (hexLow (x % 16)) = some x := by
      simp only [fromStrRadix16, a3, ↓reduceIte, a2, b2]
      congr 1
      omega
    refine hexLoop_step _ _ _ _ _ hnc hv ?_ (ih hr)
    intro c t hct
    cases r with
    | nil => simp [toHexB] at hct
    | cons y r' =>
      simp only [toHexB, List.cons.injEq] at hct
      have hy : y < 256 := hr y (List.mem_cons_self ..)
      obtain ⟨c1, _, _, _⟩ := hexLow_lt (r := []) (y / 16) (by omega)
      rw [← hct.1]
      simp [isCont]; omega

theorem toHexB_length (b : Bytes) : (toHexB b).length = 2 * b.length := by
  induction b with
  | nil => rfl
  | cons x r ih => simp [toHexB, ih]; omega

theorem toHexB_ascii (b : Bytes) (hb : AllBytes b) : ∀ c ∈ toHexB b, c < 128 := by
  induction b with
  | nil => intro c hc; simp [toHexB] at hc
  | cons x r ih =>
    have hx : x < 256 := hb x (List.mem_cons_self ..)
    have hr : AllBytes r := fun y hy => hb y (List.mem_cons_of_mem _ hy)
    intro c hc
    simp only [toHexB, List.mem_cons] at hc
    rcases hc with rfl | rfl | hc
    · exact (hexLow_lt (r := []) _ (by omega)).1
    · exact (hexLow_lt (r := []) _ (by omega)).1
    · exact ih hr c hc

/-- every character the writer emits is one of `0-9a-f` (48..57, 97..102) -/
theorem toHexB_chars (b : Bytes) (hb : AllBytes b) : ∀ c ∈ toHexB b, (48 ≤ c ∧ c ≤ 57) ∨ (97 ≤ c ∧ c ≤ 102) := by
  induction b with
  | nil => intro c hc; simp [toHexB] at hc
  | cons x r ih =>
    have hx : x < 256 := hb x (List.mem_cons_self ..)
    have hr : AllBytes r := fun y hy => hb y (List.mem_cons_of_mem _ hy)
    intro c hc
    simp only [toHexB, List.mem_cons] at hc
    rcases hc with rfl | rfl | hc
    · unfold hexLow; split <;> omega
    · unfold hexLow; split <;> omega
    · exact ih hr c hc

def HexCh (c : Nat) : Prop := (48 ≤ c ∧ c ≤ 57) ∨ (97 ≤ c ∧ c ≤ 102)

theorem wsSuffixRev_hex (c : Nat) (r : Bytes) (hc : HexCh c) : wsSuffixRev (c :: r) = 0 := by
  unfold HexCh at hc
  unfold wsSuffixRev
  split
  all_goals first
    | (rename_i heq; simp only [List.cons.injEq] at heq; omega)
    | (rename_i heq; simp only [List.cons.injEq] at heq; obtain ⟨h1, _⟩ := heq; subst h1; simp; omega)
    | simp at *

theorem wsPrefix_hex (c : Nat) (r : Bytes) (hc : HexCh c) : wsPrefix (c :: r) = 0 := by
  unfold HexCh at hc
  unfold wsPrefix
  split
  all_goals first
    | (rename_i heq; simp only [List.cons.injEq] at heq; omega)
    | (rename_i heq; simp only [List.cons.injEq] at heq; obtain ⟨h1, _⟩ := heq; subst h1; simp; omega)
    | simp at *

theorem trimStartFuel_hex (n c : Nat) (r : Bytes) (hc : HexCh c) : trimStartFuel n (c :: r) = c :: r := by
  cases n with
  | zero => rfl
  | succ f =>
    unfold trimStartFuel
    rw [wsPrefix_hex c r hc]
    rfl

theorem trimEndRevFuel_hex (n c : Nat) (r : Bytes) (hc : HexCh c) : trimEndRevFuel n (c :: r) = c :: r := by
  cases n with
  | zero => rfl
  | succ f =>
    unfold trimEndRevFuel
    rw [wsSuffixRev_hex c r hc]
    rfl

theorem strTrim_hex (h : Bytes) (hh : ∀ c ∈ h, HexCh c) : strTrim h = h := by
  unfold strTrim
  cases h with
  | nil => rfl
  | cons c r =>
    simp only
    rw [trimStartFuel_hex _ c r (hh c (List.mem_cons_self ..))]
    cases hrev : (c :: r).reverse with
    | nil => simp at hrev
    | cons d t =>
      have hd : HexCh d := hh d (by rw [← List.mem_reverse, hrev]; exact List.mem_cons_self ..)
      rw [trimEndRevFuel_hex _ d t hd, ← hrev, List.reverse_reverse]

theorem trim0x_hex (h : Bytes) (hh : ∀ c ∈ h, HexCh c) : trim0x h = h := by
  unfold trim0x
  split
  · rename_i r
    have := hh 0x78 (by simp)
    unfold HexCh at this
    omega
  · rfl

/-- `from_hex(to_hex(b)) = b` for ALL byte strings, through the whole of `util::from_hex`
(`trim()`, the `0x` prefixes, the length / ASCII guard, the conversion loop) -/
theorem utilFromHex_toHexB (b : Bytes) (hb : AllBytes b) : utilFromHex (toHexB b) = .ok b := by
  have hch : ∀ c ∈ toHexB b, HexCh c := toHexB_chars b hb
  unfold utilFromHex
  simp only [strTrim_hex _ hch, trim0x_hex _ hch]
  have hlen : (toHexB b).length % 2 = 0 := by rw [toHexB_length]; omega
  have hasc : isAscii (toHexB b) = true := by
    unfold isAscii
    rw [List.all_eq_true]
    intro c hc
    have := toHexB_ascii b hb c hc
    simpa using this
  simp [hlen, hasc, hexLoop_toHexB b hb]

/-- hence the field round trips on what the writers emit: a 33-byte commitment, a 32-byte blinding
factor, a range proof of at most 675 bytes written with `as_hex` read back as themselves -/
theorem commit_field_roundtrip (c : Bytes) (hb : AllBytes c) (hl : c.length = 33) :
    commitFromHex (toHexB c) = .ok c := by
  have hp : padTo 33 c = c := by rw [← hl]; simp [padTo]
  simp [commitFromHex, ofHex, utilFromHex_toHexB c hb, hp]

theorem blind_field_roundtrip (c : Bytes) (hb : AllBytes c) (hl : c.length = 32) :
    blindFromHex (toHexB c) = .ok c := by
  have hp : padTo 32 c = c := by rw [← hl]; simp [padTo]
  simp [blindFromHex, ofHex, utilFromHex_toHexB c hb, hp]

theorem proof_field_roundtrip (c : Bytes) (hb : AllBytes c) (hl : c.length ≤ MAX_PROOF) :
    proofFromHex (toHexB c) = .ok c := by
  have : ¬ c.length > MAX_PROOF := by omega
  simp [proofFromHex, ofHex, utilFromHex_toHexB c hb, this]

theorem sig_field_roundtrip (valid : Bytes → Bool) (c : Bytes) (hb : AllBytes c) (hl : c.length = 64)
    (hv : valid c = true) : sigFromHex valid (toHexB c) = .ok c := by
  have h1 : ¬ c.length < 64 := by omega
  have h2 : c.take 64 = c := by rw [← hl]; exact List.take_length
  simp [sigFromHex, ofHex, utilFromHex_toHexB c hb, h1, h2, hv]

/-- field codecs, given that `from_hex` returned the bytes (`h`): what each conversion does -/
theorem commit_field (s b : Bytes) (h : utilFromHex s = .ok b) : commitFromHex s = .ok (padTo 33 b) := by
  simp [commitFromHex, ofHex, h]
theorem blind_field (s b : Bytes) (h : utilFromHex s = .ok b) : blindFromHex s = .ok (padTo 32 b) := by
  simp [blindFromHex, ofHex, h]

/-- a value of the right length is not changed by the conversion … -/
theorem padTo_exact (n : Nat) (v : Bytes) (h : v.length = n) : padTo n v = v := by
  subst h
  simp [padTo]

/-- … every other length is ACCEPTED and padded with zeros / truncated (normalised, not refused):
`"commit": "ff"` is the commitment `ff 00 … 00` -/
theorem padTo_length (n : Nat) (v : Bytes) : (padTo n v).length = n := by
  simp [padTo]; omega

example : padTo 33 [255] = 255 :: List.replicate 32 0 := by decide

/-- the signature field: at least 64 bytes, the first 64 count, the rest is ignored -/
theorem sig_field (valid : Bytes → Bool) (s b : Bytes) (h : utilFromHex s = .ok b) (hl : 64 ≤ b.length)
    (hv : valid (b.take 64) = true) : sigFromHex valid s = .ok (b.take 64) := by
  have : ¬ b.length < 64 := by omega
  simp [sigFromHex, ofHex, h, this, hv]

theorem sig_field_short (valid : Bytes → Bool) (s b : Bytes) (h : utilFromHex s = .ok b) (hl : b.length < 64) :
    sigFromHex valid s = .err := by
  simp [sigFromHex, ofHex, h, hl]

/-- the range proof field: up to 675 bytes come back as they are (`plen` = their number) … -/
theorem proof_field (s b : Bytes) (h : utilFromHex s = .ok b) (hl : b.length ≤ MAX_PROOF) :
    proofFromHex s = .ok b := by
  have : ¬ b.length > MAX_PROOF := by omega
  simp [proofFromHex, ofHex, h, this]

/-- … and one more byte is REFUSED (repair dd4fd942d, finding C11-rangeproof-json-overlong-panics) -/
theorem proof_field_refuses_beyond_675 (s b : Bytes) (h : utilFromHex s = .ok b) (hl : MAX_PROOF < b.length) :
    proofFromHex s = .err := by
  simp [proofFromHex, ofHex, h, hl]

/-- the range-proof reader has no panic branch: for ALL strings -/
theorem proof_field_no_panic (s : Bytes) : proofFromHex s ≠ .panic := by
  have hnp := GV.Dec.utilFromHex_noPanic s
  unfold proofFromHex ofHex
  cases hu : utilFromHex s with
  | ok b =>
    simp only
    split <;> (intro hc; cases hc)
  | err => intro hc; cases hc
  | panic st => exact absurd hu (hnp st)

/-- what the unrepaired reader did: it panicked exactly when more than 675 bytes were decoded (the
witness replayed by the `json` run as a regression probe) -/
theorem proof_field_unrepaired_panic_iff (s : Bytes) :
    proofFromHexUnrepaired s = .panic ↔ ∃ b, utilFromHex s = .ok b ∧ MAX_PROOF < b.length := by
  have hnp := GV.Dec.utilFromHex_noPanic s
  unfold proofFromHexUnrepaired ofHex
  cases hu : utilFromHex s with
  | ok b =>
    simp only
    constructor
    · intro h
      by_cases hl : b.length > MAX_PROOF
      · exact ⟨b, rfl, hl⟩
      · simp [hl] at h
    · rintro ⟨b', hb', hl⟩
      cases hb'
      simp [hl]
  | err => simp
  | panic st => exact absurd hu (hnp st)

/-- no other field reader has a panic branch: for ALL strings -/
theorem commit_field_no_panic (s : Bytes) : commitFromHex s ≠ .panic := by
  have hnp := GV.Dec.utilFromHex_noPanic s
  unfold commitFromHex ofHex
  cases hu : utilFromHex s with
  | ok b => intro hc; cases hc
  | err => intro hc; cases hc
  | panic st => exact absurd hu (hnp st)

theorem blind_field_no_panic (s : Bytes) : blindFromHex s ≠ .panic := by
  have hnp := GV.Dec.utilFromHex_noPanic s
  unfold blindFromHex ofHex
  cases hu : utilFromHex s with
  | ok b => intro hc; cases hc
  | err => intro hc; cases hc
  | panic st => exact absurd hu (hnp st)

theorem sig_field_no_panic (valid : Bytes → Bool) (s : Bytes) : sigFromHex valid s ≠ .panic := by
  have hnp := GV.Dec.utilFromHex_noPanic s
  unfold sigFromHex ofHex
  cases hu : utilFromHex s with
  | ok b =>
    simp only
    split
    · intro hc; cases hc
    · split <;> (intro hc; cases hc)
  | err => intro hc; cases hc
  | panic st => exact absurd hu (hnp st)

/-! ## the API's printable output (`api/src/types.rs`) -/

/-- The reader of `OutputPrintable` has no panic branch, for every set of keys (since repair f960854e0
of finding C11-outputprintable-missing-block-height-panics) … -/
theorem outputPrintable_no_panic (k : OpKeys) : outputPrintableFinish k ≠ .panic := by
  unfold outputPrintableFinish
  split <;> (intro h; cases h)

/-- … it accepts exactly the objects that have output_type, commit, spent, proof_hash and mmr_index
(`block_height`, `proof`, `merkle_proof` are optional) and refuses all others -/
theorem outputPrintable_ok_iff (k : OpKeys) :
    outputPrintableFinish k = .ok
      ↔ (k.outputType = true ∧ k.commit = true ∧ k.spent = true ∧ k.proofHash = true ∧ k.mmrIndex = true) := by
  obtain ⟨a, b, c, d, e, f, g, h⟩ := k
  cases a <;> cases b <;> cases c <;> cases e <;> cases h <;> simp [outputPrintableFinish]

theorem outputPrintable_err_iff (k : OpKeys) :
    outputPrintableFinish k = .err
      ↔ ¬ (k.outputType = true ∧ k.commit = true ∧ k.spent = true ∧ k.proofHash = true ∧ k.mmrIndex = true) := by
  obtain ⟨a, b, c, d, e, f, g, h⟩ := k
  cases a <;> cases b <;> cases c <;> cases e <;> cases h <;> simp [outputPrintableFinish]

/-- what the unrepaired reader did: it panicked EXACTLY when the five tested keys were there and
`block_height` was not (the four witnesses are replayed by the `api` run as regression probes) -/
theorem outputPrintable_unrepaired_panic_iff (k : OpKeys) :
    outputPrintableFinishUnrepaired k = .panic
      ↔ (k.outputType = true ∧ k.commit = true ∧ k.spent = true ∧ k.proofHash = true ∧ k.mmrIndex = true
          ∧ k.blockHeight = false) := by
  obtain ⟨a, b, c, d, e, f, g, h⟩ := k
  cases a <;> cases b <;> cases c <;> cases e <;> cases f <;> cases h <;> simp [outputPrintableFinishUnrepaired]

example : outputPrintableFinishUnrepaired ⟨true, true, true, true, true, false, true, true⟩ = .panic
    ∧ outputPrintableFinish ⟨true, true, true, true, true, false, true, true⟩ = .ok := by decide

/-- `OutputPrintable::range_proof()` has no panic branch, for every proof field (since repair 5eec0a242
of finding C11-outputprintable-short-proof-panics) … -/
theorem rangeProofHelper_no_panic (p : Option Bytes) : rangeProofHelper p ≠ .panic := by
  cases p with
  | none => intro h; cases h
  | some s =>
    have hnp := GV.Dec.utilFromHex_noPanic s
    cases hu : utilFromHex s with
    | ok b =>
      by_cases hl : b.length < MAX_PROOF
      · simp only [rangeProofHelper, ofHex, hu, hl, ↓reduceIte]
        intro hc; cases hc
      · simp only [rangeProofHelper, ofHex, hu, hl, ↓reduceIte]
        intro hc; cases hc
    | err =>
      simp only [rangeProofHelper, ofHex, hu]
      intro hc; cases hc
    | panic st => exact absurd hu (hnp st)

/-- … it returns a proof exactly for hex of at least 675 bytes (the first 675 of them) … -/
theorem rangeProofHelper_ok_iff (p : Option Bytes) (v : Bytes) :
    rangeProofHelper p = .ok v
      ↔ ∃ s b, p = some s ∧ utilFromHex s = .ok b ∧ MAX_PROOF ≤ b.length ∧ v = b.take MAX_PROOF := by
  cases p with
  | none => simp [rangeProofHelper]
  | some s =>
    have hnp := GV.Dec.utilFromHex_noPanic s
    cases hu : utilFromHex s with
    | ok b =>
      by_cases hl : b.length < MAX_PROOF
      · simp only [rangeProofHelper, ofHex, hu, hl, ↓reduceIte]
        constructor
        · intro h; cases h
        · rintro ⟨s', b', hs, hb', hl', _⟩
          cases hs
          rw [hu] at hb'
          cases hb'
          omega
      · simp only [rangeProofHelper, ofHex, hu, hl, ↓reduceIte, FieldRes.ok.injEq]
        constructor
        · intro h
          exact ⟨s, b, rfl, hu, by omega, h.symm⟩
        · rintro ⟨s', b', hs, hb', _, hv⟩
          cases hs
          rw [hu] at hb'
          cases hb'
          exact hv.symm
    | err =>
      simp only [rangeProofHelper, ofHex, hu]
      constructor
      · intro h; cases h
      · rintro ⟨s', b', hs, hb', _⟩
        cases hs
        rw [hu] at hb'
        cases hb'
    | panic st => exact absurd hu (hnp st)

/-- … and refuses a shorter one -/
theorem rangeProofHelper_refuses_short (s b : Bytes) (h : utilFromHex s = .ok b) (hl : b.length < MAX_PROOF) :
    rangeProofHelper (some s) = .err := by
  simp [rangeProofHelper, ofHex, h, hl]

/-- what the unrepaired helper did: it panicked EXACTLY when the proof string was hex of fewer than
675 bytes (`&p_vec[..675]`) -/
theorem rangeProofHelper_unrepaired_panic_iff (p : Option Bytes) :
    rangeProofHelperUnrepaired p = .panic ↔ ∃ s b, p = some s ∧ utilFromHex s = .ok b ∧ b.length < MAX_PROOF := by
  cases p with
  | none => simp [rangeProofHelperUnrepaired]
  | some s =>
    have hnp := GV.Dec.utilFromHex_noPanic s
    cases hu : utilFromHex s with
    | ok b =>
      by_cases hl : b.length < MAX_PROOF
      · simp only [rangeProofHelperUnrepaired, ofHex, hu, hl, ↓reduceIte, true_iff]
        exact ⟨s, b, rfl, hu, hl⟩
      · simp only [rangeProofHelperUnrepaired, ofHex, hu, hl, ↓reduceIte]
        constructor
        · intro h; cases h
        · rintro ⟨s', b', hs, hb', hl'⟩
          cases hs
          rw [hu] at hb'
          cases hb'
          exact absurd hl' hl
    | err =>
      simp only [rangeProofHelperUnrepaired, ofHex, hu]
      constructor
      · intro h; cases h
      · rintro ⟨s', b', hs, hb', _⟩
        cases hs
        rw [hu] at hb'
        cases hb'
    | panic st => exact absurd hu (hnp st)

/-- on what the node itself writes (a full 675-byte proof as hex) the helper returns it -/
theorem rangeProofHelper_roundtrip (c : Bytes) (hb : AllBytes c) (hl : c.length = MAX_PROOF) :
    rangeProofHelper (some (toHexB c)) = .ok c := by
  have h1 : ¬ c.length < MAX_PROOF := by omega
  have h2 : c.take MAX_PROOF = c := by rw [← hl]; exact List.take_length
  simp [rangeProofHelper, ofHex, utilFromHex_toHexB c hb, h1, h2]

/-- the id parsers of the handlers never panic, for ALL strings; any length is padded / truncated -/
theorem hashId_no_panic (s : Bytes) : hashIdFromHex s ≠ .panic := by
  have hnp := GV.Dec.utilFromHex_noPanic s
  unfold hashIdFromHex ofHex
  cases hu : utilFromHex s with
  | ok b => intro hc; cases hc
  | err => intro hc; cases hc
  | panic st => exact absurd hu (hnp st)

theorem excessId_no_panic (s : Bytes) : excessIdFromHex s ≠ .panic := by
  have hnp := GV.Dec.utilFromHex_noPanic s
  unfold excessIdFromHex ofHex
  cases hu : utilFromHex s with
  | ok b =>
    simp only
    split <;> (intro hc; cases hc)
  | err => intro hc; cases hc
  | panic st => exact absurd hu (hnp st)

/-! ## numbers -/

/-- `parse::<u64>` refuses what does not fit -/
theorem parseUnsigned_range (d : Bytes) (n : Nat) (h : parseUnsigned d = some n) : n < 2^64 := by
  unfold parseUnsigned at h
  by_cases he : d.isEmpty = true
  · simp [he] at h
  · simp only [he] at h
    cases hp : parseDigits d 0 with
    | none => simp [hp] at h
    | some m =>
      simp only [hp] at h
      by_cases hm : m < 2^64
      · simp [hm] at h; omega
      · simp [hm] at h

theorem parseU64_range (s : Bytes) (n : Nat) (h : parseU64 s = some n) : n < 2^64 := by
  unfold parseU64 at h
  split at h <;> exact parseUnsigned_range _ _ h

example : parseU64 [49, 56, 52, 52, 54, 55, 52, 52, 48, 55, 51, 55, 48, 57, 53, 53, 49, 54, 49, 53] = some (2^64 - 1) := by
  decide
example : parseU64 [49, 56, 52, 52, 54, 55, 52, 52, 48, 55, 51, 55, 48, 57, 53, 53, 49, 54, 49, 54] = none := by
  decide
example : parseU64 [] = none ∧ parseU64 [43] = none ∧ parseU64 [45, 49] = none ∧ parseU64 [43, 55] = some 7 := by
  decide

end GV.Props.C10Json
