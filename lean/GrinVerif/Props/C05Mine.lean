import GrinVerif.Model.PowMine
import GrinVerif.Props.C05Entry
/-! # C05 — what the internal miner returns verifies

`pow::pow_size` (used by `mine_genesis_block`, the test miner and every chain test helper): IF the
search returns, the header it returns passes `pow::verify_size` and its proof reaches the requested
difficulty — for every solver output (the solver is not modelled: `find_cycles` checks its own
solutions with `verify_impl` before handing them out), every start nonce, any number of iterations,
provided the call is the one the code base makes: a chain type that verifies with Cuckatoo at
`sz`, `sz = global::min_edge_bits()` (the solutions are labelled with THAT, not with `sz`) and
`proof_size = global::proofsize()`.  `pow_size_label_is_min_edge_bits` records the labelling. -/
namespace GV.Props.C05Mine
open GV GV.Pow GV.Gen GV.Props.C05Entry

theorem mineStep_returned (E : MineEnv) (start : Nat) (st r st' : MineSt)
    (h : mineStep E start st = (some r, st')) :
    ∃ sols, findCyclesOk E (E.prePow st.nonce st.ts) = some (r.proof :: sols) ∧
      r.nonce = st.nonce ∧ r.ts = st.ts ∧ r.edgeBits = minEdgeBitsOf E.c ∧
      E.toDiff r.edgeBits r.proof ≥ E.diff := by
  unfold mineStep at h
  cases hf : findCyclesOk E (E.prePow st.nonce st.ts) with
  | none => simp [hf] at h
  | some sols =>
    cases sols with
    | nil => simp [hf] at h
    | cons p rest =>
      simp only [hf] at h
      split at h
      · next hd =>
        injection h with h1 _
        injection h1 with h1
        subst h1
        exact ⟨rest, rfl, rfl, rfl, rfl, hd⟩
      · injection h with h1 _
        cases h1

theorem findCyclesOk_verifies (E : MineEnv) (pre : Bytes) (sols : List (List Nat))
    (h : findCyclesOk E pre = some sols) : ∀ s ∈ sols,
    verifyOf .cuckatoo (entryParams E.c E.sz E.proofSize)
      (epNode .cuckatoo (keysOfHeader pre none) E.sz) s = .ok () := by
  unfold findCyclesOk at h
  cases hr : E.raw pre with
  | none => simp [hr] at h
  | some raw =>
    simp only [hr] at h
    split at h
    · next hc =>
      injection h with h
      subst h
      intro s hs
      have := (List.all_eq_true.mp hc.2) s hs
      exact of_decide_eq_true this
    · cases h

/-- whatever `pow_size` returns was found in the iteration that returned it -/
theorem powSize_returned (E : MineEnv) (start : Nat) : ∀ f st r, powSize E start f st = some r →
    ∃ (st0 : MineSt) (sols : List (List Nat)), findCyclesOk E (E.prePow st0.nonce st0.ts) = some (r.proof :: sols) ∧
      r.nonce = st0.nonce ∧ r.ts = st0.ts ∧ r.edgeBits = minEdgeBitsOf E.c ∧
      E.toDiff r.edgeBits r.proof ≥ E.diff := by
  intro f
  induction f with
  | zero => intro st r h; cases h
  | succ f ih =>
    intro st r h
    unfold powSize at h
    cases hm : mineStep E start st with
    | mk o st' =>
      cases o with
      | some r' =>
        simp only [hm] at h
        injection h with h
        subst h
        exact ⟨st, mineStep_returned E start st r' st' hm⟩
      | none =>
        simp only [hm] at h
        exact ih st' r h

/-- the solutions carry `global::min_edge_bits()` as their label, whatever `sz` was -/
theorem pow_size_label_is_min_edge_bits (E : MineEnv) (start f : Nat) (st r : MineSt)
    (h : powSize E start f st = some r) : r.edgeBits = minEdgeBitsOf E.c := by
  obtain ⟨_, _, _, _, _, h4, _⟩ := powSize_returned E start f st r h
  exact h4

/-- **If `pow_size` returns, the returned header passes `pow::verify_size` and meets the
difficulty.** -/
theorem pow_size_returns_verified (E : MineEnv) (start f : Nat) (st r : MineSt)
    (hsel : ∀ eb, selectVariant E.c E.height eb = some .cuckatoo)
    (hsz : E.sz = minEdgeBitsOf E.c) (hps : E.proofSize = proofsizeOf E.c)
    (hbig : E.sz % 64 ≠ 63)
    (h : powSize E start f st = some r) :
    verifySizeEntry E.c E.height r.edgeBits (E.prePow r.nonce r.ts) r.proof = .ok () ∧
    E.toDiff r.edgeBits r.proof ≥ E.diff := by
  obtain ⟨st0, sols, hf, h1, h2, h3, h4⟩ := powSize_returned E start f st r h
  refine ⟨?_, h4⟩
  have hv := findCyclesOk_verifies E _ _ hf r.proof (by simp)
  have hlen : r.proof.length = proofsizeOf E.c := by
    have := GV.Props.C05.verifyOf_ok_length .cuckatoo _ _ _ hv
    simpa [entryParams] using this
  unfold verifySizeEntry
  rw [hsel, h3, ← hsz, h1, h2]
  simp only
  have hnb : ¬ (True ∧ graphTooBig E.sz = true) := by
    rw [graphTooBig_iff]; exact fun h => hbig h.2
  rw [if_neg hnb]
  have hP : entryParams E.c E.sz r.proof.length = entryParams E.c E.sz E.proofSize := by
    unfold entryParams; rw [hlen, hps]
  have hnbits : nodeBitsOf .cuckatoo E.sz = E.sz := rfl
  rw [hP, hnbits, hv]

/-- the hypotheses hold for `mine_genesis_block` on the chain types where the internal miner
works (`sz = global::min_edge_bits()`, `proof_size = global::proofsize()`) -/
example : (∀ h eb, selectVariant .automated h eb = some .cuckatoo) ∧
    (∀ h eb, selectVariant .user h eb = some .cuckatoo) ∧
    minEdgeBitsOf .automated % 64 ≠ 63 ∧ minEdgeBitsOf .user % 64 ≠ 63 :=
  ⟨fun _ _ => rfl, fun _ _ => rfl, by decide, by decide⟩

end GV.Props.C05Mine
