import GrinVerif.Model.CrashKernel
import GrinVerif.Props.C09
/-! C09, the kernel data file under rewinds beyond the end of its size file
(`Model/CrashKernel.lean`): the mechanism of known finding C09-recovery-not-restartable and of the
"next restart" half of C09-reorg-kernel-data-window, as theorems about `AppendOnlyFile::flush`'s
`set_len` and `TxHashSet::open`'s first-kernel check.

General (every size / data file content, every rewind position):
* `rewind_beyond_size_file_empties_data` — one kernel sync after a rewind to a position beyond the
  end of the size file leaves an EMPTY data file;
* `next_start_fails_after_rewind_beyond` — the next start then fails in `TxHashSet::open`;
* `dead_stays_dead` / `never_opens_again` — no later sequence of rewinds and syncs (what any further
  recovery does) brings a readable first kernel back: the node does not open again without repair.
Witnesses (kernel-checked by `decide`, the reorganisation witness of `Props/C09.lean`):
* `recovery_killed_then_restart_bricks` — first death at a crash point that a single restart
  survives (step 9: only the output files rewritten), second death inside the restart's fallback:
  the restart after that runs to its end, and the start after THAT fails to open; a second death at
  any other point is harmless;
* `kernel_data_window_next_start_fails` — first death after the kernel data file's truncation
  (step 15): the uninterrupted restart already leaves a zero-filled data file (the start after it
  fails), and a restart killed after its first fallback sync leaves an empty one. -/
namespace GV.Props.C09Kernel
open GV GV.Crash

theorem setLen_beyond (l : List (Option Nat)) (n : Nat) (h : l.length < n) :
    (setLen l n)[n - 1]? = some none := by
  unfold setLen
  rw [if_neg (by omega)]
  rw [List.getElem?_append_right (by omega)]
  rw [List.getElem?_replicate]
  simp; omega

/-- **A rewind beyond the end of the size file empties the data file.** -/
theorem rewind_beyond_size_file_empties_data (k : KFiles) (n : Nat) (h : k.size.length < n) :
    (kSync k n).data = [] := by
  unfold kSync dataFlush
  have hn : n ≠ 0 := by omega
  simp only [hn, if_false]
  have : (sizeFlush k n).size[n - 1]? = some none := setLen_beyond k.size n h
  rw [this]

/-- the first element of the data file is not a kernel -/
def Dead (k : KFiles) : Prop := ∀ x, k.data.head? ≠ some (some x)

theorem not_readable_of_dead (hashLen : Nat) (hh : 0 < hashLen) (k : KFiles) (hd : Dead k) :
    kReadable hashLen (kOpen k) = false := by
  have hdata : (kOpen k).data = k.data := by
    unfold kOpen; split <;> rfl
  unfold kReadable
  have h0 : (hashLen == 0) = false := by simp; omega
  rw [h0, hdata]
  simp only [Bool.false_or]
  cases hs : (kOpen k).size.head? with
  | none => rfl
  | some s =>
    cases s with
    | none => rfl
    | some a =>
      cases hd2 : k.data.head? with
      | none => rfl
      | some e =>
        cases e with
        | none => rfl
        | some x => exact absurd hd2 (hd x)

/-- **…and the next start fails in `TxHashSet::open`.** -/
theorem next_start_fails_after_rewind_beyond (k : KFiles) (n : Nat) (h : k.size.length < n)
    (hashLen : Nat) (hh : 0 < hashLen) :
    kReadable hashLen (kOpen (kSync k n)) = false := by
  apply not_readable_of_dead hashLen hh
  intro x
  rw [rewind_beyond_size_file_empties_data k n h]
  simp

theorem head_setLen_dead (l : List (Option Nat)) (n : Nat) (h : ∀ x, l.head? ≠ some (some x)) :
    ∀ x, (setLen l n).head? ≠ some (some x) := by
  intro x
  unfold setLen
  split
  · cases l with
    | nil => simp
    | cons a t =>
      cases n with
      | zero => simp
      | succ m => simpa using h x
  · cases l with
    | nil =>
      cases hm : n - ([] : List (Option Nat)).length with
      | zero => simp
      | succ m => simp [List.replicate_succ]
    | cons a t => simpa using h x

theorem dead_kSync (k : KFiles) (n : Nat) (h : Dead k) : Dead (kSync k n) := by
  intro x
  unfold kSync dataFlush
  split
  · simp
  · split
    · exact head_setLen_dead _ n h x
    · simp

theorem dead_kOpen (k : KFiles) (h : Dead k) : Dead (kOpen k) := by
  intro x; unfold kOpen; split <;> exact h x

/-- **No further recovery heals it.** Whatever sequence of restarts (open) and rewinds + syncs
follows, the first element of the data file never becomes a kernel again. -/
theorem dead_stays_dead (ns : List (Option Nat)) : ∀ (k : KFiles), Dead k →
    Dead (ns.foldl (fun k o => match o with | some n => kSync k n | none => kOpen k) k) := by
  induction ns with
  | nil => intro k h; exact h
  | cons o rest ih =>
    intro k h
    simp only [List.foldl_cons]
    apply ih
    cases o with
    | some n => exact dead_kSync k n h
    | none => exact dead_kOpen k h

theorem never_opens_again (ns : List (Option Nat)) (k : KFiles) (n : Nat) (h : k.size.length < n)
    (hashLen : Nat) (hh : 0 < hashLen) :
    kReadable hashLen (kOpen (ns.foldl (fun k o => match o with | some n => kSync k n | none => kOpen k)
      (kSync k n))) = false := by
  apply not_readable_of_dead hashLen hh
  apply dead_stays_dead
  intro x
  rw [rewind_beyond_size_file_empties_data k n h]
  simp

-- non-vacuity: size file of 6 true entries, a rewind to 7
example : (kSync (kOfIds [0, 1, 2, 3, 4, 5]) 7).data = [] ∧
    (kSync (kOfIds [0, 1, 2, 3, 4, 5]) 7).size = [some 0, some 1, some 2, some 3, some 4, some 5, none] ∧
    -- the rewind back into the true entries re-grows zeros
    (kSync (kSync (kOfIds [0, 1, 2, 3, 4, 5]) 7) 6).data = [none, none, none, none, none, none] := by decide
-- a rewind inside the file is an ordinary truncation
example : kSync (kOfIds [0, 1, 2, 3, 4, 5]) 4 = kOfIds [0, 1, 2, 3] := by decide

/-! ### witnesses on the reorganisation chain of `Props/C09.lean` (old path b0..b7, heavier b9 on b5) -/
open GV.Props.C09

/-- first death after step 9 of the reorganising block (output files rewritten, no kernel file
touched yet) -/
def d9 : Durable := crashAfter tgtR (consistent old8) blockSteps 9
def k9 : KFiles := kOfPath (fun _ => 1) old8

/-- **A restart killed inside its fallback, then restarted: the start after that does not open.**
A single restart from `d9` opens on the fork point b5 and can be killed anywhere without the NEXT
start failing to open; but if it is killed after `j` = 12..17 of its 24 durable writes (behind the
kernel sync of its first fallback step, before the last one), the following restart — run to its end
— leaves a kernel data file whose first element is not a kernel. -/
theorem recovery_killed_then_restart_bricks :
    recover bc tblR d9 = .ok 5 ∧
    (∀ j ∈ List.range 26, nextStartOpens (recCrashAfter bc tblR d9 j) (kRestartKilled (fun _ => 1) bc tblR d9 k9 j) = true) ∧
    (∀ j ∈ [12, 13, 14, 15, 16, 17],
      nextStartOpens (recCrashAfter bc tblR d9 j)
        (kRestartKilled (fun _ => 1) bc tblR (recCrashAfter bc tblR d9 j) (kRestartKilled (fun _ => 1) bc tblR d9 k9 j) 100) = false) ∧
    (∀ j ∈ [0, 1, 2, 3, 4, 5, 6, 7, 8, 9, 10, 11, 18, 19, 20, 21, 22, 23, 24],
      nextStartOpens (recCrashAfter bc tblR d9 j)
        (kRestartKilled (fun _ => 1) bc tblR (recCrashAfter bc tblR d9 j) (kRestartKilled (fun _ => 1) bc tblR d9 k9 j) 100) = true) := by
  decide

/-- first death after step 15 (kernel hash and size file rewritten for the new branch, kernel data
file truncated to the fork point, new kernels not yet appended) -/
def d15 : Durable := crashAfter tgtR (consistent old8) blockSteps 15
def k15 : KFiles := [KStep.sizeTrunc, .sizeApp, .dataTrunc].foldl (applyKStep (fun _ => 1) tgtR) k9

/-- **The kernel data window: the start after the recovering start fails.** The restart from `d15`
opens on b5; run to its end (18 writes) it leaves a zero-filled data file, killed after 7 or more
writes an empty one: in both cases the next start fails in `TxHashSet::open`. -/
theorem kernel_data_window_next_start_fails :
    recover bc tblR d15 = .ok 5 ∧ (recoverS bc tblR d15).1.length = 18 ∧
    kRestartKilled (fun _ => 1) bc tblR d15 k15 18 =
      { size := [some 0, some 1, some 2, some 3, some 4, some 5], data := [none, none, none, none, none, none] } ∧
    (∀ j ∈ [7, 8, 9, 10, 11, 12, 13, 14, 15, 16, 17, 18],
      nextStartOpens (recCrashAfter bc tblR d15 j) (kRestartKilled (fun _ => 1) bc tblR d15 k15 j) = false) ∧
    (∀ j ∈ [0, 1, 2, 3, 4, 5, 6],
      nextStartOpens (recCrashAfter bc tblR d15 j) (kRestartKilled (fun _ => 1) bc tblR d15 k15 j) = true) := by
  decide

end GV.Props.C09Kernel
