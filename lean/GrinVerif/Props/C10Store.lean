import GrinVerif.Lemmas.SerStoreRt
/-! # C10, third part — the encodings the node keeps on disk

What a header, an output, a range proof, a kernel becomes when it is appended to an MMR data file
(`PMMRable::as_elmt` / `elmt_size`), the header MMR's `HeaderEntry`, the spent index
(`Vec<CommitPos>` through `impl Readable for Vec<T>`), headers read back with
`DeserializationMode::SkipPow`, `MerkleProof`, `Hash::from_vec` — model `Model/SerStore.lean`, tied
to `core/src/core/block.rs`, `core/src/ser.rs`, `chain/src/types.rs`, `core/src/pow/types.rs`,
`core/src/core/merkle_proof.rs`, `core/src/core/hash.rs` by the `store` run of the `ser` harness.

Same shapes as `Props/C10.lean`: round trip with any continuation, "accepted ⇒ canonical" for all
byte strings, refusals; where the code normalises instead of refusing, the theorem says exactly
what it does. None of these encodings has a protocol-version parameter: that they are the same
bytes at the db version and at every wire version is true by construction of the model and compared
on every line of the run. -/
namespace GV.Props.C10Store
open GV GV.Ser

/-! ## HeaderEntry: the element of the header MMR -/

theorem headerEntry_roundtrip (e : HeaderEntry) (h : e.WF) (rest : Bytes) :
    decHeaderEntry (encHeaderEntry e ++ rest) = .ok (e, rest) := decHeaderEntry_enc e h rest

example : ({ hash := List.replicate 32 7, timestamp := 2^64 - 1, totalDifficulty := 0,
             secondaryScaling := 2^32 - 1, isSecondary := true } : HeaderEntry).WF := by decide

/-- `elmt_size()` of `BlockHeader` is the length of every entry `as_elmt()` can produce: the data
file is addressed by `position * elmt_size`. -/
theorem headerEntry_elmt_size (e : HeaderEntry) (h : e.WF) : (encHeaderEntry e).length = HEADER_ENTRY_SIZE :=
  encHeaderEntry_length e h

/-- What `HeaderEntry::read` accepts, for ALL byte strings: the input is the entry's 52 leading
bytes, one flag byte `b` and the rest, and the flag is `b != 0`. -/
theorem headerEntry_accepts {bs : Bytes} {e : HeaderEntry} {r : Bytes} (hb : AllBytes bs)
    (h : decHeaderEntry bs = .ok (e, r)) :
    ∃ b, bs = encHeaderEntryHead e ++ b :: r ∧ e.isSecondary = (b != 0) ∧ e.WF := decHeaderEntry_inv hb h

/-- Hence an accepted input is canonical exactly when its flag byte is 0 or 1 … -/
theorem headerEntry_canonical_iff {bs : Bytes} {e : HeaderEntry} {r : Bytes} (hb : AllBytes bs)
    (h : decHeaderEntry bs = .ok (e, r)) :
    bs = encHeaderEntry e ++ r ↔ ∃ b, b ≤ 1 ∧ bs = encHeaderEntryHead e ++ b :: r := by
  obtain ⟨b, hbs, hflag, _⟩ := decHeaderEntry_inv hb h
  have hlen : ∀ (x y : Nat) (s t : Bytes), encHeaderEntryHead e ++ x :: s = encHeaderEntryHead e ++ y :: t → x = y := by
    intro x y s t hxy
    have := List.append_cancel_left hxy
    simp only [List.cons.injEq] at this
    exact this.1
  constructor
  · intro hc
    rw [encHeaderEntry_eq, List.append_assoc, List.singleton_append] at hc
    refine ⟨b, ?_, hbs⟩
    have := hlen _ _ _ _ (hbs.symm.trans hc)
    cases hs : e.isSecondary <;> simp [hs] at this <;> omega
  · rintro ⟨b', hb', hbs'⟩
    have hbb : b = b' := hlen _ _ _ _ (hbs.symm.trans hbs')
    subst hbb
    rw [encHeaderEntry_eq, List.append_assoc, List.singleton_append, hbs, hflag]
    have : b = 0 ∨ b = 1 := by omega
    rcases this with rfl | rfl <;> simp

/-- … and every other flag byte is accepted as `true` and written back as 1 (recorded finding
`C10-headerentry-flag-byte-normalised`; the file is local, the entry never travels). -/
theorem headerEntry_flag_byte_normalised (e : HeaderEntry) (h : e.WF) (b : Nat) (hb : 2 ≤ b) (rest : Bytes) :
    decHeaderEntry (encHeaderEntryHead e ++ b :: rest) = .ok ({ e with isSecondary := true }, rest)
    ∧ encHeaderEntry { e with isSecondary := true } ++ rest ≠ encHeaderEntryHead e ++ b :: rest := by
  constructor
  · rw [decHeaderEntry_head e h]
    have : (b != 0) = true := by simp; omega
    rw [this]
  · rw [encHeaderEntry_eq, List.append_assoc, List.singleton_append]
    intro hc
    have : encHeaderEntryHead { e with isSecondary := true } = encHeaderEntryHead e := rfl
    rw [this] at hc
    have := List.append_cancel_left hc
    simp at this
    omega

/-! ## as_elmt: from a header to its entry -/

/-- The entry made from any well-formed header is well-formed, hence has the fixed size and reads
back from the data file as itself. -/
theorem asElmt_roundtrip (H : Bytes → Bytes) (hH : ∀ b, (H b).length = HASH_SIZE) (proofSize : Nat)
    (h : BlockHeader) (hwf : h.WF proofSize) (rest : Bytes) :
    decHeaderEntry (encHeaderEntry (h.asElmt H proofSize) ++ rest) = .ok (h.asElmt H proofSize, rest)
    ∧ (encHeaderEntry (h.asElmt H proofSize)).length = HEADER_ENTRY_SIZE :=
  ⟨decHeaderEntry_enc _ (asElmt_wf H hH proofSize h hwf) rest,
   encHeaderEntry_length _ (asElmt_wf H hH proofSize h hwf)⟩

/-- `Hashed for HeaderEntry` answers the header's own identity hash — the hash of the hash-mode
bytes, which have no version parameter (`blockHeader_hashBytes_eq` in `Props/C10.lean`) — and still
does after the entry went through the data file. -/
theorem asElmt_identity_hash (H : Bytes → Bytes) (hH : ∀ b, (H b).length = HASH_SIZE) (proofSize : Nat)
    (h : BlockHeader) (hwf : h.WF proofSize) (rest : Bytes) :
    ∃ e, decHeaderEntry (encHeaderEntry (h.asElmt H proofSize) ++ rest) = .ok (e, rest)
      ∧ e.identityHash = H (h.hashBytes proofSize) :=
  ⟨_, decHeaderEntry_enc _ (asElmt_wf H hH proofSize h hwf) rest, rfl⟩

/-- The `as u64` cast of the timestamp loses nothing (timestamps before 1970 wrap to the top of the
u64 range and come back). -/
theorem asElmt_timestamp_recoverable (H : Bytes → Bytes) (proofSize : Nat) (h : BlockHeader)
    (hwf : h.WF proofSize) : toI64 (h.asElmt H proofSize).timestamp = h.timestamp := by
  obtain ⟨_, _, h3, h4, _⟩ := hwf
  have := ts_bounds
  exact toI64_i64AsU64 _ (by omega) (by omega)

/-- the other three fields are copies; the flag is `edge_bits == SECOND_POW_EDGE_BITS` -/
theorem asElmt_fields (H : Bytes → Bytes) (proofSize : Nat) (h : BlockHeader) :
    (h.asElmt H proofSize).totalDifficulty = h.pow.totalDifficulty
    ∧ (h.asElmt H proofSize).secondaryScaling = h.pow.secondaryScaling
    ∧ ((h.asElmt H proofSize).isSecondary = true ↔ h.pow.proof.edgeBits = 29) := by
  refine ⟨rfl, rfl, ?_⟩
  simp [BlockHeader.asElmt, ProofOfWork.isSecondary, GV.Gen.SECOND_POW_EDGE_BITS]

/-! ## fixed element sizes of the other MMRs -/

theorem outputId_elmt_size (o : OutputId) (h : o.WF) : (encOutputId o).length = OUTPUT_ID_SIZE :=
  encOutputId_length o h

/-- every range proof a decoder returns or `bullet_proof` creates (`plen = 675`) fills its slot … -/
theorem rangeProof_elmt_size (p : RangeProof) (h : p.WF) : (encRangeProof p).length = RANGE_PROOF_ELMT_SIZE :=
  encRangeProof_length p h

/-- … a shorter `plen` would not (the writer emits `8 + plen` bytes): the fixed size relies on
`RangeProof::read` forcing `plen = 675` (`rangeProof_short_length_accepted`). -/
example : (encRangeProof { plen := 10, proof := List.replicate 675 0 }).length ≠ RANGE_PROOF_ELMT_SIZE := by decide

/-- kernels have no fixed size at protocol version 2 and above (`elmt_size() = None`) -/
example : (encTxKernel 2 .full { features := .plain 1, excess := List.replicate 33 0, excessSig := List.replicate 64 0 }).length
    ≠ (encTxKernel 2 .full { features := .coinbase, excess := List.replicate 33 0, excessSig := List.replicate 64 0 }).length := by
  decide

/-! ## CommitPos and the spent index -/

theorem commitPos_roundtrip (c : CommitPos) (h : c.WF) (rest : Bytes) :
    decCommitPos (encCommitPos c ++ rest) = .ok (c, rest) := decCommitPos_enc c h rest

theorem commitPos_accepts_only_canonical {bs : Bytes} {c : CommitPos} {r : Bytes} (hb : AllBytes bs)
    (h : decCommitPos bs = .ok (c, r)) : bs = encCommitPos c ++ r ∧ c.WF := decCommitPos_inv hb h

example : ({ pos := 2^64 - 1, height := 0 } : CommitPos).WF := by decide

/-- `Vec<T>::read`, generically in the item codec: items that round-trip and are not empty come
back in order from their back-to-back encodings (no count field, no cap) … -/
theorem vec_roundtrip {α : Type} (p : Parser α) (w : α → Bytes) (l : List α)
    (hrt : ∀ x ∈ l, ∀ rest, p (w x ++ rest) = .ok (x, rest)) (hne : ∀ x ∈ l, 0 < (w x).length)
    (heof : p [] = .error .ioEof) :
    readVec p (writeMulti w l) = some (.ok l) := by
  have := readVec_write_tail p w l [] hrt hne heof
  simpa using this

/-- … an item cut short by the end of the source is dropped without an error (what the code does:
`UnexpectedEof` ends the loop wherever it happens) … -/
theorem vec_partial_tail_dropped {α : Type} (p : Parser α) (w : α → Bytes) (l : List α) (tail : Bytes)
    (hrt : ∀ x ∈ l, ∀ rest, p (w x ++ rest) = .ok (x, rest)) (hne : ∀ x ∈ l, 0 < (w x).length)
    (htail : p tail = .error .ioEof) :
    readVec p (writeMulti w l ++ tail) = some (.ok l) := readVec_write_tail p w l tail hrt hne htail

/-- … every other item error fails the whole vector, wherever the bad item sits … -/
theorem vec_error_propagates {α : Type} (p : Parser α) (w : α → Bytes) (l : List α) (tail : Bytes) (e : SerErr)
    (hrt : ∀ x ∈ l, ∀ rest, p (w x ++ rest) = .ok (x, rest)) (hne : ∀ x ∈ l, 0 < (w x).length)
    (htail : p tail = .error e) (he : e ≠ .ioEof) :
    readVec p (writeMulti w l ++ tail) = some (.error e) := readVec_write_error p w l tail e hrt hne htail he

/-- … and the loop terminates on every input provided a successful item read consumes something
(false for `BitmapChunk::read`, which reads nothing: `Vec<BitmapChunk>` must never be read). -/
theorem vec_terminates {α : Type} (p : Parser α)
    (hprog : ∀ bs x r, p bs = .ok (x, r) → r.length < bs.length) (bs : Bytes) : readVec p bs ≠ none :=
  readVecFuel_some p hprog _ bs (by omega)

/-- a reader that succeeds without consuming never leaves the loop -/
example : readVec (fun bs => (.ok ((), bs) : Except SerErr (Unit × Bytes))) [1, 2, 3] = none := by decide

theorem spentIndex_roundtrip (l : List CommitPos) (h : ∀ c ∈ l, c.WF) :
    decSpentIndex (encSpentIndex l) = .ok (l, []) := by
  have := readVec_write_tail decCommitPos encCommitPos l []
    (fun x hx rest => decCommitPos_enc x (h x hx) rest) (fun x _ => by rw [encCommitPos_length]; decide) rfl
  simp only [List.append_nil] at this
  simp [decSpentIndex, decVec, encSpentIndex, this]

/-- The spent-index reader accepts EVERY byte string: ⌊len/16⌋ entries, re-encoding to the first
16·⌊len/16⌋ bytes; the remaining `len % 16 < 16` bytes are ignored (recorded finding
`C10-vec-trailing-partial-item-dropped`: nothing in the format could refuse them). -/
theorem spentIndex_accepts_everything (bs : Bytes) (hb : AllBytes bs) :
    ∃ l tail, decSpentIndex bs = .ok (l, []) ∧ bs = encSpentIndex l ++ tail
      ∧ tail.length < COMMIT_POS_SIZE ∧ l.length = bs.length / COMMIT_POS_SIZE := by
  obtain ⟨l, tail, h1, h2, h3, h4, _⟩ := readVec_commitPos_total bs.length bs rfl hb
  exact ⟨l, tail, by simp [decSpentIndex, decVec, h1], h2, h3, h4⟩

/-- in particular a whole number of entries is canonical -/
theorem spentIndex_canonical_of_multiple (bs : Bytes) (hb : AllBytes bs) (hm : bs.length % COMMIT_POS_SIZE = 0) :
    ∃ l, decSpentIndex bs = .ok (l, []) ∧ bs = encSpentIndex l := by
  obtain ⟨l, tail, h1, h2, h3, h4⟩ := spentIndex_accepts_everything bs hb
  have hl : (encSpentIndex l).length = COMMIT_POS_SIZE * l.length := by
    clear h1 h2 h4
    induction l with
    | nil => rfl
    | cons x l ih =>
      have : encSpentIndex (x :: l) = encCommitPos x ++ encSpentIndex l := by simp [encSpentIndex, writeMulti]
      rw [this, List.length_append, ih, encCommitPos_length, List.length_cons, Nat.mul_succ]; omega
  have : tail.length = 0 := by
    have := congrArg List.length h2
    rw [List.length_append, hl, h4] at this
    simp only [COMMIT_POS_SIZE] at *
    omega
  have ht : tail = [] := List.eq_nil_of_length_eq_zero this
  subst ht
  exact ⟨l, h1, by simpa using h2⟩

/-! ## headers read with `DeserializationMode::SkipPow` -/

/-- A `SkipPow` read of a header consumes the encoding up to and including the `edge_bits` byte and
returns every field but the nonces — whatever follows that byte (the packed nonces of a real
header; the reader never looks at them). -/
theorem header_skipPow_stops_after_edge_bits (h : BlockHeader) (hwf : h.WFSkip) (rest : Bytes) :
    decBlockHeaderSkip (encHeaderToEdgeBits h ++ rest) = .ok (h.withoutNonces, rest) :=
  decBlockHeaderSkip_toEdgeBits h hwf rest

/-- On the encoding of a well-formed header: all fields but the nonces are the written ones and
exactly the packed nonces are left unread. -/
theorem header_skipPow_roundtrip (proofSize : Nat) (h : BlockHeader) (hwf : h.WF proofSize) (rest : Bytes) :
    decBlockHeaderSkip (encBlockHeader proofSize .full h ++ rest)
      = .ok (h.withoutNonces, h.pow.proof.packNonces proofSize ++ rest) := by
  rw [encBlockHeader_split, List.append_assoc]
  exact decBlockHeaderSkip_toEdgeBits h hwf.toSkip _

/-- For ALL byte strings: whatever the full reader accepts, the `SkipPow` reader accepts with the
same fields (so the difficulty iterator sees the heights, timestamps, difficulties and edge bits
the validated header has). -/
theorem header_skipPow_agrees_with_full {c : Cfg} {bs : Bytes} {hd : BlockHeader} {r : Bytes}
    (h : decBlockHeader c bs = .ok (hd, r)) :
    ∃ r', decBlockHeaderSkip bs = .ok (hd.withoutNonces, r') := decBlockHeaderSkip_of_full h

/-- The converse is false: `SkipPow` does not see the proof, so it accepts headers the full reader
refuses (here: 8 packed bytes missing altogether). -/
example : (decBlockHeaderSkip (List.replicate 246 0 ++ [31])).toOption.isSome = true
    ∧ (decBlockHeader { ver := 1, nrd := false, maxWeight := 250, proofSize := 8, key := fun _ => 0 }
        (List.replicate 246 0 ++ [31])).toOption.isSome = false := by
  decide

/-- the identity hash of a header read under `SkipPow` is NOT the header's (the hash covers the
packed nonces): such a header must never be hashed or stored -/
example : ({ edgeBits := 8, nonces := [1, 2, 3, 4, 5, 6, 7, 8] } : Proof).hashBytes 8
    ≠ ({ edgeBits := 8, nonces := [] } : Proof).hashBytes 8 := by decide

/-! ## MerkleProof -/

theorem merkleProof_roundtrip (p : MerkleProof) (h : p.WF) (rest : Bytes) :
    decMerkleProof (encMerkleProof p ++ rest) = .ok (p, rest) := decMerkleProof_enc p h rest

example : ({ mmrSize := 2^64 - 1, path := [List.replicate 32 1, List.replicate 32 2] } : MerkleProof).WF := by
  refine ⟨by decide, by decide, ?_⟩
  intro h hh
  simp at hh
  rcases hh with rfl | rfl <;> rfl

/-- the empty proof is sixteen bytes -/
theorem merkleProof_empty_roundtrip (size : Nat) (h : size < 2^64) (rest : Bytes) :
    decMerkleProof (writeU64 size ++ writeU64 0 ++ rest) = .ok ({ mmrSize := size, path := [] }, rest) := by
  have := decMerkleProof_enc { mmrSize := size, path := [] } ⟨h, by simp, by simp⟩ rest
  simpa [encMerkleProof, writeMulti] using this

theorem merkleProof_accepts_only_canonical {bs : Bytes} {p : MerkleProof} {r : Bytes} (hb : AllBytes bs)
    (h : decMerkleProof bs = .ok (p, r)) : bs = encMerkleProof p ++ r ∧ p.WF := decMerkleProof_inv hb h

/-- a path count the bytes do not cover is refused (count inconsistent with content) -/
theorem merkleProof_count_over_content (size n : Nat) (h1 : size < 2^64) (h2 : n < 2^64) (body : Bytes)
    (hshort : body.length < HASH_SIZE * n) :
    decMerkleProof (writeU64 size ++ writeU64 n ++ body) = .error .ioEof := by
  rw [decMerkleProof]
  simp only [List.append_assoc]
  rw [readU64_write _ h1, andThen_ok, readU64_write _ h2, andThen_ok, readHashes_short n body hshort, andThen_error]

/-! ## Hash::from_vec -/

theorem hashFromVec_always_32 (v : Bytes) : (hashFromVec v).length = HASH_SIZE := hashFromVec_length v
theorem hashFromVec_of_hash (v : Bytes) (h : v.length = HASH_SIZE) : hashFromVec v = v := hashFromVec_id v h
/-- short input is zero-padded, long input truncated: `from_vec` is not injective -/
example : hashFromVec [1, 2] = hashFromVec ([1, 2] ++ List.replicate 30 0) := by decide
example : hashFromVec (List.replicate 32 9 ++ [1]) = hashFromVec (List.replicate 32 9 ++ [2]) := by decide

end GV.Props.C10Store
