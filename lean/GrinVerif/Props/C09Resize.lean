import GrinVerif.Model.CrashResize
/-! C09 — the LMDB map resize (`Model/CrashResize.lean`): the resize is not durable before a commit
that writes pages, a death before / after it is a death before the batch started, the restart takes
the same decision again, and the size it picks brings usage under 65 %. -/
namespace GV.Props.C09Resize
open GV GV.Crash

/-- the resize is lost with the process: after a restart the environment is what a restart without
the resize gives -/
theorem resize_not_durable (e : Env) (n : Nat) : restartE (applyE e (.resize n)) = restartE e := by
  simp [restartE, applyE]

/-- only a commit that wrote pages makes the map size durable -/
theorem clean_commit_keeps_meta (e : Env) (u : Nat) : applyE e (.commit false u) = e := by
  simp [applyE]

theorem dirty_commit_persists (e : Env) (n u : Nat) (h : e.metaMap ≤ n) :
    (restartE (applyE (applyE e (.resize n)) (.commit true u))).metaMap = n := by
  simp [restartE, applyE]; omega

/-- no step of the environment touches the chain's durable state, whatever the order: the durable
chain state after the first `k` steps is the state after the chain steps among them -/
theorem chain_state_ignores_resize (t : Target) (steps : List NStep) :
    ∀ (n : Durable × Env) (k : Nat),
      (crashAfterN t n steps k).1 = (chainPart steps k).foldl (applyStep t) n.1 := by
  induction steps with
  | nil => intro n k; simp [crashAfterN, chainPart]
  | cons s rest ih =>
    intro n k
    cases k with
    | zero => simp [crashAfterN, chainPart]
    | succ k =>
      have := ih (applyN t n s) k
      cases s with
      | chain c => simpa [crashAfterN, chainPart, applyN] using this
      | env c => simpa [crashAfterN, chainPart, applyN] using this

/-- **A death before or after the resize is a death before the batch started**: a batch that begins
with `maybe_resize`, killed at its crash point 0 (`lmdb:before-resize`) or 1 (`lmdb:after-resize`),
leaves the chain state AND the restarted environment of a node that never started the batch -/
theorem death_around_resize_is_death_before_batch (chunk : Nat) (t : Target) (d : Durable) (e : Env)
    (steps : List Step) (n : Nat) (hn : needsResize chunk e = some n) (k : Nat) (hk : k ≤ 1) :
    let s := crashAfterN t (d, e) (batchWithResize chunk e steps) k
    s.1 = d ∧ restartE s.2 = restartE e := by
  unfold batchWithResize
  rw [hn]
  have : k = 0 ∨ k = 1 := by omega
  rcases this with rfl | rfl <;> simp [crashAfterN, applyN, applyE, restartE]

/-- hence `Chain::init` on it opens exactly as on the node before the batch -/
theorem recover_after_death_around_resize (bcf : Nat → Bool) (tbl : List BlkInfo) (chunk : Nat)
    (t : Target) (d : Durable) (e : Env) (steps : List Step) (n : Nat)
    (hn : needsResize chunk e = some n) (k : Nat) (hk : k ≤ 1) :
    recover bcf tbl (crashAfterN t (d, e) (batchWithResize chunk e steps) k).1 = recover bcf tbl d := by
  rw [(death_around_resize_is_death_before_batch chunk t d e steps n hn k hk).1]

/-- the restart decides again, from durable facts only: if the committed state called for a resize and
the process died before a dirty commit, the restarted process resizes to the same size -/
theorem restart_resizes_again (chunk : Nat) (e : Env) (n : Nat) (hm : e.memMap = max e.metaMap e.used)
    (hn : needsResize chunk e = some n) :
    needsResize chunk (restartE (applyE e (.resize n))) = some n := by
  rw [resize_not_durable]
  have : restartE e = e := by simp [restartE, ← hm]
  rw [this, hn]

/-- the loop of `needs_resize` ends with usage at most 65 % (given enough fuel: `used * 100 + 1`
iterations of at least one byte) and never shrinks -/
theorem growTo_ge (chunk used : Nat) : ∀ (fuel tot : Nat), tot ≤ growTo chunk used fuel tot := by
  intro fuel
  induction fuel with
  | zero => intro tot; simp [growTo]
  | succ f ih =>
    intro tot
    unfold growTo
    split
    · exact Nat.le_trans (Nat.le_add_right _ _) (ih _)
    · exact Nat.le_refl _

theorem growTo_ok (chunk used : Nat) (hc : 0 < chunk) :
    ∀ (fuel tot : Nat), used * 100 < tot * 65 + fuel * 65 →
      used * 100 ≤ growTo chunk used fuel tot * 65 := by
  intro fuel
  induction fuel with
  | zero => intro tot h; simp [growTo]; omega
  | succ f ih =>
    intro tot h
    unfold growTo
    split
    · apply ih; have : (tot + chunk) * 65 = tot * 65 + chunk * 65 := Nat.add_mul _ _ _
      have : 65 ≤ chunk * 65 := by omega
      omega
    · omega

/-- the size `needs_resize` picks: at least a chunk, and usage at most 65 % of it -/
theorem resize_target_ok (chunk : Nat) (hc : 0 < chunk) (e : Env) (n : Nat)
    (h : needsResize chunk e = some n) (hm : chunk ≤ e.memMap) : e.used * 100 ≤ n * 65 := by
  unfold needsResize at h
  split at h
  · have hlt : ¬ e.memMap < chunk := by omega
    simp only [hlt, if_false, Option.some.injEq] at h
    subst h
    apply growTo_ok chunk e.used hc
    omega
  · simp at h

example : needsResize 1048576 { metaMap := 1048576, memMap := 1048576, used := 950272 } = some 2097152 := by
  decide

example : needsResize 1048576 { metaMap := 1048576, memMap := 1048576, used := 940000 } = none := by
  decide

end GV.Props.C09Resize
