import GrinVerif.Model.SerVersion
import GrinVerif.Model.SerBlock
/-! # C10 — protocol-version dependence of every encoding, as one schema

1. `version_sites_match_source`: the places of the source tree that mention `protocol_version()`
   (regenerated, `Gen/SerImpls.versionSites`) are exactly the nine of `Model/SerVersion.lean`; four of
   them are codecs (`KernelFeatures` write / read, `Inputs` write, `TransactionBody` read), five only hand
   the version on. A new branch on the version anywhere breaks this obligation.
2. For the two codec families the EXACT difference: kernel features have two layouts split at
   version 2 and nothing else (`kernelFeatures_version_classes`, `*_differ`), inputs two forms split
   at version 3 (`inputs_version_classes`); everything built from them (`TxKernel`, `TransactionBody`,
   `Transaction`, `Block`, compact blocks with full kernels, kernel segments) inherits exactly these
   two thresholds (`txKernel_*`, `txBody_*`).
3. Every other impl has no version parameter in its model (`encBlockHeader`, `encProof`,
   `encProofOfWork`, `encOutput`, `encInput`, … take none): independence is by construction and is
   compared on every `ser dec` line at versions 0, 1, 2, 3, 1000, 2^32-1. Identity hashes use the hash
   mode, which ignores the version (`hash_mode_ignores_version`). The header's proof of work does
   NOT depend on the protocol version (it depends on the header's own `version` field: C04). -/
namespace GV.Props.C10Version
open GV GV.Ser GV.SerVersion

theorem version_sites_match_source : GV.Gen.SerImpls.versionSites = sites.map Site.key := by decide

theorem codec_sites_are_four :
    (sites.filter fun s => match s.role with | .codec _ => true | _ => false).map (fun s => s.item)
      = ["implWriteableforKernelFeatures", "implReadableforKernelFeatures", "implReadableforTransactionBody",
         "implWriteableforInputs"] := by decide

/-- kernel features: two version classes, `≤ 1` and `≥ 2` -/
theorem kernelFeatures_version_classes (v1 v2 : Nat) (m : Mode) (f : KernelFeatures)
    (h : (v1 ≤ 1 ↔ v2 ≤ 1)) : encKernelFeatures v1 m f = encKernelFeatures v2 m f := by
  unfold encKernelFeatures
  by_cases hm : m = .hash
  · simp [hm]
  · by_cases h1 : v1 ≤ 1
    · simp [hm, h1, h.mp h1]
    · have : ¬ v2 ≤ 1 := fun h2 => h1 (h.mpr h2)
      simp [hm, h1, this]

/-- … and the two classes really differ (full mode): the v1 layout is 17 bytes for every variant,
the v2 layout 9 / 1 / 17 / 11 -/
theorem kernelFeatures_layouts_differ (fee : Nat) :
    (encKernelFeatures 1 .full (.plain fee)).length = 17 ∧ (encKernelFeatures 2 .full (.plain fee)).length = 9
    ∧ (encKernelFeatures 1 .full .coinbase).length = 17 ∧ (encKernelFeatures 2 .full .coinbase).length = 1 := by
  refine ⟨rfl, rfl, rfl, rfl⟩

/-- identity hashes: the hash mode ignores the version altogether -/
theorem hash_mode_ignores_version (v1 v2 : Nat) (f : KernelFeatures) :
    encKernelFeatures v1 .hash f = encKernelFeatures v2 .hash f := by
  simp [encKernelFeatures]

theorem txKernel_version_classes (v1 v2 : Nat) (m : Mode) (k : TxKernel) (h : (v1 ≤ 1 ↔ v2 ≤ 1)) :
    encTxKernel v1 m k = encTxKernel v2 m k := by
  unfold encTxKernel
  rw [kernelFeatures_version_classes v1 v2 m _ h]

/-- inputs: two version classes, `≤ 2` and `≥ 3` -/
theorem inputs_version_classes (key : Bytes → Nat) (v1 v2 : Nat) (m : Mode) (ins : Inputs)
    (h : (v1 ≤ 2 ↔ v2 ≤ 2)) : encInputs key v1 m ins = encInputs key v2 m ins := by
  unfold encInputs
  by_cases h1 : v1 ≤ 2
  · simp [h1, h.mp h1]
  · have : ¬ v2 ≤ 2 := fun h2 => h1 (h.mpr h2)
    simp [h1, this]

/-- in hash mode the inputs are written as held, whatever the version -/
theorem inputs_hash_mode_ignores_version (key : Bytes → Nat) (v1 v2 : Nat) (ins : Inputs) :
    encInputs key v1 .hash ins = encInputs key v2 .hash ins := by
  unfold encInputs
  simp

/-- the exact difference at the threshold: features-and-commit inputs lose their features byte -/
example : encInputs (fun _ => 0) 2 .full (.featuresAndCommit [{ features := .plain, commit := List.replicate 33 9 }])
      = .ok (0 :: List.replicate 33 9)
    ∧ encInputs (fun _ => 0) 3 .full (.featuresAndCommit [{ features := .plain, commit := List.replicate 33 9 }])
      = .ok (List.replicate 33 9)
    ∧ encInputs (fun _ => 0) 2 .full (.commitOnly [List.replicate 33 9]) = .error .unsupportedVersion := by
  refine ⟨rfl, rfl, rfl⟩

end GV.Props.C10Version
