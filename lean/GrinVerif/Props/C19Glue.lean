import GrinVerif.Model.CodecGlue
/-! # C19, the glue above `conn` — `peer.rs` / `protocol.rs`

Model: `Model/CodecGlue.lean`; the constants, the list of `TrackingAdapter` callbacks that remember a
hash, the guarded senders, the number of responses `Protocol::consume` builds (each with
`self.peer_info.version`) and the shape of the `is_banned` / archive gates are regenerated into
`Gen/CodecConn.lean` (tools/gen_codec_conn.py stops when `Peer::new` no longer hands `info.version` to
`conn::listen` or `Peer::send` no longer serialises with it).

* `glue_version_is_negotiated` — the version of the `Codec`, of every `Peer::send` and of every
  response is the lower of the two announced versions;
* `banned_peer_gets_nothing` — a banned peer's message reaches no adapter callback, is not answered,
  and the connection is closed;
* `received_is_not_sent_back` — a header / compact block / block / transaction kernel hash / (non-stem)
  transaction received from the peer is not sent back to it (`Ok(false)`), `stem_not_tracked`,
  `lru_*` — the memory is an LRU of `MAX_TRACK_SIZE` entries which a look-up refreshes;
* `requested_options_override` — a block we asked for arrives with the options of the request;
* `archive_gate` — an archive is accepted iff receive-ready and requested from this peer; the
  request is used up;
* `ping_pong_bookkeeping`, `kernel_hash_capability`, `glue_tables`. -/
namespace GV.Props.C19Glue
open GV GV.Ser GV.Msg GV.Codec GV.Gen.Msg GV.Gen.CodecConn

/-- **the negotiated version is what the connection runs on** -/
theorem glue_version_is_negotiated (ours theirs caps : Nat) (addr : SockAddr) (td h : Nat) :
    (Glue.new ours theirs caps addr td h).ver = min ours theirs ∧
    (Glue.new ours theirs caps addr td h).ver ≤ ours ∧ (Glue.new ours theirs caps addr td h).ver ≤ theirs := by
  exact ⟨rfl, Nat.min_le_left _ _, Nat.min_le_right _ _⟩

/-- sending and receiving never change it -/
theorem glue_version_stable (g : Glue) (m : In) (o : Out) :
    (consumeGlue g m).1.ver = g.ver ∧ (sendGlue g o).1.ver = g.ver := by
  constructor
  · unfold consumeGlue
    split
    · rfl
    · cases m <;> simp only [pushRecv] <;> (try split) <;> (try split) <;> rfl
  · cases o <;> simp only [sendGlue, hasRecv] <;> rfl

/-- **a banned peer gets nothing**: no adapter callback, no answer, disconnected -/
theorem banned_peer_gets_nothing (g : Glue) (hb : g.banned = true) (m : In) :
    consumeGlue g m = (g, [], .disconnect) := by
  simp only [consumeGlue, hb, if_true]

/-- a key just inserted is found (capacity ≥ 1) -/
theorem lruGet_after_insert {α : Type} (cap : Nat) (hc : 1 ≤ cap) (l : List (Bytes × α)) (k : Bytes) (v : α) :
    (lruGet (lruInsert cap l k v) k).1 = some v := by
  have hfind : ∀ (pre : List (Bytes × α)), (∀ e ∈ pre, (e.1 == k) = false) →
      (pre ++ [(k, v)]).find? (fun e => e.1 == k) = some (k, v) := by
    intro pre hp
    induction pre with
    | nil => simp
    | cons a t ih =>
      have ha := hp a (List.mem_cons_self)
      simp only [List.cons_append, List.find?_cons, ha]
      exact ih (fun e he => hp e (List.mem_cons_of_mem _ he))
  have hfil : ∀ e ∈ l.filter (fun e => e.1 != k), (e.1 == k) = false := by
    intro e he
    have := (List.mem_filter.mp he).2
    simpa [bne] using this
  have hins : ∃ pre, lruInsert cap l k v = pre ++ [(k, v)] ∧ ∀ e ∈ pre, (e.1 == k) = false := by
    unfold lruInsert
    simp only
    by_cases hlen : (l.filter (fun e => e.1 != k) ++ [(k, v)]).length > cap
    · rw [if_pos hlen]
      cases hf : l.filter (fun e => e.1 != k) with
      | nil =>
        rw [hf] at hlen
        simp only [List.nil_append, List.length_cons, List.length_nil] at hlen
        omega
      | cons a t =>
        refine ⟨t, by simp, fun e he => hfil e (by rw [hf]; exact List.mem_cons_of_mem _ he)⟩
    · rw [if_neg hlen]
      exact ⟨_, rfl, hfil⟩
  obtain ⟨pre, hp, hpre⟩ := hins
  rw [hp]
  unfold lruGet
  rw [hfind pre hpre]

theorem MAX_TRACK_SIZE_pos : 1 ≤ MAX_TRACK_SIZE := by decide

/-- after `push_recv(h)`, `has_recv(h)` -/
theorem hasRecv_after_push (g : Glue) (h : Bytes) : (hasRecv (pushRecv g h) h).1 = true := by
  have := lruGet_after_insert MAX_TRACK_SIZE MAX_TRACK_SIZE_pos g.received h ()
  simp only [hasRecv, pushRecv]
  rw [this]
  rfl

/-- **what the peer sent us is not sent back to it**: for a peer that is not banned, a received
header, compact block, block (as header and as compact block), transaction kernel hash or non-stem
transaction (by its first kernel, as transaction and as kernel hash) makes the matching
`Peer::send_*` return `Ok(false)` and put nothing on the wire -/
theorem received_is_not_sent_back (g : Glue) (hb : g.banned = false) (h : Bytes) :
    (sendGlue (consumeGlue g (.header h)).1 (.header h)).2 = none ∧
    (sendGlue (consumeGlue g (.cblock h)).1 (.cblock h)).2 = none ∧
    (sendGlue (consumeGlue g (.kernel h)).1 (.kernel h)).2 = none ∧
    (sendGlue (consumeGlue g (.tx h false)).1 (.tx h)).2 = none ∧
    (sendGlue (consumeGlue g (.tx h false)).1 (.kernel h)).2 = none := by
  have hp := hasRecv_after_push g h
  refine ⟨?_, ?_, ?_, ?_, ?_⟩ <;>
    simp only [consumeGlue, hb, Bool.false_eq_true, if_false, sendGlue, hp, if_true]

/-- … a received BLOCK likewise (its hash is remembered; the request table only reorders) -/
theorem received_block_not_sent_back (g : Glue) (hb : g.banned = false) (h : Bytes) :
    (sendGlue (consumeGlue g (.block h)).1 (.header h)).2 = none ∧
    (sendGlue (consumeGlue g (.block h)).1 (.cblock h)).2 = none := by
  have hp := lruGet_after_insert MAX_TRACK_SIZE MAX_TRACK_SIZE_pos g.received h ()
  constructor <;>
    simp only [consumeGlue, hb, Bool.false_eq_true, if_false, sendGlue, hasRecv, pushRecv, hp, Option.isSome_some, if_true]

/-- a stem transaction is NOT remembered (it must still be fluffed to that peer later) -/
theorem stem_not_tracked (g : Glue) (k0 : Bytes) :
    (consumeGlue g (.tx k0 true)).1.received = g.received := by
  unfold consumeGlue
  split <;> rfl

/-- the memory is bounded by `MAX_TRACK_SIZE` -/
theorem lru_bounded {α : Type} (cap : Nat) (l : List (Bytes × α)) (k : Bytes) (v : α) (hl : l.length ≤ cap) :
    (lruInsert cap l k v).length ≤ cap := by
  unfold lruInsert
  simp only
  have hf : (l.filter (fun e => e.1 != k)).length ≤ l.length := List.length_filter_le _ _
  split
  · rw [List.length_drop, List.length_append, List.length_singleton]; omega
  · rename_i hn; omega

/-- an LRU of capacity 3 (the code uses `MAX_TRACK_SIZE` = 30): a fourth hash pushes the oldest out,
unless a look-up (`has_recv` goes through `get_mut`) refreshed it in between -/
example :
    let l := lruInsert 3 (lruInsert 3 (lruInsert 3 ([] : List (Bytes × Unit)) [1] ()) [2] ()) [3] ()
    (lruGet (lruInsert 3 l [4] ()) [1]).1 = none ∧
    (lruGet (lruInsert 3 (lruGet l [1]).2 [4] ()) [1]).1 = some () ∧
    (lruGet (lruInsert 3 (lruGet l [1]).2 [4] ()) [2]).1 = none ∧ MAX_TRACK_SIZE = 30 := by
  decide

/-- **a block we asked for arrives with the options of the request** (`send_block_request` with
`SYNC`), any other block with `NONE` when nothing was requested -/
theorem requested_options_override (g : Glue) (hb : g.banned = false) (h : Bytes) (opts : Nat) :
    (consumeGlue (sendGlue g (.blockReq h opts)).1 (.block h)).2.1 = [.block h opts] ∧
    (g.requested = [] → (consumeGlue g (.block h)).2.1 = [.block h 0]) := by
  constructor
  · have hp := lruGet_after_insert MAX_TRACK_SIZE MAX_TRACK_SIZE_pos g.requested h opts
    simp only [sendGlue, consumeGlue, hb, Bool.false_eq_true, if_false, pushRecv, hp, Option.getD_some]
  · intro he
    simp only [consumeGlue, hb, Bool.false_eq_true, if_false, pushRecv, he, lruGet, List.find?_nil, Option.getD_none]

/-- **the gate in front of a `TxHashSetArchive`**: accepted (the attachment of `bytes` bytes is
expected) iff the peer is not banned, the node is ready to receive and asked THIS peer; the request is
used up, so a second archive is refused (`BadMessage`, which closes the connection) -/
theorem archive_gate (g : Glue) (h : Bytes) (n : Nat) :
    ((consumeGlue g (.archive h n)).2.2 = .attachment n ↔ (g.banned = false ∧ g.ready = true ∧ g.syncRequested = true)) ∧
    (g.banned = false → g.ready = true → g.syncRequested = true →
      (consumeGlue (consumeGlue g (.archive h n)).1 (.archive h n)).2.2 = .badMessage) ∧
    (g.banned = false → (g.ready = false ∨ g.syncRequested = false) →
      (consumeGlue g (.archive h n)).2.2 = .badMessage ∧ (consumeGlue g (.archive h n)).2.1 = [.receiveReady]) := by
  refine ⟨?_, ?_, ?_⟩
  · cases hb : g.banned <;> cases hr : g.ready <;> cases hs : g.syncRequested <;>
      simp [consumeGlue, hb, hr, hs]
  · intro hb hr hs
    simp [consumeGlue, hb, hr, hs]
  · intro hb hor
    rcases hor with hr | hs
    · simp [consumeGlue, hb, hr]
    · cases hr : g.ready <;> simp [consumeGlue, hb, hr, hs]

/-- `send_txhashset_request` is what opens the gate -/
example (g : Glue) (hb : g.banned = false) (hr : g.ready = true) (h : Bytes) (n : Nat) :
    (consumeGlue (sendGlue g .txhashsetReq).1 (.archive h n)).2.2 = .attachment n := by
  simp [consumeGlue, sendGlue, hb, hr]

/-- **Ping / Pong bookkeeping**: both report the peer's total difficulty and height under the peer's
address; a Ping is answered with OUR total difficulty and height, a Pong is not answered -/
theorem ping_pong_bookkeeping (g : Glue) (hb : g.banned = false) (td h : Nat) :
    consumeGlue g (.ping td h) = (g, [.peerDifficulty g.addr td h, .totalDifficulty, .totalHeight], .pong g.td g.height) ∧
    consumeGlue g (.pong td h) = (g, [.peerDifficulty g.addr td h], .none) := by
  constructor <;> simp only [consumeGlue, hb, Bool.false_eq_true, if_false]

/-- a transaction goes out as its kernel hash exactly when the remote announced `TX_KERNEL_HASH` -/
theorem kernel_hash_capability (g : Glue) (k0 : Bytes) (hn : (hasRecv g k0).1 = false) :
    (sendGlue g (.tx k0)).2 = some (if g.caps &&& TX_KERNEL_HASH ≠ 0 then T_TransactionKernel else T_Transaction) := by
  simp only [sendGlue, hn, Bool.false_eq_true, if_false]

/-- the regenerated facts the model rests on -/
theorem glue_tables :
    trackedCallbacks = ["tx_kernel_received", "transaction_received", "block_received", "compact_block_received",
                        "header_received"] ∧
    guardedSenders = ["send_compact_block", "send_header", "send_tx_kernel_hash", "send_transaction"] ∧
    hasRecvCallSites = 4 ∧ MAX_TRACK_SIZE = 30 ∧ MAX_PEER_MSG_PER_MIN = 500 := by
  decide

/-- `is_abusive`: strictly more than `MAX_PEER_MSG_PER_MIN` = 500 COUNTED entries of the receive
tracker (quiet ones - attachment chunks, header batches with more to come - never count) -/
theorem abusive_threshold (es : List (Nat × Bool)) :
    isAbusive es = true ↔ 500 < ((rcOf es).filter fun e => !e.2).length := by
  simp [isAbusive, trackedCount, MAX_PEER_MSG_PER_MIN]

example : isAbusive [(16, false), (48000, true), (48000, true)] = false := by decide

end GV.Props.C19Glue
