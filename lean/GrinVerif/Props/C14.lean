import GrinVerif.Lemmas.PoolBlock
/-! C14 — the transaction pool always holds a jointly valid, fee-paying, mineable set.

Model: `GrinVerif/Model/Pool.lean` (pool/src/pool.rs, pool/src/transaction_pool.rs).
Specification: `GV.Pool.JointlyValid` — applying all transactions together to the unspent set of
the head yields a set again (every spend is covered by a distinct existing or created instance,
no commitment ends up twice) and every transaction conserves value.  Histories: `GV.Pool.Op`,
`step`, `run` — submissions (stem / fluff, any transaction), new heads with `reconcile_block`
(any new unspent set: next block or reorg), `reconcile_reorg_cache`, evictions, cache truncation.

What is proved, and what is not (eviction, over-capacity admission, reorg to a lower height) is
stated explicitly below, each with a kernel-checked witness. -/
namespace GV.Props.C14
open GV.Pool

/-! ## the check the pool performs is sound for the specification -/

/-- `Pool::add_to_pool` / `validate_raw_txs` accept a list of transactions when its aggregate
(cut-through applied) validates against the head.  Whatever passes is `NetOK`: the counting core
of `JointlyValid`. -/
theorem aggregate_check_sound {c : Ctx} {w : Weighting} {txs : List Tx} {a : Tx}
    (ha : aggregate txs = .ok a) (hv : validateRawTx c w a = none) : NetOK (utxoIds c) txs :=
  netOK_of_aggregate ha hv

/-- With fresh output ids (no commitment created twice, none equal to an unspent one) `NetOK`
is the plain-language statement: no output is spent twice, and every input is unspent at the head
or created by another transaction of the list. -/
theorem netOK_plain_reading {utxo : List Nat} {txs : List Tx} (h : NetOK utxo txs)
    (fresh : (allOuts txs).Nodup ∧ ∀ o ∈ allOuts txs, o ∉ utxo) :
    (allIns txs).Nodup ∧ ∀ i ∈ allIns txs, i ∈ utxo ∨ i ∈ allOuts txs :=
  netOK_plain h fresh

/-- the executable oracle used by the driver decides the specification -/
theorem oracle_decides_spec (outs : List GV.Chain.OutDef) (utxo : List Nat) (txs : List Tx) :
    jointlyValidB outs utxo txs = true ↔ JointlyValid outs utxo txs :=
  jointlyValidB_iff outs utxo txs

/-! ## `pool_inv` -/

/-- The invariant implies the property: the txpool is jointly valid against the head, and the
stempool together with the txpool likewise. -/
theorem inv_gives_property {c : Ctx} {s : TxPool} (h : Inv c s) :
    JointlyValid c.outs (utxoIds c) s.txpool.txs ∧
    JointlyValid c.outs (utxoIds c) (s.stempool.txs ++ s.txpool.txs) :=
  inv_jointlyValid h

/-- one operation — a submission of ANY transaction (stem or fluff, relay accepting or not) while
the txpool is not over `max_pool_size`, a new head with ANY unspent set and block content
(`reconcile_block`), `reconcile_reorg_cache`, truncation — preserves the invariant -/
theorem pool_inv_step (cs : Ctx × TxPool) (op : Op) (hInv : Inv cs.1 cs.2) (hne : ¬ evicts cs op) :
    Inv (step cs op).1 (step cs op).2 :=
  step_inv cs op hInv hne

/-- **pool_inv**: after any history of pool operations in which no eviction is triggered, starting
from the empty pool (or any state satisfying the invariant), the txpool and stempool ∪ txpool are
jointly valid against the current head. -/
theorem pool_inv (cs : Ctx × TxPool) (ops : List Op) (hInv : Inv cs.1 cs.2) (hne : NoEvict cs ops) :
    JointlyValid (run cs ops).1.outs (utxoIds (run cs ops).1) (run cs ops).2.txpool.txs ∧
    JointlyValid (run cs ops).1.outs (utxoIds (run cs ops).1)
      ((run cs ops).2.stempool.txs ++ (run cs ops).2.txpool.txs) :=
  inv_jointlyValid (run_inv cs ops hInv hne)

theorem pool_inv_from_empty (c : Ctx) (ops : List Op) (hne : NoEvict (c, {}) ops) :
    JointlyValid (run (c, {}) ops).1.outs (utxoIds (run (c, {}) ops).1) (run (c, {}) ops).2.txpool.txs ∧
    JointlyValid (run (c, {}) ops).1.outs (utxoIds (run (c, {}) ops).1)
      ((run (c, {}) ops).2.stempool.txs ++ (run (c, {}) ops).2.txpool.txs) :=
  pool_inv (c, {}) ops (inv_empty c) hne

/-- Whatever happened before — evictions included — every entry of the txpool, the stempool and
the reorg cache passed standalone validation (`Transaction::validate(AsTransaction)`: weight
limit, signatures, range proofs, kernel sums): no history admits an invalid or over-weight
transaction. -/
theorem entries_always_valid (c : Ctx) (ops : List Op) :
    AllValid (run (c, {}) ops).1 (run (c, {}) ops).2 :=
  run_allValid (c, {}) ops (fun e he => by simp at he)

/-- …and therefore the next block (or reorg) re-establishes the invariant after ANY history,
evictions included: `reconcile_block` re-validates everything against the new head. -/
theorem pool_recovers_at_next_block (c : Ctx) (ops : List Op) (head : GV.Chain.UState) (ver : Nat)
    (ins kers : List Nat) :
    Inv (run (c, {}) (ops ++ [.block head ver ins kers])).1 (run (c, {}) (ops ++ [.block head ver ins kers])).2 := by
  simp only [run, List.foldl_append, List.foldl_cons, List.foldl_nil]
  exact reconcileBlock_inv ins kers (allValid_indep_head head ver (entries_always_valid c ops))

/-! ## eviction -/

/-- **Eviction** with the hypothesis the proof forces: removing transaction `t` keeps the pool
jointly valid provided no remaining transaction spends an output of `t` and none re-creates an
input of `t`.  `bucket_transactions` does NOT guarantee this (next theorems). -/
theorem evict_preserves {c : Ctx} {p : Pool} {t : Tx}
    (h : JointlyValid c.outs (utxoIds c) p.txs) (hself : ∀ o ∈ t.outs, o ∉ t.ins)
    (hout : ∀ o ∈ t.outs, o ∉ allIns (Pool.txs (p.filter (fun e => e.tx != t))))
    (hin : ∀ i ∈ t.ins, i ∉ allOuts (Pool.txs (p.filter (fun e => e.tx != t)))) :
    JointlyValid c.outs (utxoIds c) (Pool.txs (p.filter (fun e => e.tx != t))) := by
  rw [jointlyValid_iff] at h ⊢
  rw [txs_filter] at hout hin ⊢
  refine ⟨netOK_filter_ne h.1 hself hout hin, ?_⟩
  intro x hx
  exact h.2 x (List.mem_filter.mp hx).1

/-! ### witness 1 (DESIGN §9 item 7): a child with parents in two buckets -/

def od (id v : Nat) : GV.Chain.OutDef := { id, cb := false, v }
def pk (id fee : Nat) : PKer := { kid := id, ker := .plain fee }

/-- head: outputs 1, 2, 3 unspent (1000 each); `max_pool_size = 2`, fee base 1 -/
def wc : Ctx where
  cfg := { maxPool := 2, feeBase := 1 }
  outs := [od 1 1000, od 2 1000, od 3 1000, od 11 900, od 12 975, od 13 1775, od 14 900]
  head := { utxo := [(1, 0, false), (2, 0, false), (3, 0, false)], nrd := [], height := 5 }
  ver := 3

/-- A: fee rate 4 -/ def wA : Tx := { ins := [1], outs := [11], kers := [pk 1 100] }
/-- B: fee rate 1 -/ def wB : Tx := { ins := [2], outs := [12], kers := [pk 2 25] }
/-- C spends an output of A and one of B -/ def wC : Tx := { ins := [11, 12], outs := [13], kers := [pk 3 100] }
def wD : Tx := { ins := [3], outs := [14], kers := [pk 4 100] }
def wOps : List Op :=
  [.submit .broadcast wA false true, .submit .broadcast wB false true, .submit .broadcast wC false true]

/-- non-vacuity of `evict_preserves`: evicting D from [A, D] (independent transactions) -/
example : JointlyValid wc.outs (utxoIds wc)
    (Pool.txs (([⟨wA, .broadcast⟩, ⟨wD, .broadcast⟩] : Pool).filter (fun e => e.tx != wD))) :=
  evict_preserves (c := wc) (p := [⟨wA, .broadcast⟩, ⟨wD, .broadcast⟩]) (t := wD)
    ((jointlyValidB_iff _ _ _).mp (by decide)) (by decide) (by decide) (by decide)

/-- the three submissions evict nothing, so the invariant holds before the fourth -/
theorem witness1_before : Inv (run (wc, {}) wOps).1 (run (wc, {}) wOps).2 :=
  run_inv (wc, {}) wOps (inv_empty wc) (by decide)

/-- **the invariant is NOT preserved by eviction**: the pool now holds 3 > `max_pool_size`
entries, so admitting D evicts; `bucket_transactions` skipped C (two parents), the last bucket is
B's, B is evicted, and the txpool [A, C, D] holds C whose input 12 is neither unspent nor created
in the pool. -/
theorem evict_breaks_pool_inv :
    (step (run (wc, {}) wOps) (.submit .broadcast wD false true)).2.txpool.txs = [wA, wC, wD] ∧
    ¬ JointlyValid wc.outs (utxoIds wc) (step (run (wc, {}) wOps) (.submit .broadcast wD false true)).2.txpool.txs := by
  constructor
  · decide
  · rw [← jointlyValidB_iff]; decide

/-! ### witness 2: no multi-parent transaction needed

A child put in its own bucket (it would lower the fee rate) still registers its outputs under its
*parent's* bucket position, so a grandchild is aggregated into the parent's bucket and the child
— on which the grandchild depends — is the last transaction of the last bucket. -/

def vc : Ctx where
  cfg := { maxPool := 50, feeBase := 1 }
  outs := [od 1 10000, od 11 9000, od 12 8975, od 13 6975]
  head := { utxo := [(1, 0, false)], nrd := [], height := 5 }
  ver := 3
/-- fee rate 40 -/ def vA : Tx := { ins := [1], outs := [11], kers := [pk 1 1000] }
/-- child of A, fee rate 1 -/ def vB : Tx := { ins := [11], outs := [12], kers := [pk 2 25] }
/-- child of B, fee rate 80 -/ def vC : Tx := { ins := [12], outs := [13], kers := [pk 3 2000] }
def vOps : List Op :=
  [.submit .broadcast vA false true, .submit .broadcast vB false true, .submit .broadcast vC false true]

theorem evict_breaks_single_parent_chain :
    Inv (run (vc, {}) vOps).1 (run (vc, {}) vOps).2 ∧
    (step (run (vc, {}) vOps) .evict).2.txpool.txs = [vA, vC] ∧
    ¬ JointlyValid vc.outs (utxoIds vc) (step (run (vc, {}) vOps) .evict).2.txpool.txs := by
  refine ⟨run_inv (vc, {}) vOps (inv_empty vc) (by decide), by decide, ?_⟩
  rw [← jointlyValidB_iff]; decide

/-! ## admission -/

/-- fee below the minimum for the weight (`shifted_fee < weight × accept_fee_base`), txpool not
over `max_pool_size`: refused and the pool is unchanged.  (`entryOf`: the transaction itself for
stem, its deaggregated form for fluff; both stem values because a stem transaction already in the
stempool is re-submitted as fluff.) -/
theorem admission_low_fee {c : Ctx} {s : TxPool} (src : Src) (tx : Tx) (stem stemOk : Bool)
    (hcap : s.txpool.length ≤ c.cfg.maxPool)
    (hfee : ∀ st e, entryOf s src tx st = .ok e → e.tx.shiftedFee < e.tx.acceptFee c.cfg) :
    ∃ er, s.addToPool c src tx stem stemOk = (s, some er) := by
  unfold TxPool.addToPool
  split
  · exact addCore_refuses_low_fee src tx false stemOk hcap (hfee false)
  · exact addCore_refuses_low_fee src tx stem stemOk hcap (hfee stem)

/-- standalone-invalid transactions (bad signature, range proof, kernel sum, duplicate or
cut-through violating body, coinbase kernel, over the weight limit) are refused and the pool is
unchanged, whatever its fill state -/
theorem admission_invalid {c : Ctx} {s : TxPool} (src : Src) (tx : Tx) (stem stemOk : Bool)
    (hbad : ∀ st e, entryOf s src tx st = .ok e → e.tx.validate c .asTransaction ≠ none) :
    ∃ er, s.addToPool c src tx stem stemOk = (s, some er) := by
  unfold TxPool.addToPool
  split
  · exact addCore_refuses_invalid src tx false stemOk (hbad false)
  · exact addCore_refuses_invalid src tx stem stemOk (hbad stem)

/-- over the transaction weight limit ⇒ standalone invalid (`TooHeavy`) -/
theorem admission_over_weight {c : Ctx} {s : TxPool} (src : Src) (tx : Tx) (stem stemOk : Bool)
    (hw : ∀ st e, entryOf s src tx st = .ok e → e.tx.weight > c.cfg.maxTxW) :
    ∃ er, s.addToPool c src tx stem stemOk = (s, some er) :=
  admission_invalid src tx stem stemOk (fun st e he => validate_too_heavy (hw st e he))

/-- non-vacuity of the admission theorems: below capacity, a transaction paying 24 for weight 25,
one with a signature fault and one over the weight limit are refused with the expected errors -/
def lowTx : Tx := { ins := [3], outs := [14], kers := [pk 4 24] }
def badSigTx : Tx := { wD with tags := ["sig"] }
def heavyTx : Tx := { ins := [3], outs := List.range 11, kers := [pk 4 5000] }
example : (({} : TxPool).addToPool wc .broadcast lowTx false true).2 = some "LowFee" := by decide
example : (({} : TxPool).addToPool wc .broadcast badSigTx true true).2 = some "InvalidTx:IncorrectSignature" := by decide
example : (({} : TxPool).addToPool wc .broadcast heavyTx false true).2 = some "InvalidTx:TooHeavy" := by decide
example : (({} : TxPool).addToPool wc .broadcast wD false true).2 = none := by decide

/-- **the capacity hypothesis of `admission_low_fee` is needed**: `is_acceptable` reports
`OverCapacity` before it looks at the fee and `add_to_pool` reads that as "admit, then evict".
Here (`max_pool_size = 1`, A and B pooled) a transaction paying fee 1 for weight 26 is admitted,
and since it has two parents the eviction removes B instead of it. -/
def lc : Ctx := { wc with cfg := { maxPool := 1, feeBase := 1 }, outs := wc.outs ++ [od 15 1874] }
def lowChild : Tx := { ins := [11, 12], outs := [15], kers := [pk 5 1] }
def lOps : List Op := [.submit .broadcast wA false true, .submit .broadcast wB false true]

theorem low_fee_admitted_over_capacity :
    lowChild.shiftedFee < lowChild.acceptFee lc.cfg ∧
    ((run (lc, {}) lOps).2.addToPool lc .broadcast lowChild false true).2 = none ∧
    ((run (lc, {}) lOps).2.addToPool lc .broadcast lowChild false true).1.txpool.txs = [wA, lowChild] := by
  decide

/-! ## the mineable set -/

/-- **mineable_ok**: what `prepare_mineable_transactions` returns consists of pool transactions,
is jointly valid against the head, and its aggregate (the block body before the coinbase is added)
passed `validate_raw_tx` under the miner's weight limit: its weight plus the coinbase's 24 is at
most min(`max_block_weight`, `mineable_max_weight`). Needs no invariant: holds in every state
whose entries are standalone valid — i.e. after any history, evictions included. -/
theorem mineable_ok {c : Ctx} {s : TxPool} {txs : List Tx} (hv : AllValid c s)
    (h : s.prepareMineable c = .ok txs) :
    (∀ t ∈ txs, t ∈ s.txpool.txs) ∧ JointlyValid c.outs (utxoIds c) txs ∧
    (txs = [] ∨ ∃ a, aggregate txs = .ok a ∧ validateRawTx c (.asLimited c.cfg.mineW) a = none ∧
       a.weight ≤ min c.cfg.maxBlockW c.cfg.mineW - 24) := by
  unfold TxPool.prepareMineable Pool.prepareMineable at h
  obtain ⟨hset, hmem⟩ := validateRawTxs_spec c _ _ [] txs (Or.inl rfl) h
  have hm : ∀ t ∈ txs, t ∈ s.txpool.txs := by
    intro t ht
    rcases hmem t ht with h | h
    · simp at h
    · exact bucketTransactions_mem c _ _ t h
  refine ⟨hm, ?_, ?_⟩
  · rw [jointlyValid_iff]
    constructor
    · rcases hset with h | ⟨a, ha, hva⟩
      · subst h; exact netOK_nil _
      · exact netOK_of_aggregate ha hva
    · intro t ht
      have := hm t ht
      simp only [Pool.txs, List.mem_map] at this
      obtain ⟨e, he, rfl⟩ := this
      exact (validate_shape (hv e (Or.inl he))).2.2.2
  · rcases hset with h | ⟨a, ha, hva⟩
    · exact Or.inl h
    · right
      refine ⟨a, ha, hva, ?_⟩
      have := validate_weight (validateRawTx_validate hva)
      simp only [overWeight, maxWeight, decide_eq_false_iff_not, Nat.not_lt] at this
      exact this

theorem mineable_ok_after_any_history (c : Ctx) (ops : List Op) {txs : List Tx}
    (h : (run (c, {}) ops).2.prepareMineable (run (c, {}) ops).1 = .ok txs) :
    JointlyValid (run (c, {}) ops).1.outs (utxoIds (run (c, {}) ops).1) txs :=
  (mineable_ok (entries_always_valid c ops) h).2.1

/-- **mineable_block_accepted**: the block a miner assembles from a non-empty mineable set the way
`mine_block.rs::build_block` does (aggregate with cut-through, coinbase output `cb` paying reward
+ fees, coinbase kernel) passes the chain model's `validateBody` and `applyBlock` on the head and
is within the block weight limit — under the side conditions that admission checked when each
transaction entered but that `reconcile` does not re-check: the kernels' lock heights are at most
the next height and no spent coinbase is immature at the next height (see
`reorg_to_lower_height_keeps_locked_tx` for how a reorg can falsify them); for sets without NRD
kernels; `cb` a fresh id. -/
theorem mineable_block_accepted {c : Ctx} {s : TxPool} {txs : List Tx} {cb : Nat} (hv : AllValid c s)
    (h : s.prepareMineable c = .ok txs) (hne : txs ≠ []) (hw : 24 ≤ min c.cfg.maxBlockW c.cfg.mineW) :
    ∃ a, aggregate txs = .ok a ∧ a.weight + 24 ≤ min c.cfg.maxBlockW c.cfg.mineW ∧
      (a.lockHeight ≤ c.head.height + 1 → a.hasNrd = false → immatureCoinbase c a.ins = false →
       cb ∉ a.ins → cb ∉ a.outs → c.head.has cb = false → (∀ x ∈ c.outs, x.id ≠ cb) →
        GV.Chain.validateBody { maturity := c.cfg.maturity }
          (c.outs ++ [{ id := cb, cb := true, v := ({ maturity := c.cfg.maturity } : GV.Chain.Params).reward + a.fee }])
          (mkBlock c a cb)
          (GV.Chain.sumVals (c.outs ++ [{ id := cb, cb := true, v := ({ maturity := c.cfg.maturity } : GV.Chain.Params).reward + a.fee }])
            (mkBlock c a cb).ins) = none ∧
        ∃ s', GV.Chain.applyBlock { maturity := c.cfg.maturity } c.head (mkBlock c a cb) = .ok s') := by
  rcases (mineable_ok hv h).2.2 with h0 | ⟨a, ha, hva, hwt⟩
  · exact absurd h0 hne
  · refine ⟨a, ha, by omega, ?_⟩
    intro hlock hnrd hmat hcb1 hcb2 hcb3 hfresh
    exact ⟨mkBlock_body_valid hva hlock hnrd hcb1 hcb2 hfresh, mkBlock_applies hva hmat hnrd hcb3⟩

/-- non-vacuity of `mineable_block_accepted`: witness 1's state before the eviction -/
example : mineVerdict (run (wc, {}) wOps).1 [wA, wB] = true := by decide

/-- non-vacuity: in witness 1's state before the eviction the mineable set is [A, B] (C is
skipped by the buckets) -/
example : ((run (wc, {}) wOps).2.prepareMineable (run (wc, {}) wOps).1).toOption = some [wA, wB] := by decide

/-- **lock heights and coinbase maturity are NOT re-checked by `reconcile`**: after a reorg onto
a head of lower height a height-locked transaction admitted earlier stays in the pool and is
offered for mining, and the chain model rejects the block built from it. (`mineVerdict` runs
`GV.Chain.validateBody` / `applyBlock` on the assembled block.) -/
def rc : Ctx where
  cfg := { maxPool := 50, feeBase := 1 }
  outs := [od 1 1000, od 11 900]
  head := { utxo := [(1, 0, false)], nrd := [], height := 9 }
  ver := 4
def locked : Tx := { ins := [1], outs := [11], kers := [{ kid := 1, ker := .hl 100 10 }] }
def rOps : List Op :=
  [.submit .broadcast locked false true,
   .block { utxo := [(1, 0, false)], nrd := [], height := 8 } 3 [] [], .reorgCache]

theorem reorg_to_lower_height_keeps_locked_tx :
    ((run (rc, {}) rOps).2.prepareMineable (run (rc, {}) rOps).1).toOption = some [locked] ∧
    mineVerdict (run (rc, {}) rOps).1 [locked] = false ∧
    mineVerdict rc [locked] = true := by
  decide

end GV.Props.C14
